//! `GraphModel`: a table-driven explicit finite `Model` (lead's module; used by the checker-group
//! harness `chk`). States are `u16` (0..n), actions are indices into the state's action list; an action
//! whose entry is `None` is ignored by `next_state`. Properties are (expectation, truth table).
use crate::rng::Rng;
use stateright::{Expectation, Model, Property};

#[derive(Clone, Debug)]
pub struct GProp {
    pub exp: char, // 'a' always, 's' sometimes, 'e' eventually
    pub tbl: Vec<bool>,
}

#[derive(Clone, Debug)]
pub struct GraphModel {
    pub n: usize,
    pub init: Vec<u16>,
    pub adj: Vec<Vec<Option<u16>>>,
    pub bnd: Vec<bool>,
    pub props: Vec<GProp>,
    /// if Some(s): `next_state` panics when asked to expand state s (panic-in-model tests)
    pub panic_at: Option<u16>,
}

/// up to 72 properties: more than a machine word has bits (bit sets over property indices must not wrap)
pub const NAMES: [&str; 72] = ["p0", "p1", "p2", "p3", "p4", "p5", "p6", "p7", "p8", "p9", "p10", "p11", "p12", "p13", "p14", "p15", "p16", "p17", "p18", "p19", "p20", "p21", "p22", "p23", "p24", "p25", "p26", "p27", "p28", "p29", "p30", "p31", "p32", "p33", "p34", "p35", "p36", "p37", "p38", "p39", "p40", "p41", "p42", "p43", "p44", "p45", "p46", "p47", "p48", "p49", "p50", "p51", "p52", "p53", "p54", "p55", "p56", "p57", "p58", "p59", "p60", "p61", "p62", "p63", "p64", "p65", "p66", "p67", "p68", "p69", "p70", "p71"];

fn cond<const K: usize>(m: &GraphModel, s: &u16) -> bool {
    m.props[K].tbl[*s as usize]
}
const CONDS: [fn(&GraphModel, &u16) -> bool; 72] = [cond::<0>, cond::<1>, cond::<2>, cond::<3>, cond::<4>, cond::<5>, cond::<6>, cond::<7>, cond::<8>, cond::<9>, cond::<10>, cond::<11>, cond::<12>, cond::<13>, cond::<14>, cond::<15>, cond::<16>, cond::<17>, cond::<18>, cond::<19>, cond::<20>, cond::<21>, cond::<22>, cond::<23>, cond::<24>, cond::<25>, cond::<26>, cond::<27>, cond::<28>, cond::<29>, cond::<30>, cond::<31>, cond::<32>, cond::<33>, cond::<34>, cond::<35>, cond::<36>, cond::<37>, cond::<38>, cond::<39>, cond::<40>, cond::<41>, cond::<42>, cond::<43>, cond::<44>, cond::<45>, cond::<46>, cond::<47>, cond::<48>, cond::<49>, cond::<50>, cond::<51>, cond::<52>, cond::<53>, cond::<54>, cond::<55>, cond::<56>, cond::<57>, cond::<58>, cond::<59>, cond::<60>, cond::<61>, cond::<62>, cond::<63>, cond::<64>, cond::<65>, cond::<66>, cond::<67>, cond::<68>, cond::<69>, cond::<70>, cond::<71>];

impl Model for GraphModel {
    type State = u16;
    type Action = u16;
    fn init_states(&self) -> Vec<u16> {
        self.init.clone()
    }
    fn actions(&self, s: &u16, actions: &mut Vec<u16>) {
        for a in 0..self.adj[*s as usize].len() {
            actions.push(a as u16);
        }
    }
    fn next_state(&self, s: &u16, a: u16) -> Option<u16> {
        if self.panic_at == Some(*s) {
            panic!("model panic at state {}", s);
        }
        self.adj[*s as usize][a as usize]
    }
    fn within_boundary(&self, s: &u16) -> bool {
        self.bnd[*s as usize]
    }
    fn properties(&self) -> Vec<Property<Self>> {
        self.props
            .iter()
            .enumerate()
            .map(|(k, p)| {
                let e = match p.exp {
                    'a' => Expectation::Always,
                    's' => Expectation::Sometimes,
                    _ => Expectation::Eventually,
                };
                Property { expectation: e, name: NAMES[k], condition: CONDS[k] }
            })
            .collect()
    }
}

impl GraphModel {
    pub fn graph_sx(&self) -> String {
        let adj: Vec<String> = self
            .adj
            .iter()
            .map(|row| format!("({})", row.iter().map(|x| x.map(|t| t.to_string()).unwrap_or("x".into())).collect::<Vec<_>>().join(" ")))
            .collect();
        format!(
            "({} ({}) ({}) ({}))",
            self.n,
            self.init.iter().map(|x| x.to_string()).collect::<Vec<_>>().join(" "),
            adj.join(" "),
            self.bnd.iter().map(|b| if *b { "t" } else { "f" }).collect::<Vec<_>>().join(" ")
        )
    }
    pub fn props_sx(&self) -> String {
        format!(
            "({})",
            self.props
                .iter()
                .map(|p| format!("({} ({}))", p.exp, p.tbl.iter().map(|b| if *b { "t" } else { "f" }).collect::<Vec<_>>().join(" ")))
                .collect::<Vec<_>>()
                .join(" ")
        )
    }
    /// reachable in-boundary states (independent closure, used for statistics only)
    pub fn reach(&self) -> Vec<u16> {
        let mut seen = vec![false; self.n];
        let mut stack: Vec<u16> = vec![];
        for &s in &self.init {
            if self.bnd[s as usize] && !seen[s as usize] {
                seen[s as usize] = true;
                stack.push(s);
            }
        }
        let mut out = vec![];
        while let Some(s) = stack.pop() {
            out.push(s);
            for t in self.adj[s as usize].iter().flatten() {
                if self.bnd[*t as usize] && !seen[*t as usize] {
                    seen[*t as usize] = true;
                    stack.push(*t);
                }
            }
        }
        out.sort();
        out
    }
    /// is `p` a real in-boundary path (harness-side oracle for big graphs)
    pub fn is_path(&self, p: &[u16]) -> bool {
        if p.is_empty() { return false; }
        if !self.init.contains(&p[0]) || !self.bnd[p[0] as usize] { return false; }
        for w in p.windows(2) {
            if !self.bnd[w[1] as usize] { return false; }
            if !self.adj[w[0] as usize].iter().any(|t| *t == Some(w[1])) { return false; }
        }
        true
    }
    /// big random graph for multi-threaded runs: n states, out-degree 0..3, local + long-range edges
    pub fn big(r: &mut Rng, n: usize) -> GraphModel {
        let mut adj: Vec<Vec<Option<u16>>> = vec![vec![]; n];
        for s in 0..n {
            let deg = 1 + r.below(3);
            for _ in 0..deg {
                let t = if r.chance(2, 3) { (s + 1 + r.below(50)) % n } else { r.below(n) };
                adj[s].push(if r.chance(1, 20) { None } else { Some(t as u16) });
            }
        }
        let bnd: Vec<bool> = (0..n).map(|_| !r.chance(1, 30)).collect();
        let init: Vec<u16> = vec![0, (n / 2) as u16, (n - 1) as u16];
        GraphModel { n, init, adj, bnd, props: vec![], panic_at: None }
    }
    /// shape features for the evidence histogram
    pub fn features(&self) -> Vec<&'static str> {
        let mut f = vec![];
        let reach = self.reach();
        let mut indeg = vec![0usize; self.n];
        let mut has_self = false;
        let mut has_ignored = false;
        let mut has_out_edge = false;
        for &s in &reach {
            for t in &self.adj[s as usize] {
                match t {
                    None => has_ignored = true,
                    Some(t) => {
                        if *t == s { has_self = true; }
                        if self.bnd[*t as usize] { indeg[*t as usize] += 1; } else { has_out_edge = true; }
                    }
                }
            }
        }
        if has_self { f.push("self-loop"); }
        if has_ignored { f.push("ignored-action"); }
        if has_out_edge { f.push("edge-leaving-boundary"); }
        if reach.iter().any(|s| indeg[*s as usize] >= 2) { f.push("join"); }
        if self.init.len() >= 2 { f.push("multi-init"); }
        if self.init.iter().any(|s| !self.bnd[*s as usize]) { f.push("init-outside-boundary"); }
        if self.bnd.iter().any(|b| !*b) { f.push("nontrivial-boundary"); }
        // cycle detection among reachable states (DFS colours)
        let mut colour = vec![0u8; self.n];
        fn dfs(g: &GraphModel, s: u16, colour: &mut Vec<u8>) -> bool {
            colour[s as usize] = 1;
            for t in g.adj[s as usize].iter().flatten() {
                if !g.bnd[*t as usize] { continue; }
                if colour[*t as usize] == 1 { return true; }
                if colour[*t as usize] == 0 && dfs(g, *t, colour) { return true; }
            }
            colour[s as usize] = 2;
            false
        }
        let mut cyc = false;
        for &s in &reach {
            if colour[s as usize] == 0 && dfs(self, s, &mut colour) { cyc = true; break; }
        }
        if cyc { f.push("cycle"); }
        f
    }
}

/// shape of a random graph
#[derive(Clone, Copy, PartialEq)]
pub enum Shape { Any, Forest, Dag }

/// seeded random graph: n states, out-degree <= 3, ignored actions, boundary, several init states
pub fn gen_graph(r: &mut Rng, max_n: usize, shape: Shape, n_props: usize) -> GraphModel {
    let n = r.range(1, max_n);
    let mut adj: Vec<Vec<Option<u16>>> = vec![vec![]; n];
    match shape {
        Shape::Any => {
            for s in 0..n {
                let deg = match r.below(8) { 0 => 0, 1..=3 => 1, 4..=6 => 2, _ => 3 };
                for _ in 0..deg {
                    adj[s].push(if r.chance(1, 8) { None } else { Some(r.below(n) as u16) });
                }
            }
        }
        Shape::Forest => {
            // every non-root state gets exactly one parent with a smaller index
            let roots = r.range(1, 2.min(n));
            for s in roots..n {
                let p = r.below(s);
                adj[p].push(Some(s as u16));
            }
            for s in 0..n {
                if r.chance(1, 6) { let k = r.below(adj[s].len() + 1); adj[s].insert(k, None); }
            }
        }
        Shape::Dag => {
            for s in 0..n {
                let deg = r.below(3);
                for _ in 0..deg {
                    if s + 1 < n { adj[s].push(Some(r.range(s + 1, n - 1) as u16)); }
                }
            }
        }
    }
    let bnd: Vec<bool> = (0..n).map(|_| !r.chance(1, 7)).collect();
    let init: Vec<u16> = match shape {
        Shape::Forest => {
            // roots are the states without a parent
            let mut has_parent = vec![false; n];
            for row in &adj { for t in row.iter().flatten() { has_parent[*t as usize] = true; } }
            (0..n).filter(|s| !has_parent[*s]).map(|s| s as u16).collect()
        }
        _ => {
            let k = match r.below(6) { 0..=2 => 1, 3..=4 => 2, _ => 3 };
            let mut v: Vec<u16> = vec![];
            for _ in 0..k { let s = r.below(n) as u16; if !v.contains(&s) { v.push(s); } }
            v
        }
    };
    let props = (0..n_props)
        .map(|_| {
            let exp = *r.pick(&['a', 'a', 's', 's', 'e']);
            // truth density chosen so that a fair share of properties is never discovered
            let tbl: Vec<bool> = match (exp, r.below(4)) {
                ('a', 0) => vec![true; n],
                ('a', _) => (0..n).map(|_| !r.chance(1, 5)).collect(),
                ('s', 0) => vec![false; n],
                ('s', _) => (0..n).map(|_| r.chance(1, 5)).collect(),
                (_, 0) => vec![false; n],
                (_, _) => (0..n).map(|_| r.chance(1, 3)).collect(),
            };
            GProp { exp, tbl }
        })
        .collect();
    GraphModel { n, init, adj, bnd, props, panic_at: None }
}

/// exhaustive small scope: every graph with exactly n states, out-degree <= 2 (targets or ignored), every
/// boundary mask, every non-empty init subset (in increasing order). Calls `f` for each.
pub fn small_scope(n: usize, mut f: impl FnMut(GraphModel)) {
    // per-state adjacency options: [], [x], [t], [t,u], [x,t], [t,x]   (t,u in 0..n)
    let mut opts: Vec<Vec<Option<u16>>> = vec![vec![], vec![None]];
    for t in 0..n { opts.push(vec![Some(t as u16)]); }
    for t in 0..n { for u in 0..n { opts.push(vec![Some(t as u16), Some(u as u16)]); } }
    for t in 0..n { opts.push(vec![None, Some(t as u16)]); }
    let k = opts.len();
    let mut idx = vec![0usize; n];
    loop {
        let adj: Vec<Vec<Option<u16>>> = idx.iter().map(|i| opts[*i].clone()).collect();
        for bmask in 0..(1u32 << n) {
            let bnd: Vec<bool> = (0..n).map(|s| bmask & (1 << s) != 0).collect();
            for imask in 1..(1u32 << n) {
                let init: Vec<u16> = (0..n).filter(|s| imask & (1 << s) != 0).map(|s| s as u16).collect();
                f(GraphModel { n, init, adj: adj.clone(), bnd: bnd.clone(), props: vec![], panic_at: None });
            }
        }
        let mut i = 0;
        loop {
            if i == n { return; }
            idx[i] += 1;
            if idx[i] < k { break; }
            idx[i] = 0;
            i += 1;
        }
    }
}
