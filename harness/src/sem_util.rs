//! Shared by c08 / c14 / c18: wire encoding of the reference objects, a table-driven
//! `SequentialSpec`, history generators and the code that drives the real testers.
use crate::out::Out;
use crate::rng::Rng;
use stateright::semantics::register::{Register, RegisterOp, RegisterRet};
use stateright::semantics::vec::{VecOp, VecRet};
use stateright::semantics::write_once_register::{WORegister, WORegisterOp, WORegisterRet};
use stateright::semantics::{
    ConsistencyTester, LinearizabilityTester, SequentialConsistencyTester, SequentialSpec,
};
use std::fmt::Debug;
use std::panic::{catch_unwind, AssertUnwindSafe};
use std::sync::Arc;

// ------------------------------------------------------------------------------------------------
// table-driven SequentialSpec: states, ops and returns are small numbers, tbl[s][op] = (s', ret).
// OPT = false: `is_valid_step` is NOT overridden (the trait's default runs);
// OPT = true : an "optimised" override that compares first and moves only when accepted.
// ------------------------------------------------------------------------------------------------
#[derive(Clone, PartialEq, Eq, Hash)]
pub struct TableSpec<const OPT: bool> {
    pub tbl: Arc<Vec<Vec<(u8, u8)>>>,
    pub state: u8,
}
impl<const OPT: bool> Debug for TableSpec<OPT> {
    fn fmt(&self, f: &mut std::fmt::Formatter<'_>) -> std::fmt::Result {
        write!(f, "T{}", self.state)
    }
}
fn lookup(tbl: &[Vec<(u8, u8)>], s: u8, op: u8) -> (u8, u8) {
    tbl.get(s as usize).and_then(|row| row.get(op as usize)).copied().unwrap_or((s, 0))
}
impl SequentialSpec for TableSpec<false> {
    type Op = u8;
    type Ret = u8;
    fn invoke(&mut self, op: &u8) -> u8 {
        let (s, r) = lookup(&self.tbl, self.state, *op);
        self.state = s;
        r
    }
}
impl SequentialSpec for TableSpec<true> {
    type Op = u8;
    type Ret = u8;
    fn invoke(&mut self, op: &u8) -> u8 {
        let (s, r) = lookup(&self.tbl, self.state, *op);
        self.state = s;
        r
    }
    fn is_valid_step(&mut self, op: &u8, ret: &u8) -> bool {
        let (s, r) = lookup(&self.tbl, self.state, *op);
        if r == *ret {
            self.state = s;
            true
        } else {
            false
        }
    }
}
pub fn gen_table(r: &mut Rng) -> (Vec<Vec<(u8, u8)>>, u8) {
    let ns = r.range(1, 4);
    let nops = r.range(1, 3);
    let nrets = r.range(1, 3);
    let tbl = (0..ns)
        .map(|_| (0..nops).map(|_| (r.below(ns) as u8, r.below(nrets) as u8)).collect())
        .collect();
    (tbl, r.below(ns) as u8)
}

// ------------------------------------------------------------------------------------------------
// wire encoding
// ------------------------------------------------------------------------------------------------
pub trait Wire: SequentialSpec + Clone + Debug {
    /// object description for the driver, e.g. `(reg 0)`
    fn obj_sx(&self) -> String;
    /// just the object's value (C18 state comparison)
    fn state_sx(&self) -> String;
    fn op_sx(op: &Self::Op) -> String;
    fn ret_sx(r: &Self::Ret) -> String;
    fn gen_op(&self, r: &mut Rng) -> Self::Op;
    fn gen_ret(&self, r: &mut Rng) -> Self::Ret;
    fn kind() -> &'static str;
}
fn optv(v: &Option<u8>) -> String {
    match v {
        None => "none".into(),
        Some(x) => format!("(some {})", x),
    }
}
const NV: usize = 3; // values 0..NV in the seeded generators

impl Wire for Register<u8> {
    fn obj_sx(&self) -> String { format!("(reg {})", self.0) }
    fn state_sx(&self) -> String { format!("{}", self.0) }
    fn op_sx(op: &Self::Op) -> String {
        match op { RegisterOp::Write(v) => format!("(w {})", v), RegisterOp::Read => "r".into() }
    }
    fn ret_sx(r: &Self::Ret) -> String {
        match r { RegisterRet::WriteOk => "wok".into(), RegisterRet::ReadOk(v) => format!("(rok {})", v) }
    }
    fn gen_op(&self, r: &mut Rng) -> Self::Op {
        if r.chance(1, 2) { RegisterOp::Write(r.below(NV) as u8) } else { RegisterOp::Read }
    }
    fn gen_ret(&self, r: &mut Rng) -> Self::Ret {
        if r.chance(1, 3) { RegisterRet::WriteOk } else { RegisterRet::ReadOk(r.below(NV) as u8) }
    }
    fn kind() -> &'static str { "register" }
}
impl Wire for WORegister<u8> {
    fn obj_sx(&self) -> String { format!("(wo {})", optv(&self.0)) }
    fn state_sx(&self) -> String { optv(&self.0) }
    fn op_sx(op: &Self::Op) -> String {
        match op { WORegisterOp::Write(v) => format!("(w {})", v), WORegisterOp::Read => "r".into() }
    }
    fn ret_sx(r: &Self::Ret) -> String {
        match r {
            WORegisterRet::WriteOk => "wok".into(),
            WORegisterRet::WriteFail => "wfail".into(),
            WORegisterRet::ReadOk(v) => format!("(rok {})", optv(v)),
        }
    }
    fn gen_op(&self, r: &mut Rng) -> Self::Op {
        if r.chance(1, 2) { WORegisterOp::Write(r.below(NV) as u8) } else { WORegisterOp::Read }
    }
    fn gen_ret(&self, r: &mut Rng) -> Self::Ret {
        match r.below(4) {
            0 => WORegisterRet::WriteOk,
            1 => WORegisterRet::WriteFail,
            2 => WORegisterRet::ReadOk(None),
            _ => WORegisterRet::ReadOk(Some(r.below(NV) as u8)),
        }
    }
    fn kind() -> &'static str { "wo-register" }
}
impl Wire for Vec<u8> {
    fn obj_sx(&self) -> String { format!("(vec {})", crate::sx::nums(self.iter())) }
    fn state_sx(&self) -> String { crate::sx::nums(self.iter()) }
    fn op_sx(op: &Self::Op) -> String {
        match op { VecOp::Push(v) => format!("(push {})", v), VecOp::Pop => "pop".into(), VecOp::Len => "len".into() }
    }
    fn ret_sx(r: &Self::Ret) -> String {
        match r {
            VecRet::PushOk => "pushok".into(),
            VecRet::PopOk(v) => format!("(popok {})", optv(v)),
            VecRet::LenOk(n) => format!("(lenok {})", n),
        }
    }
    fn gen_op(&self, r: &mut Rng) -> Self::Op {
        match r.below(5) { 0 | 1 => VecOp::Push(r.below(NV) as u8), 2 | 3 => VecOp::Pop, _ => VecOp::Len }
    }
    fn gen_ret(&self, r: &mut Rng) -> Self::Ret {
        match r.below(5) {
            0 => VecRet::PushOk,
            1 => VecRet::PopOk(None),
            2 => VecRet::PopOk(Some(r.below(NV) as u8)),
            _ => VecRet::LenOk(r.below(4)),
        }
    }
    fn kind() -> &'static str { "vec" }
}
fn tbl_sx(tbl: &[Vec<(u8, u8)>]) -> String {
    crate::sx::list(tbl.iter().map(|row| crate::sx::list(row.iter().map(|(s, r)| format!("({} {})", s, r)))))
}
impl Wire for TableSpec<false> {
    fn obj_sx(&self) -> String { format!("(tbl 0 {} {})", self.state, tbl_sx(&self.tbl)) }
    fn state_sx(&self) -> String { format!("{}", self.state) }
    fn op_sx(op: &u8) -> String { op.to_string() }
    fn ret_sx(r: &u8) -> String { r.to_string() }
    fn gen_op(&self, r: &mut Rng) -> u8 { let extra = if r.chance(1, 12) { 1 } else { 0 }; r.below(self.tbl[0].len() + extra) as u8 }
    fn gen_ret(&self, r: &mut Rng) -> u8 { r.below(3) as u8 }
    fn kind() -> &'static str { "table" }
}
impl Wire for TableSpec<true> {
    fn obj_sx(&self) -> String { format!("(tbl 1 {} {})", self.state, tbl_sx(&self.tbl)) }
    fn state_sx(&self) -> String { format!("{}", self.state) }
    fn op_sx(op: &u8) -> String { op.to_string() }
    fn ret_sx(r: &u8) -> String { r.to_string() }
    fn gen_op(&self, r: &mut Rng) -> u8 { let extra = if r.chance(1, 12) { 1 } else { 0 }; r.below(self.tbl[0].len() + extra) as u8 }
    fn gen_ret(&self, r: &mut Rng) -> u8 { r.below(3) as u8 }
    fn kind() -> &'static str { "table-opt" }
}

// ------------------------------------------------------------------------------------------------
// calls and histories
// ------------------------------------------------------------------------------------------------
#[derive(Clone, Debug, PartialEq)]
pub enum Call<Op, Ret> {
    Inv(usize, Op),
    Ret(usize, Ret),
    InvRet(usize, Op, Ret),
}
pub type CallOf<O> = Call<<O as SequentialSpec>::Op, <O as SequentialSpec>::Ret>;

pub fn calls_sx<O: Wire>(calls: &[CallOf<O>]) -> String {
    crate::sx::list(calls.iter().map(|c| match c {
        Call::Inv(t, op) => format!("(i {} {})", t, O::op_sx(op)),
        Call::Ret(t, r) => format!("(r {} {})", t, O::ret_sx(r)),
        Call::InvRet(t, op, r) => format!("(ir {} {} {})", t, O::op_sx(op), O::ret_sx(r)),
    }))
}
pub fn ser_sx<O: Wire>(ser: &Option<Vec<(O::Op, O::Ret)>>) -> String {
    match ser {
        None => "none".into(),
        Some(l) => format!(
            "(some {})",
            crate::sx::list(l.iter().map(|(op, r)| format!("({} {})", O::op_sx(op), O::ret_sx(r))))
        ),
    }
}
pub fn res_text<X>(r: &Result<X, String>) -> String {
    match r {
        Ok(_) => "ok".into(),
        Err(e) => format!("err:{}", e),
    }
}
pub fn res_class(text: &str) -> &'static str {
    if text == "ok" {
        "ok"
    } else if text.starts_with("err:Earlier") {
        "err-earlier"
    } else if text.starts_with("err:Thread already") {
        "err-inflight"
    } else if text.starts_with("err:There is no in-flight") {
        "err-noinflight"
    } else {
        "err-unknown"
    }
}

/// drive any ConsistencyTester with a call list; one result text per call
pub fn drive<O, T>(t: &mut T, calls: &[CallOf<O>]) -> Vec<String>
where
    O: Wire,
    O::Op: Clone,
    O::Ret: Clone,
    T: ConsistencyTester<usize, O>,
{
    calls
        .iter()
        .map(|c| match c {
            Call::Inv(th, op) => res_text(&t.on_invoke(*th, op.clone()).map(|_| ())),
            Call::Ret(th, r) => res_text(&t.on_return(*th, r.clone()).map(|_| ())),
            Call::InvRet(th, op, r) => res_text(&t.on_invret(*th, op.clone(), r.clone()).map(|_| ())),
        })
        .collect()
}

pub fn lin_summary<O>(t: &LinearizabilityTester<usize, O>) -> (bool, Option<Vec<(O::Op, O::Ret)>>, String)
where
    O: Wire,
    O::Op: Clone + Debug,
    O::Ret: Clone + Debug + PartialEq,
{
    let cons = t.is_consistent();
    let ser = t.serialized_history();
    let s = format!("cons={} ;; ser={:?} ;; len={} ;; dbg={:?}", crate::sx::b(cons), ser, t.len(), t);
    (cons, ser, s)
}
pub fn sc_summary<O>(t: &SequentialConsistencyTester<usize, O>) -> (bool, Option<Vec<(O::Op, O::Ret)>>, String)
where
    O: Wire,
    O::Op: Clone + Debug,
    O::Ret: Clone + Debug + PartialEq,
{
    let cons = t.is_consistent();
    let ser = t.serialized_history();
    let s = format!("cons={} ;; ser={:?} ;; len={} ;; dbg={:?}", crate::sx::b(cons), ser, t.len(), t);
    (cons, ser, s)
}

pub struct Verdicts {
    pub lin: Option<bool>,
    pub sc: Option<bool>,
}

/// Run one history through the real tester(s); emit model lines, oracle lines and statistics.
/// `which`: 1 = linearizability, 2 = sequential consistency, 3 = both (+ inclusion oracle).
pub fn emit_history<O>(out: &mut Out, init: &O, calls: &[CallOf<O>], which: u8, tag: &str) -> Verdicts
where
    O: Wire,
    O::Op: Clone + Debug,
    O::Ret: Clone + Debug + PartialEq,
{
    let obj = init.obj_sx();
    let cs = calls_sx::<O>(calls);
    let has_ir = calls.iter().any(|c| matches!(c, Call::InvRet(..)));
    let mut v = Verdicts { lin: None, sc: None };
    let nops = calls.iter().filter(|c| !matches!(c, Call::Ret(..))).count();
    if which & 1 != 0 {
        let r = catch_unwind(AssertUnwindSafe(|| {
            let mut t = LinearizabilityTester::new(init.clone());
            let rs = drive::<O, _>(&mut t, calls);
            let (cons, ser, s) = lin_summary(&t);
            (rs, cons, ser, s)
        }));
        match r {
            Err(_) => {
                out.m(&format!("lin-run n {} {}", obj, cs), "panic");
                out.v("panic", &format!("linearizability tester panicked on {} {}", obj, cs));
            }
            Ok((rs, cons, ser, s)) => {
                out.m(&format!("lin-run n {} {}", obj, cs), &format!("{} ;; {}", rs.join(" | "), s));
                out.o(&format!("o-ser lin {} {} {} {}", obj, cs, crate::sx::b(cons), ser_sx::<O>(&ser)));
                if !has_ir {
                    out.o(&format!("o-res {} {} {}", obj, cs, crate::sx::list(rs.iter().map(|x| res_class(x).to_string()))));
                }
                let valid = rs.iter().all(|x| x == "ok");
                for x in &rs {
                    out.stat(&format!("{}lin-result-{}", tag, res_class(x)));
                }
                out.stat(&format!("{}lin-{}", tag, if !valid { "illformed" } else if cons { "consistent" } else { "inconsistent" }));
                if valid {
                    out.stat(&format!("{}lin-wellformed-{}-{}", tag, O::kind(), if cons { "consistent" } else { "inconsistent" }));
                }
                if let Some(l) = &ser {
                    if l.len() < nops && valid { out.stat(&format!("{}lin-serialization-omits-inflight", tag)); }
                    if l.len() > calls.iter().filter(|c| !matches!(c, Call::Inv(..))).count() { out.stat(&format!("{}lin-serialization-includes-inflight", tag)); }
                }
                v.lin = Some(cons);
            }
        }
    }
    if which & 2 != 0 {
        let r = catch_unwind(AssertUnwindSafe(|| {
            let mut t = SequentialConsistencyTester::new(init.clone());
            let rs = drive::<O, _>(&mut t, calls);
            let (cons, ser, s) = sc_summary(&t);
            (rs, cons, ser, s)
        }));
        match r {
            Err(_) => {
                out.m(&format!("sc-run n {} {}", obj, cs), "panic");
                out.v("panic", &format!("sequential consistency tester panicked on {} {}", obj, cs));
            }
            Ok((rs, cons, ser, s)) => {
                out.m(&format!("sc-run n {} {}", obj, cs), &format!("{} ;; {}", rs.join(" | "), s));
                out.o(&format!("o-ser sc {} {} {} {}", obj, cs, crate::sx::b(cons), ser_sx::<O>(&ser)));
                if !has_ir && which == 2 {
                    out.o(&format!("o-res {} {} {}", obj, cs, crate::sx::list(rs.iter().map(|x| res_class(x).to_string()))));
                }
                let valid = rs.iter().all(|x| x == "ok");
                for x in &rs {
                    out.stat(&format!("{}sc-result-{}", tag, res_class(x)));
                }
                out.stat(&format!("{}sc-{}", tag, if !valid { "illformed" } else if cons { "consistent" } else { "inconsistent" }));
                if valid {
                    out.stat(&format!("{}sc-wellformed-{}-{}", tag, O::kind(), if cons { "consistent" } else { "inconsistent" }));
                }
                if let Some(l) = &ser {
                    if l.len() > calls.iter().filter(|c| !matches!(c, Call::Inv(..))).count() { out.stat(&format!("{}sc-serialization-includes-inflight", tag)); }
                }
                v.sc = Some(cons);
            }
        }
    }
    if let (Some(l), Some(s)) = (v.lin, v.sc) {
        out.o(&format!("o-incl {} {}", crate::sx::b(l), crate::sx::b(s)));
        if s && !l { out.stat(&format!("{}sc-but-not-linearizable", tag)); }
    }
    out.stat(&format!("{}ops-{}", tag, nops));
    if tag.is_empty() { out.sample(&format!("seeded: {} {} => lin={:?} sc={:?}", obj, cs, v.lin, v.sc)); }
    out.distinct(&(which, obj, cs));
    v
}

/// "Mostly consistent" generator: simulate threads against the real object (every operation takes
/// effect at some instant between its invocation and its return), leave some operations in flight,
/// then perturb (returns, order of events, dropped / duplicated events) with probability `p_num/p_den`.
pub fn gen_history<O>(r: &mut Rng, init: &O, max_threads: usize, max_ops: usize, p_num: usize, p_den: usize) -> Vec<CallOf<O>>
where
    O: Wire,
    O::Op: Clone + Debug,
    O::Ret: Clone + Debug + PartialEq,
{
    enum St<Op, Ret> { Idle, Pending(Op), Applied(Ret) }
    let nth = r.range(1, max_threads);
    let mut ids: Vec<usize> = (0..7).collect();
    r.shuffle(&mut ids);
    ids.truncate(nth);
    let nops = r.range(1, max_ops);
    let mut st: Vec<St<O::Op, O::Ret>> = (0..nth).map(|_| St::Idle).collect();
    let mut obj = init.clone();
    let mut evs: Vec<CallOf<O>> = Vec::new();
    let mut invoked = 0;
    let finish_all = r.chance(1, 3);
    // "stuck" threads (a client that crashed or whose reply got lost): their first operation takes effect at some moment
    // but NEVER returns, while the other threads carry on for the rest of the history. An in-flight operation that has to
    // be ordered early — before operations of other threads that would be legal without it — only arises this way.
    let stuck: Vec<bool> = (0..nth).map(|_| nth >= 2 && r.chance(1, 4)).collect();
    let stuck: Vec<bool> = if stuck.iter().all(|b| *b) { vec![false; nth] } else { stuck };
    let mut steps = 0;
    loop {
        steps += 1;
        let busy = st.iter().enumerate().any(|(i, s)| !matches!(s, St::Idle) && !(stuck[i] && matches!(s, St::Applied(_))));
        if invoked == nops && (!busy || (!finish_all && r.chance(1, 4))) { break; }
        if steps > 200 { break; }
        let i = r.below(nth);
        let cur = std::mem::replace(&mut st[i], St::Idle);
        st[i] = match cur {
            St::Idle => {
                if invoked < nops {
                    let op = init.gen_op(r);
                    evs.push(Call::Inv(ids[i], op.clone()));
                    invoked += 1;
                    St::Pending(op)
                } else { St::Idle }
            }
            St::Pending(op) => St::Applied(obj.invoke(&op)),
            St::Applied(ret) if stuck[i] => St::Applied(ret),
            St::Applied(ret) => { evs.push(Call::Ret(ids[i], ret)); St::Idle }
        };
    }
    // perturb (histories with stuck threads are perturbed less often: they are interesting when they stay consistent)
    let mut k = 0;
    let (p_num, p_den) = if stuck.iter().any(|b| *b) { (1, 3) } else { (p_num, p_den) };
    while r.chance(p_num, p_den) && k < 3 && !evs.is_empty() {
        k += 1;
        let n = evs.len();
        match r.below(20) {
            0..=9 => {
                // change a return value
                let rets: Vec<usize> = (0..n).filter(|&i| matches!(evs[i], Call::Ret(..))).collect();
                if !rets.is_empty() {
                    let i = *r.pick(&rets);
                    if let Call::Ret(t, _) = evs[i] { evs[i] = Call::Ret(t, init.gen_ret(r)); }
                }
            }
            10..=12 => {
                // move a return earlier (more real-time constraints), staying after its invocation
                let rets: Vec<usize> = (0..n).filter(|&i| matches!(evs[i], Call::Ret(..))).collect();
                if !rets.is_empty() {
                    let i = *r.pick(&rets);
                    let t = if let Call::Ret(t, _) = evs[i] { t } else { 0 };
                    let mut lo = i;
                    while lo > 0 && !matches!(&evs[lo - 1], Call::Inv(t2, _) if *t2 == t) { lo -= 1; }
                    let j = r.range(lo, i);
                    let e = evs.remove(i);
                    evs.insert(j, e);
                }
            }
            13 | 14 => {
                // swap two adjacent events
                if n >= 2 { let i = r.below(n - 1); evs.swap(i, i + 1); }
            }
            15 => { let i = r.below(n); evs.remove(i); }
            16 => { let i = r.below(n); let e = evs[i].clone(); let j = r.range(i, n); evs.insert(j, e); }
            _ => {
                let invs: Vec<usize> = (0..n).filter(|&i| matches!(evs[i], Call::Inv(..))).collect();
                if !invs.is_empty() {
                    let i = *r.pick(&invs);
                    if let Call::Inv(t, _) = evs[i] { evs[i] = Call::Inv(t, init.gen_op(r)); }
                }
            }
        }
    }
    // sometimes use on_invret for adjacent invoke/return pairs
    if r.chance(1, 4) {
        let mut outv: Vec<CallOf<O>> = Vec::new();
        let mut i = 0;
        while i < evs.len() {
            if i + 1 < evs.len() {
                if let (Call::Inv(t, op), Call::Ret(t2, ret)) = (&evs[i], &evs[i + 1]) {
                    if t == t2 && r.chance(2, 3) {
                        outv.push(Call::InvRet(*t, op.clone(), ret.clone()));
                        i += 2;
                        continue;
                    }
                }
            }
            outv.push(evs[i].clone());
            i += 1;
        }
        evs = outv;
    }
    evs
}

/// Exhaustive small scope over `Register` with values {0,1} and threads 0..nth: calls `f` on every
/// sequence of at most `max_len` events (6 events per thread: Write(0), Write(1), Read, WriteOk, ReadOk(0),
/// ReadOk(1)) up to and including the first inadmissible event; after that event the tester is in its
/// sticky error state, so the tail is explored with two probe events only.
pub fn exhaustive_register<F: FnMut(&[CallOf<Register<u8>>])>(nth: usize, max_len: usize, f: &mut F) {
    fn go<F: FnMut(&[CallOf<Register<u8>>])>(
        nth: usize, max_len: usize, cur: &mut Vec<CallOf<Register<u8>>>, inflight: &mut Vec<bool>, broken: bool, f: &mut F,
    ) {
        f(cur);
        if cur.len() >= max_len { return; }
        for t in 0..nth {
            let mut evs: Vec<CallOf<Register<u8>>> = vec![
                Call::Inv(t, RegisterOp::Write(0)), Call::Inv(t, RegisterOp::Write(1)), Call::Inv(t, RegisterOp::Read),
                Call::Ret(t, RegisterRet::WriteOk), Call::Ret(t, RegisterRet::ReadOk(0)), Call::Ret(t, RegisterRet::ReadOk(1)),
            ];
            for e in evs.drain(..) {
                let is_inv = matches!(e, Call::Inv(..));
                if broken {
                    // after the first inadmissible event every call is rejected and nothing changes:
                    // continue with two probe events only (one invocation, one return, thread 0)
                    let probe = matches!(e, Call::Inv(_, RegisterOp::Read) | Call::Ret(_, RegisterRet::WriteOk));
                    if !probe || t != 0 { continue; }
                    cur.push(e);
                    go(nth, max_len, cur, inflight, true, f);
                    cur.pop();
                    continue;
                }
                let admissible = is_inv != inflight[t];
                cur.push(e);
                if admissible {
                    inflight[t] = is_inv;
                    go(nth, max_len, cur, inflight, false, f);
                    inflight[t] = !is_inv;
                } else {
                    go(nth, max_len, cur, inflight, true, f);
                }
                cur.pop();
            }
        }
    }
    let mut cur = Vec::new();
    let mut inflight = vec![false; nth];
    go(nth, max_len, &mut cur, &mut inflight, false, f);
}

/// seeded histories over all object kinds (3/10 Register, 2/10 WORegister, 3/10 Vec, 2/10 table specs)
pub fn seeded(out: &mut Out, r: &mut Rng, n: usize, which: u8) {
    for i in 0..n {
        let p = (4, 5);
        match i % 10 {
            0 | 1 | 2 => {
                let init = Register(r.below(3) as u8);
                let h = gen_history(r, &init, 4, 9, p.0, p.1);
                emit_history(out, &init, &h, which, "");
            }
            3 | 4 => {
                let init = WORegister(if r.chance(1, 3) { Some(r.below(3) as u8) } else { None });
                let h = gen_history(r, &init, 4, 9, p.0, p.1);
                emit_history(out, &init, &h, which, "");
            }
            5 | 6 | 7 => {
                let init: Vec<u8> = (0..r.below(3)).map(|_| r.below(3) as u8).collect();
                let h = gen_history(r, &init, 4, 9, p.0, p.1);
                emit_history(out, &init, &h, which, "");
            }
            8 => {
                let (tbl, s) = gen_table(r);
                let init = TableSpec::<false> { tbl: Arc::new(tbl), state: s };
                let h = gen_history(r, &init, 4, 9, p.0, p.1);
                emit_history(out, &init, &h, which, "");
            }
            _ => {
                let (tbl, s) = gen_table(r);
                let init = TableSpec::<true> { tbl: Arc::new(tbl), state: s };
                let h = gen_history(r, &init, 4, 9, p.0, p.1);
                emit_history(out, &init, &h, which, "");
            }
        }
    }
}

