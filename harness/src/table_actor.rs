//! Table-driven `Actor` and helpers to build, walk and print `ActorModel`s (shared by C06, C07, C09, C15 and
//! reusable by other properties).
//!
//! # What is here
//! * `TState`, `TMsg`, `TTimer`, `TRandom` — `u8` newtypes used as `Actor::{State, Msg, Timer, Random}`.
//! * `Code` — "this value has a small integer code": implemented for the newtypes, `()`, `u8`,
//!   `RegisterMsg<u64,char,u8>` and `WORegisterMsg<u64,char,u8>` so that a `TableActor` can be wrapped in the
//!   register adapters. Everything printed on the wire uses codes only.
//! * `TCmd`, `Row`, `Table` — a handler table. `Table::to_sx()` is the verbatim S-expression the Lean driver
//!   decodes (`lean/SR/Actor/Codec.lean` documents the grammar):
//!   `(tab (s0 cmds) ((state src msg ns cmds) ...) ((state timer ns cmds) ...) ((state random ns cmds) ...))`.
//!   A handler looks up `(state, event)`; a missing row is a no-op (state stays `Cow::Borrowed`, no command);
//!   `ns = Some(s)` sets `*state = Cow::Owned(TState(s))` (also when `s` equals the old state), `ns = None`
//!   leaves the `Cow` borrowed. Commands are pushed to `Out` in table order.
//!   Random-choice keys are the strings `"k0"`, `"k1"`, ... (`key_name` / `key_index`).
//! * `TableActor<M>` — `Actor<Msg = M, State = TState, Timer = TTimer, Random = TRandom>` over an `Arc<Table>`,
//!   with an optional shared invocation log (`Log`) recording every handler call with all its arguments.
//! * `SysSpec` — a whole system: network kind, lossiness, crash budget, history modes, initial envelopes and one
//!   table per actor. `SysSpec::to_sx(&wraps)` prints it for the driver, `SysSpec::model(actors)` builds the
//!   `ActorModel<A, HistCfg, Hist>` (history = `Vec<u32>` log driven by `HistCfg`, see `record_in/out`).
//! * `gen_table`, `gen_sys` — seeded generators (`GenParams` says what may occur).
//! * `explore` — bounded breadth-first walk of any `ActorModel` through the public `Model` trait
//!   (`init_states`, `actions`, `next_state`), with canonical printing of states and actions; the result
//!   (`Graph`) prints exactly like the Lean driver's `graph` command.
//! * printing helpers: `state_sx`, `net_sx`, `action_sx`, `action_key`.
use crate::rng::Rng;
use stateright::actor::register::RegisterMsg;
use stateright::actor::write_once_register::WORegisterMsg;
use stateright::actor::{
    Actor, ActorModel, ActorModelAction, ActorModelState, Envelope, Id, LossyNetwork, Network, Out,
};
use stateright::Model;
use std::borrow::Cow;
use std::collections::{BTreeMap, HashMap};
use std::fmt::Debug;
use std::hash::Hash;
use std::marker::PhantomData;
use std::panic::{catch_unwind, AssertUnwindSafe};
use std::sync::{Arc, Mutex};

// ---------------------------------------------------------------------------------------------------------
// small value types

#[derive(Clone, Copy, Debug, PartialEq, Eq, Hash, PartialOrd, Ord, serde::Serialize)]
pub struct TState(pub u8);
#[derive(Clone, Copy, Debug, PartialEq, Eq, Hash, PartialOrd, Ord, serde::Serialize)]
pub struct TMsg(pub u8);
#[derive(Clone, Copy, Debug, PartialEq, Eq, Hash, PartialOrd, Ord, serde::Serialize)]
pub struct TTimer(pub u8);
#[derive(Clone, Copy, Debug, PartialEq, Eq, Hash, PartialOrd, Ord, serde::Serialize)]
pub struct TRandom(pub u8);

/// values identified by a small integer code (what goes over the wire)
pub trait Code: Clone + Debug + Eq + Hash {
    fn code(&self) -> u64;
    fn from_code(c: u64) -> Self;
}
impl Code for TMsg {
    fn code(&self) -> u64 { self.0 as u64 }
    fn from_code(c: u64) -> Self { TMsg(c as u8) }
}
impl Code for TTimer {
    fn code(&self) -> u64 { self.0 as u64 }
    fn from_code(c: u64) -> Self { TTimer(c as u8) }
}
impl Code for TRandom {
    fn code(&self) -> u64 { self.0 as u64 }
    fn from_code(c: u64) -> Self { TRandom(c as u8) }
}
impl Code for u8 {
    fn code(&self) -> u64 { *self as u64 }
    fn from_code(c: u64) -> Self { c as u8 }
}
impl Code for () {
    fn code(&self) -> u64 { 0 }
    fn from_code(_: u64) {}
}
/// codes 1..=4 are the client-facing variants (request id = code), every other code is `Internal(code)`
impl Code for RegisterMsg<u64, char, u8> {
    fn code(&self) -> u64 {
        match self {
            RegisterMsg::Internal(x) => *x as u64,
            RegisterMsg::Put(r, _) | RegisterMsg::Get(r) | RegisterMsg::PutOk(r) | RegisterMsg::GetOk(r, _) => *r,
        }
    }
    fn from_code(c: u64) -> Self {
        match c {
            1 => RegisterMsg::Put(1, 'B'),
            2 => RegisterMsg::Get(2),
            3 => RegisterMsg::PutOk(3),
            4 => RegisterMsg::GetOk(4, 'E'),
            _ => RegisterMsg::Internal(c as u8),
        }
    }
}
impl Code for WORegisterMsg<u64, char, u8> {
    fn code(&self) -> u64 {
        match self {
            WORegisterMsg::Internal(x) => *x as u64,
            WORegisterMsg::Put(r, _) | WORegisterMsg::Get(r) | WORegisterMsg::PutOk(r)
            | WORegisterMsg::PutFail(r) | WORegisterMsg::GetOk(r, _) => *r,
        }
    }
    fn from_code(c: u64) -> Self {
        match c {
            1 => WORegisterMsg::Put(1, 'B'),
            2 => WORegisterMsg::Get(2),
            3 => WORegisterMsg::PutOk(3),
            4 => WORegisterMsg::GetOk(4, 'E'),
            5 => WORegisterMsg::PutFail(5),
            _ => WORegisterMsg::Internal(c as u8),
        }
    }
}

pub fn key_name(k: u8) -> String { format!("k{}", k) }
pub fn key_index(s: &str) -> u64 { s[1..].parse().unwrap_or(999) }

// ---------------------------------------------------------------------------------------------------------
// tables

#[derive(Clone, Debug, PartialEq, Eq, Hash)]
pub enum TCmd {
    Send(usize, u8),
    SetTimer(u8),
    CancelTimer(u8),
    /// key index, choices (empty = `remove_random`)
    ChooseRandom(u8, Vec<u8>),
}
impl TCmd {
    pub fn to_sx(&self) -> String {
        match self {
            TCmd::Send(d, m) => format!("(s {} {})", d, m),
            TCmd::SetTimer(t) => format!("(t {})", t),
            TCmd::CancelTimer(t) => format!("(c {})", t),
            TCmd::ChooseRandom(k, cs) => {
                let mut s = format!("(r {}", k);
                for c in cs { s.push_str(&format!(" {}", c)); }
                s.push(')');
                s
            }
        }
    }
    pub fn kind(&self) -> &'static str {
        match self {
            TCmd::Send(..) => "send",
            TCmd::SetTimer(_) => "set-timer",
            TCmd::CancelTimer(_) => "cancel-timer",
            TCmd::ChooseRandom(_, cs) => if cs.is_empty() { "remove-random" } else { "choose-random" },
        }
    }
}
pub fn cmds_sx(cmds: &[TCmd]) -> String {
    format!("({})", cmds.iter().map(|c| c.to_sx()).collect::<Vec<_>>().join(" "))
}

#[derive(Clone, Debug, PartialEq, Eq, Hash, Default)]
pub struct Row {
    /// `Some(s)` = `Cow::Owned(TState(s))`, `None` = state left `Cow::Borrowed`
    pub ns: Option<u8>,
    pub cmds: Vec<TCmd>,
}
impl Row {
    fn sx(&self) -> String {
        format!("{} {}", self.ns.map(|s| s.to_string()).unwrap_or_else(|| "-".into()), cmds_sx(&self.cmds))
    }
}

#[derive(Clone, Debug, PartialEq, Eq, Hash, Default)]
pub struct Table {
    pub start: (u8, Vec<TCmd>),
    /// (state, src, msg code)
    pub msg: BTreeMap<(u8, usize, u8), Row>,
    /// (state, timer)
    pub timeout: BTreeMap<(u8, u8), Row>,
    /// (state, random)
    pub random: BTreeMap<(u8, u8), Row>,
}
impl Table {
    pub fn to_sx(&self) -> String {
        let m: Vec<String> = self.msg.iter().map(|((s, a, b), r)| format!("({} {} {} {})", s, a, b, r.sx())).collect();
        let t: Vec<String> = self.timeout.iter().map(|((s, a), r)| format!("({} {} {})", s, a, r.sx())).collect();
        let r: Vec<String> = self.random.iter().map(|((s, a), r)| format!("({} {} {})", s, a, r.sx())).collect();
        format!("(tab ({} {}) ({}) ({}) ({}))", self.start.0, cmds_sx(&self.start.1), m.join(" "), t.join(" "), r.join(" "))
    }
    pub fn all_cmds(&self) -> impl Iterator<Item = &TCmd> {
        self.start.1.iter()
            .chain(self.msg.values().flat_map(|r| r.cmds.iter()))
            .chain(self.timeout.values().flat_map(|r| r.cmds.iter()))
            .chain(self.random.values().flat_map(|r| r.cmds.iter()))
    }
}

// ---------------------------------------------------------------------------------------------------------
// the actor

#[derive(Clone, Debug, PartialEq, Eq, Hash)]
pub enum Ev {
    Start,
    Msg { state: u8, src: usize, msg: u64 },
    Timeout { state: u8, timer: u8 },
    Random { state: u8, random: u8 },
}
/// one handler call: the `id` the handler was given, the event with all arguments, whether the `Cow` it was
/// handed was borrowed (it always is when called by `ActorModel` or a forwarding adapter)
#[derive(Clone, Debug, PartialEq, Eq, Hash)]
pub struct Invocation {
    pub id: usize,
    pub ev: Ev,
    pub borrowed_in: bool,
}
impl Invocation {
    pub fn to_sx(&self) -> String {
        match &self.ev {
            Ev::Start => format!("(start {})", self.id),
            Ev::Msg { state, src, msg } => format!("(msg {} {} {} {})", self.id, state, src, msg),
            Ev::Timeout { state, timer } => format!("(timeout {} {} {})", self.id, state, timer),
            Ev::Random { state, random } => format!("(random {} {} {})", self.id, state, random),
        }
    }
}
pub type Log = Arc<Mutex<Vec<Invocation>>>;
pub fn new_log() -> Log { Arc::new(Mutex::new(Vec::new())) }
pub fn take_log(l: &Log) -> Vec<Invocation> { std::mem::take(&mut *l.lock().unwrap()) }

#[derive(Clone, Debug)]
pub struct TableActor<M = TMsg> {
    pub table: Arc<Table>,
    pub log: Option<Log>,
    _m: PhantomData<fn() -> M>,
}
impl<M> TableActor<M> {
    pub fn new(table: Arc<Table>, log: Option<Log>) -> Self { TableActor { table, log, _m: PhantomData } }
    fn record(&self, id: Id, ev: Ev, borrowed_in: bool) {
        if let Some(l) = &self.log {
            l.lock().unwrap().push(Invocation { id: usize::from(id), ev, borrowed_in });
        }
    }
}
impl<M> PartialEq for TableActor<M> {
    fn eq(&self, o: &Self) -> bool { self.table == o.table }
}

fn emit<A>(cmds: &[TCmd], o: &mut Out<A>)
where
    A: Actor<Timer = TTimer, Random = TRandom>,
    A::Msg: Code,
{
    let mut i = 0;
    while i < cmds.len() {
        match &cmds[i] {
            TCmd::Send(d, m) => {
                // a run of sends of the SAME message goes through `Out::broadcast` (= the sends, in order)
                let mut dsts = vec![Id::from(*d)];
                while let Some(TCmd::Send(d2, m2)) = cmds.get(i + dsts.len()) {
                    if m2 != m { break; }
                    dsts.push(Id::from(*d2));
                }
                if dsts.len() >= 2 {
                    o.broadcast(dsts.iter(), &A::Msg::from_code(*m as u64));
                    i += dsts.len();
                    continue;
                }
                o.send(Id::from(*d), A::Msg::from_code(*m as u64))
            }
            TCmd::SetTimer(t) => o.set_timer(TTimer(*t), stateright::actor::model_timeout()),
            TCmd::CancelTimer(t) => o.cancel_timer(TTimer(*t)),
            TCmd::ChooseRandom(k, cs) => o.choose_random(key_name(*k), cs.iter().map(|c| TRandom(*c)).collect()),
        }
        i += 1;
    }
}

impl<M: Code> Actor for TableActor<M> {
    type Msg = M;
    type State = TState;
    type Timer = TTimer;
    type Random = TRandom;

    fn on_start(&self, id: Id, o: &mut Out<Self>) -> TState {
        self.record(id, Ev::Start, true);
        emit(&self.table.start.1, o);
        TState(self.table.start.0)
    }
    fn on_msg(&self, id: Id, state: &mut Cow<TState>, src: Id, msg: M, o: &mut Out<Self>) {
        let s = state.0;
        self.record(id, Ev::Msg { state: s, src: usize::from(src), msg: msg.code() }, matches!(state, Cow::Borrowed(_)));
        if let Some(row) = self.table.msg.get(&(s, usize::from(src), msg.code() as u8)) {
            emit(&row.cmds, o);
            if let Some(ns) = row.ns { *state = Cow::Owned(TState(ns)); }
        }
    }
    fn on_timeout(&self, id: Id, state: &mut Cow<TState>, timer: &TTimer, o: &mut Out<Self>) {
        let s = state.0;
        self.record(id, Ev::Timeout { state: s, timer: timer.0 }, matches!(state, Cow::Borrowed(_)));
        if let Some(row) = self.table.timeout.get(&(s, timer.0)) {
            emit(&row.cmds, o);
            if let Some(ns) = row.ns { *state = Cow::Owned(TState(ns)); }
        }
    }
    fn on_random(&self, id: Id, state: &mut Cow<TState>, random: &TRandom, o: &mut Out<Self>) {
        let s = state.0;
        self.record(id, Ev::Random { state: s, random: random.0 }, matches!(state, Cow::Borrowed(_)));
        if let Some(row) = self.table.random.get(&(s, random.0)) {
            emit(&row.cmds, o);
            if let Some(ns) = row.ns { *state = Cow::Owned(TState(ns)); }
        }
    }
    fn name(&self) -> String { "table".into() }
}

// ---------------------------------------------------------------------------------------------------------
// whole systems

#[derive(Clone, Copy, Debug, PartialEq, Eq, Hash)]
pub enum NetKind { Dup, NonDup, Ordered }
impl NetKind {
    pub fn sx(&self) -> &'static str {
        match self { NetKind::Dup => "d", NetKind::NonDup => "n", NetKind::Ordered => "o" }
    }
    pub fn name(&self) -> &'static str {
        match self { NetKind::Dup => "unordered-duplicating", NetKind::NonDup => "unordered-nonduplicating", NetKind::Ordered => "ordered" }
    }
    pub fn all() -> [NetKind; 3] { [NetKind::Dup, NetKind::NonDup, NetKind::Ordered] }
}

/// history hooks: mode 0 never records (`None`), 1 appends every envelope, 2 appends envelopes whose message
/// code is even (mix of `Some`/`None`), 3 appends and keeps the last two entries (finite state spaces).
#[derive(Clone, Copy, Debug, PartialEq, Eq, Hash)]
pub struct HistCfg { pub in_mode: u8, pub out_mode: u8 }
pub type Hist = Vec<u32>;

fn record(mode: u8, base: u32, h: &Hist, src: Id, dst: Id, msg: u64) -> Option<Hist> {
    let code = base + (usize::from(src) as u32) * 100 + (usize::from(dst) as u32) * 10 + msg as u32;
    match mode {
        0 => None,
        1 => { let mut h = h.clone(); h.push(code); Some(h) }
        2 => if msg % 2 == 0 { let mut h = h.clone(); h.push(code); Some(h) } else { None },
        _ => { let mut h = h.clone(); h.push(code); let n = h.len(); Some(h[n.saturating_sub(2)..].to_vec()) }
    }
}
pub fn record_in<M: Code>(cfg: &HistCfg, h: &Hist, env: Envelope<&M>) -> Option<Hist> {
    record(cfg.in_mode, 1000, h, env.src, env.dst, env.msg.code())
}
pub fn record_out<M: Code>(cfg: &HistCfg, h: &Hist, env: Envelope<&M>) -> Option<Hist> {
    record(cfg.out_mode, 2000, h, env.src, env.dst, env.msg.code())
}

#[derive(Clone, Debug, PartialEq, Eq, Hash)]
pub struct SysSpec {
    pub kind: NetKind,
    pub lossy: bool,
    pub max_crashes: usize,
    pub hist: HistCfg,
    /// envelopes the initial network is built from, in this order, through `Network::new_*`
    pub init_envs: Vec<(usize, usize, u8)>,
    /// `last_msg` of a duplicating initial network
    pub last: Option<(usize, usize, u8)>,
    pub tables: Vec<Arc<Table>>,
}

impl SysSpec {
    /// wire form; `wraps[i]` is the adapter stack of actor `i`, outermost first, letters of the grammar
    /// (`L`, `R`, `O`, `S`, `W`); empty slice = no adapters anywhere
    pub fn to_sx(&self, wraps: &[&str]) -> String {
        let actors: Vec<String> = self.tables.iter().enumerate().map(|(i, t)| {
            let w = wraps.get(i).copied().unwrap_or("");
            let mut s = t.to_sx();
            for c in w.chars().rev() { s = format!("({} {})", c, s); }
            s
        }).collect();
        self.to_sx_with_actors(&actors)
    }
    pub fn to_sx_with_actors(&self, actors: &[String]) -> String {
        let envs: Vec<String> = self.init_envs.iter().map(|(s, d, m)| format!("({} {} {})", s, d, m)).collect();
        let last = match self.last { None => "none".to_string(), Some((s, d, m)) => format!("(some ({} {} {}))", s, d, m) };
        format!("({} {} {} {} {} ({}) {} ({}))", self.kind.sx(), if self.lossy { "t" } else { "f" }, self.max_crashes,
            self.hist.in_mode, self.hist.out_mode, envs.join(" "), last, actors.join(" "))
    }
    pub fn network<M: Code>(&self) -> Network<M> {
        let envs = self.init_envs.iter().map(|(s, d, m)| Envelope { src: Id::from(*s), dst: Id::from(*d), msg: M::from_code(*m as u64) });
        match self.kind {
            NetKind::Dup => Network::new_unordered_duplicating_with_last_msg(
                envs, self.last.map(|(s, d, m)| Envelope { src: Id::from(s), dst: Id::from(d), msg: M::from_code(m as u64) })),
            NetKind::NonDup => Network::new_unordered_nonduplicating(envs),
            NetKind::Ordered => Network::new_ordered(envs),
        }
    }
    /// the model over the given actors (one per table, possibly wrapped in adapters by the caller)
    pub fn model<A>(&self, actors: Vec<A>) -> ActorModel<A, HistCfg, Hist>
    where
        A: Actor,
        A::Msg: Code,
    {
        // The builder calls are independent settings: the model must not depend on the ORDER in which they are made.
        // `BUILDER_ORDER` (set by the harness bins per system) picks one of three orders.
        let lossy = if self.lossy { LossyNetwork::Yes } else { LossyNetwork::No };
        match BUILDER_ORDER.load(std::sync::atomic::Ordering::Relaxed) % 3 {
            0 => ActorModel::new(self.hist, Vec::new())
                .actors(actors)
                .init_network(self.network::<A::Msg>())
                .lossy_network(lossy)
                .max_crashes(self.max_crashes)
                .record_msg_in(record_in::<A::Msg>)
                .record_msg_out(record_out::<A::Msg>),
            1 => {
                // everything first, the actors last and one by one
                let mut m = ActorModel::new(self.hist, Vec::new())
                    .max_crashes(self.max_crashes)
                    .record_msg_out(record_out::<A::Msg>)
                    .lossy_network(lossy)
                    .record_msg_in(record_in::<A::Msg>)
                    .init_network(self.network::<A::Msg>());
                for a in actors { m = m.actor(a); }
                m
            }
            _ => ActorModel::new(self.hist, Vec::new())
                .init_network(self.network::<A::Msg>())
                .max_crashes(self.max_crashes)
                .actors(actors)
                .record_msg_in(record_in::<A::Msg>)
                .lossy_network(lossy)
                .record_msg_out(record_out::<A::Msg>),
        }
    }
    /// plain `TableActor`s over the tables
    pub fn table_actors<M: Code>(&self, log: Option<&Log>) -> Vec<TableActor<M>> {
        self.tables.iter().map(|t| TableActor::new(t.clone(), log.cloned())).collect()
    }
}

/// which order of builder calls `SysSpec::model` uses (see there)
pub static BUILDER_ORDER: std::sync::atomic::AtomicU8 = std::sync::atomic::AtomicU8::new(0);

// ---------------------------------------------------------------------------------------------------------
// generators

#[derive(Clone, Debug)]
pub struct GenParams {
    pub actors: (usize, usize),
    pub states: (usize, usize),
    pub msgs: usize,
    pub timers: usize,
    pub randoms: usize,
    pub keys: usize,
    pub max_cmds: usize,
    /// probability (percent) that a given (state, event) has a row
    pub density: usize,
    pub use_timers: bool,
    pub use_random: bool,
    /// allow sends to an id one past the last actor (recipient does not exist)
    pub ghost_dst: bool,
    pub max_crashes: (usize, usize),
    /// message codes are drawn from `msg_base .. msg_base + msgs`
    pub msg_base: u8,
}
impl Default for GenParams {
    fn default() -> Self {
        GenParams { actors: (1, 4), states: (2, 4), msgs: 3, timers: 3, randoms: 3, keys: 2, max_cmds: 4, density: 45,
            use_timers: true, use_random: true, ghost_dst: true, max_crashes: (0, 2), msg_base: 0 }
    }
}

pub fn gen_cmd(r: &mut Rng, p: &GenParams, n_actors: usize) -> TCmd {
    let mut kinds = vec![0, 0, 0];
    if p.use_timers { kinds.extend([1, 1, 2]); }
    if p.use_random { kinds.extend([3, 3]); }
    match *r.pick(&kinds) {
        0 => {
            let nd = if p.ghost_dst && r.chance(1, 8) { n_actors + 1 } else { n_actors };
            TCmd::Send(r.below(nd), p.msg_base + r.below(p.msgs) as u8)
        }
        1 => TCmd::SetTimer(r.below(p.timers) as u8),
        2 => TCmd::CancelTimer(r.below(p.timers) as u8),
        _ => {
            let k = r.below(p.keys) as u8;
            let n = match r.below(6) { 0 => 0, 1 | 2 => 1, 3 | 4 => 2, _ => 3 };
            TCmd::ChooseRandom(k, (0..n).map(|_| r.below(p.randoms) as u8).collect())
        }
    }
}
fn gen_cmds(r: &mut Rng, p: &GenParams, n_actors: usize) -> Vec<TCmd> {
    let n = match r.below(10) { 0..=2 => 0, 3..=5 => 1, 6 | 7 => 2, 8 => 3, _ => p.max_cmds };
    (0..n.min(p.max_cmds)).map(|_| gen_cmd(r, p, n_actors)).collect()
}
fn gen_row(r: &mut Rng, p: &GenParams, n_actors: usize, n_states: usize, timer: Option<u8>) -> Row {
    let ns = if r.chance(3, 5) { Some(r.below(n_states) as u8) } else { None };
    let mut cmds = gen_cmds(r, p, n_actors);
    // timeout rows: sometimes exactly "re-arm the same timer" (the `is_no_op_with_timer` shape) or a near miss
    if let Some(t) = timer {
        match r.below(6) {
            0 => cmds = vec![TCmd::SetTimer(t)],
            1 => cmds = vec![TCmd::SetTimer(t), TCmd::SetTimer(t)],
            2 => cmds = vec![TCmd::SetTimer((t + 1) % p.timers.max(1) as u8)],
            _ => {}
        }
    }
    Row { ns, cmds }
}
pub fn gen_table(r: &mut Rng, p: &GenParams, n_actors: usize) -> Table {
    let n_states = r.range(p.states.0, p.states.1);
    let mut t = Table { start: (r.below(n_states) as u8, gen_cmds(r, p, n_actors)), ..Default::default() };
    if r.chance(1, 2) && t.start.1.is_empty() { t.start.1.push(gen_cmd(r, p, n_actors)); }
    for s in 0..n_states as u8 {
        for src in 0..n_actors {
            for m in 0..p.msgs as u8 {
                if r.chance(p.density, 100) {
                    t.msg.insert((s, src, p.msg_base + m), gen_row(r, p, n_actors, n_states, None));
                }
            }
        }
        if p.use_timers {
            for tm in 0..p.timers as u8 {
                if r.chance(p.density + 20, 100) { t.timeout.insert((s, tm), gen_row(r, p, n_actors, n_states, Some(tm))); }
            }
        }
        if p.use_random {
            for rr in 0..p.randoms as u8 {
                if r.chance(p.density + 20, 100) { t.random.insert((s, rr), gen_row(r, p, n_actors, n_states, None)); }
            }
        }
    }
    t
}
pub fn gen_sys(r: &mut Rng, p: &GenParams) -> SysSpec {
    let n = r.range(p.actors.0, p.actors.1);
    let kind = *r.pick(&NetKind::all());
    let tables = (0..n).map(|_| Arc::new(gen_table(r, p, n))).collect();
    let n_env = match r.below(4) { 0 | 1 => 0, 2 => 1, _ => r.range(2, 3) };
    let init_envs: Vec<(usize, usize, u8)> = (0..n_env)
        .map(|_| (r.below(n + 1), r.below(if p.ghost_dst { n + 1 } else { n }), p.msg_base + r.below(p.msgs) as u8)).collect();
    let last = if kind == NetKind::Dup && r.chance(1, 4) { Some((r.below(n), r.below(n), p.msg_base + r.below(p.msgs) as u8)) } else { None };
    let hm = |r: &mut Rng| match r.below(8) { 0..=3 => 0u8, 4 => 1, 5 => 2, _ => 3 };
    SysSpec { kind, lossy: r.chance(1, 2), max_crashes: r.range(p.max_crashes.0, p.max_crashes.1),
        hist: HistCfg { in_mode: hm(r), out_mode: hm(r) }, init_envs, last, tables }
}

// ---------------------------------------------------------------------------------------------------------
// canonical printing

pub fn env_sx<M: Code>(src: Id, dst: Id, msg: &M) -> String {
    format!("({} {} {})", usize::from(src), usize::from(dst), msg.code())
}
pub fn net_sx<M: Code>(n: &Network<M>) -> String {
    match n {
        Network::UnorderedDuplicating(set, last) => {
            let mut v: Vec<(usize, usize, u64)> = set.iter().map(|e| (usize::from(e.src), usize::from(e.dst), e.msg.code())).collect();
            v.sort();
            let l = match last { None => "none".to_string(), Some(e) => format!("(some {})", env_sx(e.src, e.dst, &e.msg)) };
            format!("(d ({}) {})", v.iter().map(|(s, d, m)| format!("({} {} {})", s, d, m)).collect::<Vec<_>>().join(" "), l)
        }
        Network::UnorderedNonDuplicating(ms) => {
            let mut v: Vec<(usize, usize, u64, usize)> = ms.iter().map(|(e, c)| (usize::from(e.src), usize::from(e.dst), e.msg.code(), *c)).collect();
            v.sort();
            format!("(n ({}))", v.iter().map(|(s, d, m, c)| format!("({} {} {} {})", s, d, m, c)).collect::<Vec<_>>().join(" "))
        }
        Network::Ordered(map) => {
            let v: Vec<String> = map.iter().map(|((s, d), q)| {
                let mut t = format!("({} {}", usize::from(*s), usize::from(*d));
                for m in q { t.push_str(&format!(" {}", m.code())); }
                t.push(')');
                t
            }).collect();
            format!("(o ({}))", v.join(" "))
        }
    }
}
/// canonical text of a system state; `ust` prints one actor state (`3`, `(L 3)`, `(S 3)`, ...)
pub fn state_sx<A, F>(st: &ActorModelState<A, Hist>, ust: &F) -> String
where
    A: Actor,
    A::Msg: Code,
    A::Timer: Code,
    A::Random: Code,
    F: Fn(&A::State) -> String,
{
    let actors: Vec<String> = st.actor_states.iter().map(|s| ust(s)).collect();
    let timers: Vec<String> = st.timers_set.iter().map(|ts| {
        let mut v: Vec<u64> = ts.iter().map(|t| t.code()).collect();
        v.sort();
        crate::sx::nums(v)
    }).collect();
    let random: Vec<String> = st.random_choices.iter().map(|rc| {
        let mut v: Vec<(u64, Vec<u64>)> = rc.map.iter().map(|(k, cs)| (key_index(k), cs.iter().map(|c| c.code()).collect())).collect();
        v.sort();
        format!("({})", v.iter().map(|(k, cs)| {
            let mut t = format!("({}", k);
            for c in cs { t.push_str(&format!(" {}", c)); }
            t.push(')');
            t
        }).collect::<Vec<_>>().join(" "))
    }).collect();
    let crashed: Vec<&str> = st.crashed.iter().map(|c| if *c { "1" } else { "0" }).collect();
    format!("(({}) {} ({}) ({}) ({}) {})", actors.join(" "), net_sx(&st.network), timers.join(" "), random.join(" "),
        crashed.join(" "), crate::sx::nums(st.history.iter()))
}
pub fn action_key<M: Code, T: Code, R: Code>(a: &ActorModelAction<M, T, R>) -> Vec<u64> {
    match a {
        ActorModelAction::Deliver { src, dst, msg } => vec![0, usize::from(*src) as u64, usize::from(*dst) as u64, msg.code()],
        ActorModelAction::Drop(e) => vec![1, usize::from(e.src) as u64, usize::from(e.dst) as u64, e.msg.code()],
        ActorModelAction::Timeout(id, t) => vec![2, usize::from(*id) as u64, t.code()],
        ActorModelAction::Crash(id) => vec![3, usize::from(*id) as u64],
        ActorModelAction::SelectRandom { actor, key, random } => vec![4, usize::from(*actor) as u64, key_index(key), random.code()],
    }
}
pub fn action_sx<M: Code, T: Code, R: Code>(a: &ActorModelAction<M, T, R>) -> String {
    let k = action_key(a);
    let tag = ["d", "x", "t", "c", "r"][k[0] as usize];
    format!("({} {})", tag, k[1..].iter().map(|x| x.to_string()).collect::<Vec<_>>().join(" "))
}
/// build an action from its wire fields (for replaying / wild actions)
pub fn mk_action<M: Code, T: Code, R: Code>(k: &[u64]) -> ActorModelAction<M, T, R> {
    match k[0] {
        0 => ActorModelAction::Deliver { src: Id::from(k[1] as usize), dst: Id::from(k[2] as usize), msg: M::from_code(k[3]) },
        1 => ActorModelAction::Drop(Envelope { src: Id::from(k[1] as usize), dst: Id::from(k[2] as usize), msg: M::from_code(k[3]) }),
        2 => ActorModelAction::Timeout(Id::from(k[1] as usize), T::from_code(k[2])),
        3 => ActorModelAction::Crash(Id::from(k[1] as usize)),
        _ => ActorModelAction::SelectRandom { actor: Id::from(k[1] as usize), key: key_name(k[2] as u8), random: R::from_code(k[3]) },
    }
}

// ---------------------------------------------------------------------------------------------------------
// bounded walk through the public `Model` trait

#[derive(Clone, Debug, PartialEq, Eq)]
pub enum Res { Ignored, Panic, To(usize) }
impl Res {
    pub fn sx(&self) -> String {
        match self { Res::Ignored => "-".into(), Res::Panic => "!".into(), Res::To(i) => i.to_string() }
    }
}
pub struct Trans { pub action_key: Vec<u64>, pub action: String, pub res: Res, pub log: Vec<Invocation> }
pub struct Graph<S> {
    /// discovered states in discovery order (canonical text and the real state)
    pub states: Vec<String>,
    pub raw: Vec<S>,
    /// `records[i]` = the sorted enabled actions of state `i` with their results; `records.len()` states were expanded
    pub records: Vec<Vec<Trans>>,
    /// handler invocations during `init_states`
    pub init_log: Vec<Invocation>,
}
impl<S> Graph<S> {
    pub fn closed(&self) -> bool { self.records.len() == self.states.len() }
    pub fn transitions(&self) -> usize { self.records.iter().map(|r| r.len()).sum() }
    /// `(<state> ...) ((<action> <res>) ...) ...)` exactly as the driver's `graph` command prints it
    pub fn to_sx(&self) -> String {
        let recs: Vec<String> = self.records.iter().map(|r| {
            format!("({})", r.iter().map(|t| format!("({} {})", t.action, t.res.sx())).collect::<Vec<_>>().join(" "))
        }).collect();
        format!("({}) ({})", self.states.join(" "), recs.join(" "))
    }
    /// the same with the invocation log of every transition: `(<action> <res> (<invocation> ...))`
    pub fn to_sx_with_log(&self) -> String {
        let recs: Vec<String> = self.records.iter().map(|r| {
            format!("({})", r.iter().map(|t| format!("({} {} ({}))", t.action, t.res.sx(),
                t.log.iter().map(|i| i.to_sx()).collect::<Vec<_>>().join(" "))).collect::<Vec<_>>().join(" "))
        }).collect();
        format!("({}) ({})", self.states.join(" "), recs.join(" "))
    }
}

/// Breadth-first walk: states are expanded in discovery order until `bound` states were expanded or none is
/// left; for every expanded state the enabled actions are sorted by `action_key` and `next_state` is called for
/// each (panics caught). New successor states are appended to the discovery list. State identity is the
/// canonical text (structural), NOT the crate's `Hash`/`Eq`.
pub fn explore<A, F>(model: &ActorModel<A, HistCfg, Hist>, bound: usize, ust: &F, log: Option<&Log>) -> Graph<ActorModelState<A, Hist>>
where
    A: Actor,
    A::Msg: Code,
    A::Timer: Code,
    A::Random: Code,
    F: Fn(&A::State) -> String,
{
    if let Some(l) = log { take_log(l); }
    let inits = model.init_states();
    let init_log = log.map(take_log).unwrap_or_default();
    let mut g = Graph { states: vec![], raw: vec![], records: vec![], init_log };
    let mut index: HashMap<String, usize> = HashMap::new();
    for s in inits {
        let t = state_sx(&s, ust);
        if !index.contains_key(&t) {
            index.insert(t.clone(), g.states.len());
            g.states.push(t);
            g.raw.push(s);
        }
    }
    while g.records.len() < bound && g.records.len() < g.states.len() {
        let i = g.records.len();
        let st = g.raw[i].clone();
        let mut acts = Vec::new();
        model.actions(&st, &mut acts);
        let mut keyed: Vec<(Vec<u64>, ActorModelAction<A::Msg, A::Timer, A::Random>)> = acts.into_iter().map(|a| (action_key(&a), a)).collect();
        keyed.sort_by(|a, b| a.0.cmp(&b.0));
        let mut rec = Vec::new();
        for (k, a) in keyed {
            let sx = action_sx(&a);
            if let Some(l) = log { take_log(l); }
            let r = catch_unwind(AssertUnwindSafe(|| model.next_state(&st, a)));
            let lg = log.map(take_log).unwrap_or_default();
            let res = match r {
                Err(_) => Res::Panic,
                Ok(None) => Res::Ignored,
                Ok(Some(s2)) => {
                    let t = state_sx(&s2, ust);
                    match index.get(&t) {
                        Some(j) => Res::To(*j),
                        None => {
                            let j = g.states.len();
                            index.insert(t.clone(), j);
                            g.states.push(t);
                            g.raw.push(s2);
                            Res::To(j)
                        }
                    }
                }
            };
            rec.push(Trans { action_key: k, action: sx, res, log: lg });
        }
        g.records.push(rec);
    }
    g
}

/// printer of a plain `TState`
pub fn tstate_sx(s: &TState) -> String { s.0.to_string() }
