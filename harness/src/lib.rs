//! Shared machinery of the correspondence harness: PRNG, S-expression printing, case emitter.
pub mod gm;
pub mod out;
pub mod rec;
pub mod rng;
pub mod sem_util;
pub mod sx;
pub mod market_h;
pub mod graph_big;
pub mod hash_util;
pub mod table_actor;
pub mod graph_small;
