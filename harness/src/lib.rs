//! Shared machinery of the correspondence harness: PRNG, S-expression printing, case emitter.
pub mod out;
pub mod rec;
pub mod rng;
pub mod sx;
