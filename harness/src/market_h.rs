//! C05 (i): controlled-schedule harness for the job market (`stateright::verif::Market`).
//!
//! K logical workers, each an OS thread that executes ONE market operation when the orchestrator tells
//! it to. Parking and waking are observed through the Park/Wake callbacks fired inside `pop` (under the
//! market lock), never by sleeping: after telling a worker to pop, the orchestrator waits until the
//! worker either reports a result or its Park event arrives. Everything (op, result, who parked, who
//! woke, batch contents as token lists) goes into a trace that the Lean driver validates against the
//! market machine and, separately, against the observation-level oracle.
//!
//! The `Mirror` below is bookkeeping of the ORCHESTRATOR only: it tells how many wake-ups to wait for
//! after an operation (a notified thread needs time to run) and which operations are currently possible.
//! If it were wrong the orchestrator would wait for a wake-up that never comes (reported as a hang) or
//! move on too early (the late Wake event then lands in the wrong place of the trace and the driver
//! rejects it) — it cannot make a wrong trace look right.
use crate::rng::Rng;
use crate::sx;
use stateright::verif::{set_market_callback, Market, MarketEvent};
use std::cell::RefCell;
use std::collections::VecDeque;
use std::sync::mpsc::{channel, Receiver, Sender};
use std::sync::Arc;
use std::time::Duration;

pub type Tok = u32;

#[derive(Clone, Debug, PartialEq)]
pub enum Op {
    XPush(Vec<Tok>),
    Pop(usize),
    Push(usize, usize),
    Split(usize),
    Work(usize, usize, Vec<Tok>),
    Drop(usize),
    XDrop,
    Clone,
    Closed,
}

enum Cmd {
    /// start of a sequence: a fresh handle, an empty deque
    Reset(Market<Tok>),
    /// end of a sequence: drop the handle (if still held) and report `Exit`
    Release,
    Pop,
    Push(usize),
    Split,
    Work(usize, Vec<Tok>),
    Drop,
    Quit,
}
enum Msg {
    Park(usize),
    Wake(usize),
    Ret(usize, Vec<Tok>),
    Done(usize),
    Exit(usize),
}

thread_local! {
    static CTX: RefCell<Option<(usize, Sender<Msg>)>> = const { RefCell::new(None) };
}

/// install the process-wide Park/Wake callback: events of threads that are logical workers of some
/// session are forwarded to that session's channel; other threads are ignored
pub fn install_callback() {
    set_market_callback(Some(Arc::new(|ev| {
        CTX.with(|c| {
            if let Some((id, tx)) = &*c.borrow() {
                let _ = tx.send(match ev {
                    MarketEvent::Park => Msg::Park(*id),
                    MarketEvent::Wake => Msg::Wake(*id),
                });
            }
        })
    })));
}

fn worker(id: usize, rx: Receiver<Cmd>, tx: Sender<Msg>) {
    CTX.with(|c| *c.borrow_mut() = Some((id, tx.clone())));
    let mut market: Option<Market<Tok>> = None;
    let mut local: VecDeque<Tok> = VecDeque::new();
    for cmd in rx {
        match cmd {
            Cmd::Reset(m) => {
                market = Some(m);
                local.clear();
            }
            Cmd::Release => {
                market.take();
                local.clear();
                let _ = tx.send(Msg::Exit(id));
            }
            Cmd::Pop => {
                let b = market.as_mut().unwrap().pop();
                let v: Vec<Tok> = b.iter().copied().collect();
                local.extend(b);
                let _ = tx.send(Msg::Ret(id, v));
            }
            Cmd::Push(n) => {
                let n = n.min(local.len());
                let batch: VecDeque<Tok> = local.drain(..n).collect();
                market.as_mut().unwrap().push(batch);
                let _ = tx.send(Msg::Done(id));
            }
            Cmd::Split => {
                market.as_mut().unwrap().split_and_push(&mut local);
                let _ = tx.send(Msg::Ret(id, local.iter().copied().collect()));
            }
            Cmd::Work(c, fresh) => {
                for _ in 0..c {
                    local.pop_back();
                }
                for t in fresh.into_iter().rev() {
                    local.push_front(t);
                }
                let _ = tx.send(Msg::Done(id));
            }
            Cmd::Drop => {
                market.take();
                let _ = tx.send(Msg::Done(id));
            }
            Cmd::Quit => break,
        }
    }
}

/// a reusable set of worker threads (thread creation dominates the cost of a short sequence otherwise)
pub struct Slot {
    cmd_tx: Vec<Sender<Cmd>>,
    rx: Receiver<Msg>,
}
pub const MAX_K: usize = 4;
impl Slot {
    pub fn new() -> Slot {
        let (tx, rx) = channel();
        let mut cmd_tx = vec![];
        for id in 0..MAX_K {
            let (ctx, crx) = channel();
            let tx = tx.clone();
            std::thread::spawn(move || worker(id, crx, tx));
            cmd_tx.push(ctx);
        }
        Slot { cmd_tx, rx }
    }
}
impl Drop for Slot {
    fn drop(&mut self) {
        for tx in &self.cmd_tx {
            let _ = tx.send(Cmd::Quit);
        }
    }
}

#[derive(Clone, Copy, PartialEq, Debug)]
pub enum Pc {
    Running,
    Parked,
    Exited,
}

/// orchestrator bookkeeping (see module comment)
#[derive(Clone, Debug)]
pub struct Mirror {
    pub open: bool,
    pub tc: usize,
    pub oc: usize,
    pub batches: Vec<usize>,
    pub pc: Vec<Pc>,
    pub notified: Vec<bool>,
    pub pending_one: usize,
    pub loc_len: Vec<usize>,
}
#[derive(PartialEq, Debug, Clone, Copy)]
enum Outcome {
    Ret,
    Park,
}
impl Mirror {
    pub fn new(k: usize, tc: usize) -> Self {
        Mirror { open: true, tc, oc: tc, batches: vec![], pc: vec![Pc::Running; k], notified: vec![false; k], pending_one: 0, loc_len: vec![0; k] }
    }
    fn waiting_unnotified(&self) -> usize {
        (0..self.pc.len()).filter(|&i| self.pc[i] == Pc::Parked && !self.notified[i]).count()
    }
    fn notify_one(&mut self) {
        if self.waiting_unnotified() > self.pending_one {
            self.pending_one += 1;
        }
    }
    fn notify_all(&mut self) {
        for i in 0..self.pc.len() {
            if self.pc[i] == Pc::Parked {
                self.notified[i] = true;
            }
        }
        self.pending_one = 0;
    }
    pub fn expect_more(&self) -> bool {
        self.pending_one > 0 || (0..self.pc.len()).any(|i| self.pc[i] == Pc::Parked && self.notified[i])
    }
    /// `got`: the length of the batch the real market handed out (None while simulating ahead).  WHICH of the
    /// offered batches is served is not part of any property (a LIFO stack today): the bookkeeping removes the batch
    /// that was really served when one of that length is on offer, the newest one otherwise (the oracle judges the
    /// content), so that it stays in step with the code under any service order.
    fn pop_loop(&mut self, v: usize, got: Option<usize>) -> Outcome {
        let pos = match got {
            Some(n) => self.batches.iter().rposition(|&l| l == n).or(self.batches.len().checked_sub(1)),
            None => self.batches.len().checked_sub(1),
        };
        if let Some(i) = pos {
            let len = self.batches.remove(i);
            self.pc[v] = Pc::Running;
            self.loc_len[v] += got.unwrap_or(len);
            Outcome::Ret
        } else {
            self.oc = self.oc.saturating_sub(1);
            if self.oc == 0 {
                self.pc[v] = Pc::Running;
                self.notify_all();
                self.open = false;
                Outcome::Ret
            } else {
                self.pc[v] = Pc::Parked;
                self.notified[v] = false;
                Outcome::Park
            }
        }
    }
    fn pop(&mut self, v: usize, got: Option<usize>) -> Outcome {
        if !self.open {
            Outcome::Ret
        } else {
            self.pop_loop(v, got)
        }
    }
    /// returns false if the wake was not announced by any notification
    fn wake(&mut self, v: usize, got: Option<usize>) -> (bool, Outcome) {
        let announced = if self.notified[v] {
            self.notified[v] = false;
            true
        } else if self.pending_one > 0 {
            self.pending_one -= 1;
            true
        } else {
            false
        };
        self.oc += 1;
        (announced, self.pop_loop(v, got))
    }
    fn push_len(&mut self, len: usize) {
        if self.open {
            self.batches.push(len);
            self.notify_one();
        }
    }
    fn push(&mut self, v: usize, n: usize) {
        let n = n.min(self.loc_len[v]);
        self.loc_len[v] -= n;
        self.push_len(n);
    }
    fn split(&mut self, v: usize) {
        if !self.open {
            self.loc_len[v] = 0;
            return;
        }
        let len = self.loc_len[v];
        let pieces = 1 + std::cmp::min(self.tc.saturating_sub(self.oc), len);
        let size = len / pieces;
        let mut cur = len;
        for _ in 1..pieces {
            if size == 0 {
                continue;
            }
            cur -= size;
            self.batches.push(size);
            self.notify_one();
        }
        self.loc_len[v] = cur;
    }
    fn drop_market(&mut self) {
        self.open = false;
        self.batches.clear();
        self.oc = self.oc.saturating_sub(1);
        self.notify_all();
    }
    pub fn running(&self) -> Vec<usize> {
        (0..self.pc.len()).filter(|&i| self.pc[i] == Pc::Running).collect()
    }
}

#[derive(Clone, Copy, PartialEq)]
enum Kind {
    Pop,
    Wake,
    Push(usize),
    Split,
    Work(usize, usize),
    Drop,
    Orch,
}
struct Item {
    ev: String,
    worker: usize,
    kind: Kind,
    result: Option<String>,
    ret_len: usize,
}

pub struct Session {
    pub k: usize,
    pub tc: usize,
    probe: Option<Market<Tok>>,
    extras: Vec<Market<Tok>>,
    slot: Slot,
    pub mirror: Mirror,
    pub events: Vec<String>,
    pub results: Vec<String>,
    pub next_tok: Tok,
    last_shut: bool,
    pub parks: u64,
    pub wakes: u64,
    pub reparks: u64,
    pub max_parked: usize,
    pub gots: u64,
}

pub const WATCHDOG: Duration = Duration::from_secs(8);

impl Session {
    pub fn new(slot: Slot, k: usize, tc: usize, close_at: Option<std::time::SystemTime>) -> Session {
        let probe: Market<Tok> = Market::new(tc, close_at);
        for id in 0..k {
            let _ = slot.cmd_tx[id].send(Cmd::Reset(probe.clone()));
        }
        // the handle the checker object keeps
        let owner = probe.clone();
        Session {
            k, tc, probe: Some(probe), extras: vec![owner], slot, mirror: Mirror::new(k, tc),
            events: vec![], results: vec![], next_tok: 1, last_shut: false, parks: 0, wakes: 0, reparks: 0,
            max_parked: 0, gots: 0,
        }
    }
    pub fn fresh(&mut self, n: usize) -> Vec<Tok> {
        let v: Vec<Tok> = (0..n as Tok).map(|i| self.next_tok + i).collect();
        self.next_tok += n as Tok;
        v
    }
    pub fn n_extras(&self) -> usize {
        self.extras.len()
    }

    fn apply(&mut self, it: &Item) -> Result<(), String> {
        let parked = it.result.as_deref() == Some("park");
        let m = &mut self.mirror;
        let v = it.worker;
        match it.kind {
            Kind::Pop => {
                let o = m.pop(v, if parked { None } else { Some(it.ret_len) });
                if (o == Outcome::Park) != parked {
                    return Err(format!("orchestrator bookkeeping expected {:?} for {} but observed {:?}", o, it.ev, it.result));
                }
                if parked { self.parks += 1 } else if it.ret_len > 0 { self.gots += 1 }
            }
            Kind::Wake => {
                let (announced, o) = m.wake(v, if parked { None } else { Some(it.ret_len) });
                self.wakes += 1;
                if !announced {
                    return Err(format!("wake of worker {} that nobody notified", v));
                }
                if (o == Outcome::Park) != parked {
                    return Err(format!("orchestrator bookkeeping expected {:?} for {} but observed {:?}", o, it.ev, it.result));
                }
                if parked { self.reparks += 1 } else if it.ret_len > 0 { self.gots += 1 }
            }
            Kind::Push(n) => m.push(v, n),
            Kind::Split => {
                m.split(v);
                if m.loc_len[v] != it.ret_len {
                    return Err(format!("orchestrator bookkeeping expected {} jobs kept by {} but observed {:?}", m.loc_len[v], it.ev, it.result));
                }
            }
            Kind::Work(c, f) => {
                m.loc_len[v] = m.loc_len[v] - c.min(m.loc_len[v]) + f;
            }
            Kind::Drop => {
                m.drop_market();
                m.pc[v] = Pc::Exited;
            }
            Kind::Orch => {}
        }
        let np = (0..self.k).filter(|&i| self.mirror.pc[i] == Pc::Parked).count();
        self.max_parked = self.max_parked.max(np);
        Ok(())
    }

    /// wait until the operation and every wake-up it caused have run to their end
    fn settle(&mut self, mut items: Vec<Item>) -> Result<(), String> {
        let mut applied = 0;
        loop {
            while applied < items.len() && items[applied].result.is_some() {
                let it = &items[applied];
                let r = self.apply(it);
                applied += 1;
                if let Err(e) = r {
                    self.flush(items);
                    return Err(e);
                }
            }
            if applied == items.len() && !self.mirror.expect_more() {
                break;
            }
            let msg = match self.slot.rx.recv_timeout(WATCHDOG) {
                Ok(m) => m,
                Err(_) => {
                    let what = if applied < items.len() {
                        format!("no answer and no Park event from worker {} for {}", items[applied].worker, items[applied].ev)
                    } else {
                        "a notified worker never woke up".to_string()
                    };
                    self.flush(items);
                    return Err(format!("hang: {}", what));
                }
            };
            let set = |items: &mut Vec<Item>, v: usize, r: String, len: usize| {
                if let Some(it) = items.iter_mut().find(|it| it.worker == v && it.result.is_none()) {
                    it.result = Some(r);
                    it.ret_len = len;
                }
            };
            match msg {
                Msg::Park(v) => set(&mut items, v, "park".into(), 0),
                Msg::Wake(v) => items.push(Item { ev: format!("(wake {})", v), worker: v, kind: Kind::Wake, result: None, ret_len: 0 }),
                Msg::Ret(v, data) => set(&mut items, v, sx::nums(&data), data.len()),
                Msg::Done(v) => set(&mut items, v, "-".into(), 0),
                Msg::Exit(_) => {}
            }
        }
        self.flush(items);
        Ok(())
    }
    fn flush(&mut self, items: Vec<Item>) {
        for it in items {
            self.events.push(it.ev);
            self.results.push(it.result.unwrap_or_else(|| "?".into()));
        }
    }
    fn orch_item(ev: String, result: String) -> Item {
        Item { ev, worker: usize::MAX, kind: Kind::Orch, result: Some(result), ret_len: 0 }
    }

    pub fn run_op(&mut self, op: &Op, log_shut: bool) -> Result<(), String> {
        let item = match op {
            Op::XPush(toks) => {
                self.probe.as_mut().unwrap().push(toks.iter().copied().collect());
                self.mirror.push_len(toks.len());
                Self::orch_item(format!("(xpush{})", toks.iter().map(|t| format!(" {}", t)).collect::<String>()), "-".into())
            }
            Op::XDrop => {
                let h = self.extras.pop().expect("xdrop without extra handle");
                drop(h);
                self.mirror.drop_market();
                Self::orch_item("(xdrop)".into(), "-".into())
            }
            Op::Clone => {
                let h = self.probe.as_ref().unwrap().clone();
                self.extras.push(h);
                Self::orch_item("(clone)".into(), "-".into())
            }
            Op::Closed => {
                let b = self.probe.as_ref().unwrap().is_closed();
                Self::orch_item("(closed)".into(), sx::b(b))
            }
            Op::Pop(w) => {
                let _ = self.slot.cmd_tx[*w].send(Cmd::Pop);
                Item { ev: format!("(pop {})", w), worker: *w, kind: Kind::Pop, result: None, ret_len: 0 }
            }
            Op::Push(w, n) => {
                let _ = self.slot.cmd_tx[*w].send(Cmd::Push(*n));
                Item { ev: format!("(push {} {})", w, n), worker: *w, kind: Kind::Push(*n), result: None, ret_len: 0 }
            }
            Op::Split(w) => {
                let _ = self.slot.cmd_tx[*w].send(Cmd::Split);
                Item { ev: format!("(split {})", w), worker: *w, kind: Kind::Split, result: None, ret_len: 0 }
            }
            Op::Work(w, c, fresh) => {
                let _ = self.slot.cmd_tx[*w].send(Cmd::Work(*c, fresh.clone()));
                Item {
                    ev: format!("(work {} {}{})", w, c, fresh.iter().map(|t| format!(" {}", t)).collect::<String>()),
                    worker: *w, kind: Kind::Work(*c, fresh.len()), result: None, ret_len: 0,
                }
            }
            Op::Drop(w) => {
                let _ = self.slot.cmd_tx[*w].send(Cmd::Drop);
                Item { ev: format!("(drop {})", w), worker: *w, kind: Kind::Drop, result: None, ret_len: 0 }
            }
        };
        self.settle(vec![item])?;
        // `is_shut_down()` through the orchestrator's own handle: logged whenever it changes (+ on demand)
        let b = self.probe.as_ref().unwrap().is_shut_down();
        if b != self.last_shut || log_shut {
            self.last_shut = b;
            self.events.push("(shut)".into());
            self.results.push(sx::b(b));
        }
        Ok(())
    }

    /// used by the timeout scenario: wait (bounded) for wake-ups that nothing in the trace announces yet
    pub fn await_external_stop(&mut self, max: Duration) -> Result<(), String> {
        // the timeout thread fires and then drops its clone: every parked worker is notified
        let first = match self.slot.rx.recv_timeout(max) {
            Ok(m) => m,
            Err(_) => return Err(format!("hang: parked workers not woken within {:?} of the timeout", max)),
        };
        self.events.push("(tfire)".into());
        self.results.push("-".into());
        self.events.push("(xdrop)".into());
        self.results.push("-".into());
        self.mirror.open = false;
        self.mirror.drop_market();
        let mut items = vec![];
        match first {
            Msg::Wake(v) => items.push(Item { ev: format!("(wake {})", v), worker: v, kind: Kind::Wake, result: None, ret_len: 0 }),
            _ => return Err("unexpected message while waiting for the timeout".into()),
        }
        self.settle(items)?;
        let b = self.probe.as_ref().unwrap().is_shut_down();
        self.last_shut = b;
        self.events.push("(shut)".into());
        self.results.push(sx::b(b));
        Ok(())
    }

    /// pop every batch the orchestrator knows of (so that the oracle can tell that none was lost)
    pub fn drain(&mut self) -> Result<(), String> {
        while self.mirror.open && !self.mirror.batches.is_empty() {
            let r = self.mirror.running();
            if r.is_empty() {
                break;
            }
            self.run_op(&Op::Pop(r[0]), false)?;
        }
        let b = self.probe.as_ref().unwrap().is_shut_down();
        self.last_shut = b;
        self.events.push("(shut)".into());
        self.results.push(sx::b(b));
        let c = self.probe.as_ref().unwrap().is_closed();
        self.events.push("(closed)".into());
        self.results.push(sx::b(c));
        Ok(())
    }

    /// not part of the trace: drop every handle; a worker that does not come back is a hang.
    /// Returns the worker threads for the next sequence.
    pub fn cleanup(mut self) -> Result<Slot, String> {
        self.extras.clear();
        self.probe.take();
        for id in 0..self.k {
            let _ = self.slot.cmd_tx[id].send(Cmd::Release);
        }
        let mut exited = 0;
        while exited < self.k {
            match self.slot.rx.recv_timeout(WATCHDOG) {
                Ok(Msg::Exit(_)) => exited += 1,
                Ok(_) => {}
                Err(_) => {
                    // the threads are blocked in the condition variable: leak them
                    let n = self.k - exited;
                    std::mem::forget(self);
                    return Err(format!("hang: {} workers never returned after every handle was dropped", n));
                }
            }
        }
        Ok(self.slot)
    }

    pub fn items(&self) -> String {
        let mut t = String::new();
        for (e, r) in self.events.iter().zip(self.results.iter()) {
            t.push_str(e);
            t.push('=');
            t.push_str(r);
            t.push(';');
        }
        t
    }
    pub fn lines(&self) -> (String, String, String) {
        let evs = format!("({})", self.events.join(" "));
        let rs = format!("({})", self.results.join(" "));
        (format!("mk-run {} {} {}", self.k, self.tc, evs), rs.clone(), format!("o-mk {} {} {} {}", self.k, self.tc, evs, rs))
    }
}

/// the operations possible now, with weights; `small` = the fixed alphabet of the exhaustive enumeration
pub fn enabled_ops(s: &mut Session, small: bool) -> Vec<(Op, usize)> {
    let mut ops: Vec<(Op, usize)> = vec![];
    if small {
        let f = s.next_tok;
        ops.push((Op::XPush(vec![f, f + 1]), 1));
        for w in s.mirror.running() {
            ops.push((Op::Pop(w), 1));
            ops.push((Op::Split(w), 1));
            ops.push((Op::Work(w, 1, vec![f, f + 1]), 1));
            ops.push((Op::Drop(w), 1));
        }
        if s.n_extras() > 0 {
            ops.push((Op::XDrop, 1));
        }
        return ops;
    }
    ops.push((Op::XPush(vec![]), 6)); // token lists are filled in by the caller
    for w in s.mirror.running() {
        ops.push((Op::Pop(w), 10));
        ops.push((Op::Split(w), if s.mirror.loc_len[w] > 0 { 10 } else { 2 }));
        ops.push((Op::Work(w, 0, vec![]), 6));
        ops.push((Op::Push(w, 0), if s.mirror.loc_len[w] > 0 { 4 } else { 1 }));
        ops.push((Op::Drop(w), 1));
    }
    if s.n_extras() > 0 {
        ops.push((Op::XDrop, 1));
    }
    ops.push((Op::Clone, 1));
    ops.push((Op::Closed, 2));
    ops
}

pub struct SeqOut {
    pub m_req: String,
    pub m_exp: String,
    pub o_req: String,
    pub err: Option<String>,
    pub k: usize,
    pub tc: usize,
    pub n_ops: usize,
    pub parks: u64,
    pub wakes: u64,
    pub reparks: u64,
    pub gots: u64,
    pub max_parked: usize,
    pub closed_at_end: bool,
    pub op_kinds: Vec<&'static str>,
    /// "event=result;" per trace item (digest of the exhaustive enumeration)
    pub items: String,
}

fn kind_name(op: &Op) -> &'static str {
    match op {
        Op::XPush(_) => "op-xpush",
        Op::Pop(_) => "op-pop",
        Op::Push(..) => "op-push",
        Op::Split(_) => "op-split",
        Op::Work(..) => "op-work",
        Op::Drop(_) => "op-drop",
        Op::XDrop => "op-xdrop",
        Op::Clone => "op-clone",
        Op::Closed => "op-is_closed",
    }
}

fn finish(mut s: Session, err: Option<String>, n_ops: usize, op_kinds: Vec<&'static str>) -> (SeqOut, Slot) {
    let mut err = err;
    if err.is_none() {
        if let Err(e) = s.drain() {
            err = Some(e);
        }
    }
    let (m_req, m_exp, o_req) = s.lines();
    let out = SeqOut {
        m_req, m_exp, o_req, err: None, k: s.k, tc: s.tc, n_ops, parks: s.parks, wakes: s.wakes, reparks: s.reparks,
        gots: s.gots, max_parked: s.max_parked, closed_at_end: !s.mirror.open, op_kinds, items: s.items(),
    };
    let hung = err.as_ref().map(|e| e.starts_with("hang")).unwrap_or(false);
    if hung {
        // threads are stuck: leak the session, take fresh threads
        std::mem::forget(s);
        return (SeqOut { err, ..out }, Slot::new());
    }
    match s.cleanup() {
        Ok(slot) => (SeqOut { err, ..out }, slot),
        Err(e) => (SeqOut { err: err.or(Some(e)), ..out }, Slot::new()),
    }
}

/// one seeded random sequence of at most `max_ops` operations
pub fn random_sequence(slot: Slot, rng: &mut Rng, max_ops: usize) -> (SeqOut, Slot) {
    let k = 1 + rng.below(4);
    let tc = if rng.chance(4, 5) { k } else { 1 + rng.below(k) };
    // a third of the sequences run on a market WITH a timeout that never expires (one hour): the timeout thread exists
    // but must not take part in anything — in particular it must not consume a wake-up meant for a parked worker
    let close_at = if rng.chance(1, 3) { Some(std::time::SystemTime::now() + Duration::from_secs(3600)) } else { None };
    let with_timeout = close_at.is_some();
    let mut s = Session::new(slot, k, tc, close_at);
    let n = 1 + rng.below(max_ops);
    let mut after_close = 0;
    let mut kinds = vec![];
    let mut err = None;
    let mut done = 0;
    for _ in 0..n {
        let mut ops = enabled_ops(&mut s, false);
        if with_timeout {
            // Keep the market OPEN in these sequences: once it is closed the timeout thread notices within its 1 s poll
            // period and drops its own handle (one more notify_all, open_count - 1) at a moment the orchestrator cannot
            // control, so everything observable afterwards would depend on timing. What is under test here is the open
            // market: pushes and splits must reach the parked WORKERS although one more thread holds the condvar.
            let last_running = s.mirror.oc <= 1 && s.mirror.batches.is_empty();
            ops.retain(|(o, _)| match o {
                Op::Drop(_) | Op::XDrop => false,
                Op::Pop(_) => !last_running,
                _ => true,
            });
        }
        let total: usize = ops.iter().map(|o| o.1).sum();
        let mut x = rng.below(total);
        let mut op = ops[0].0.clone();
        for (o, w) in &ops {
            if x < *w {
                op = o.clone();
                break;
            }
            x -= *w;
        }
        // fill in the parameters
        let op = match op {
            Op::XPush(_) => {
                let n = match rng.below(8) { 0 => 0, 1..=2 => 1, 3..=4 => 2, 5 => 3, 6 => 5, _ => 8 };
                Op::XPush(s.fresh(n))
            }
            Op::Work(w, _, _) => {
                let c = rng.below(s.mirror.loc_len[w].min(3) + 1);
                let f = rng.below(4);
                Op::Work(w, c, s.fresh(f))
            }
            Op::Push(w, _) => Op::Push(w, rng.below(s.mirror.loc_len[w] + 2)),
            o => o,
        };
        kinds.push(kind_name(&op));
        done += 1;
        if let Err(e) = s.run_op(&op, rng.chance(1, 6)) {
            err = Some(e);
            break;
        }
        if !s.mirror.open {
            after_close += 1;
            if after_close > 6 {
                break;
            }
        }
    }
    if with_timeout { kinds.push("market-with-unexpired-timeout"); }
    finish(s, err, done, kinds)
}

/// a fixed sequence (exhaustive enumeration)
pub fn fixed_sequence(slot: Slot, k: usize, tc: usize, ops: &[usize]) -> (SeqOut, usize, Slot) {
    // ops are indices into the small alphabet of the state they are applied in; returns the number of
    // operations possible after the last one... (the caller enumerates 0..that)
    let mut s = Session::new(slot, k, tc, None);
    let mut kinds = vec![];
    let mut err = None;
    for &i in ops {
        let avail = enabled_ops(&mut s, true);
        let op = avail[i].0.clone();
        match &op {
            Op::XPush(t) => { s.next_tok += t.len() as Tok; }
            Op::Work(_, _, t) => { s.next_tok += t.len() as Tok; }
            _ => {}
        }
        kinds.push(kind_name(&op));
        if let Err(e) = s.run_op(&op, false) {
            err = Some(e);
            break;
        }
    }
    let next = if err.is_none() { enabled_ops(&mut s, true).len() } else { 0 };
    let (o, slot) = finish(s, err, ops.len(), kinds);
    (o, next, slot)
}

/// timeout scenario: `n_park` of `k` workers wait; the market's own timeout thread (poll period 1 s) must
/// close the market and wake them (F6)
pub fn timeout_sequence(k: usize, n_park: usize, timeout_ms: u64) -> SeqOut {
    let slot = Slot::new();
    let close_at = std::time::SystemTime::now() + Duration::from_millis(timeout_ms);
    let mut s = Session::new(slot, k, k, Some(close_at));
    let mut err = None;
    let mut kinds = vec![];
    for w in 0..n_park {
        kinds.push("op-pop");
        if let Err(e) = s.run_op(&Op::Pop(w), false) {
            err = Some(e);
            break;
        }
    }
    if err.is_none() {
        kinds.push("timeout-fires-on-parked-workers");
        if let Err(e) = s.await_external_stop(Duration::from_millis(timeout_ms + 1000 + 2000)) {
            err = Some(e);
        }
    }
    if err.is_none() {
        for w in 0..k {
            if s.mirror.pc[w] == Pc::Running {
                kinds.push("op-pop");
                if let Err(e) = s.run_op(&Op::Pop(w), true) {
                    err = Some(e);
                    break;
                }
            }
        }
    }
    finish(s, err, kinds.len(), kinds).0
}
