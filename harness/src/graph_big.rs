//! Big table-free models for the real-thread checker runs (C05 ii, C12 timing) and the child-process runner.
//!
//! * `Layered`  — layered DAG, `layers x width` nodes, `deg` pseudo-random edges to the next layer, plus a
//!                self-loop action, an ignored action (`next_state` = None) and pseudo-random out-of-boundary
//!                nodes. 5 000 – 100 000 reachable states, depth <= layers (DFS jobs carry their whole path).
//! * `BinTree`  — binary counter: a state is a bit string of length <= 56, two actions append a bit:
//!                2^57 states, "effectively unbounded", depth <= 57; `spin` slows `next_state` down so that a
//!                one-second run stays small in memory.
//! A model may panic when a chosen state is expanded (`panic_at`).
//!
//! A run is described by a `RunCfg` (JSON), executed in a CHILD PROCESS (`<bin> child '<json>'`) which
//! prints one JSON `RunOut`; the parent kills it after a watchdog. The child computes an independent
//! closure of the model (plain worklist over the transition function, no stateright code) and compares
//! what the checker's visitor saw with it.
use serde::{Deserialize, Serialize};
use stateright::{Checker, CheckerVisitor, Chooser, Expectation, HasDiscoveries, Model, Path, Property};
use std::collections::{BTreeSet, HashMap, HashSet, VecDeque};
use std::sync::atomic::{AtomicU64, Ordering};
use std::sync::{Arc, Mutex};
use std::time::{Duration, Instant};

pub const PROP_NAMES: [&str; 6] = ["q0", "q1", "q2", "q3", "q4", "q5"];

#[derive(Serialize, Deserialize, Clone, Debug, PartialEq)]
pub enum Shape {
    Layered { layers: u64, width: u64, deg: u64, n_init: u64, oob_mod: u64 },
    BinTree { spin: u64 },
    /// two lanes (initial states `0` and `1 << 56`), one action: count up. Lane 0 never ends; model code panics in lane 1
    /// after `fuse` steps. With the `lane` chooser the worker whose first trace has the base seed walks lane 0, every
    /// other worker walks lane 1: ONE worker panics while another is in the middle of a trace that never ends.
    Chain { fuse: u64, spin: u64 },
}

/// when is a state "hit" by a property: never, or pseudo-randomly 1 in `m` from depth `min_layer` on
#[derive(Serialize, Deserialize, Clone, Debug, PartialEq)]
pub struct PropSpec {
    /// 0 always, 1 eventually, 2 sometimes
    pub exp: u8,
    /// 0 = never hit
    pub m: u64,
    pub min_layer: u64,
}

#[derive(Serialize, Deserialize, Clone, Debug, PartialEq)]
pub struct ModelSpec {
    pub shape: Shape,
    pub seed: u64,
    pub props: Vec<PropSpec>,
    /// panic when this state is expanded (`actions` is called on it)
    pub panic_at: Option<u64>,
    /// panic when the thread with this name expands any non-initial state
    #[serde(default)]
    pub panic_thread: Option<String>,
}

pub struct BigModel {
    pub spec: ModelSpec,
}

fn mix(a: u64, b: u64, c: u64) -> u64 {
    let mut z = a ^ b.wrapping_mul(0x9E37_79B9_7F4A_7C15) ^ c.wrapping_mul(0xC2B2_AE3D_27D4_EB4F);
    z = (z ^ (z >> 30)).wrapping_mul(0xBF58_476D_1CE4_E5B9);
    z = (z ^ (z >> 27)).wrapping_mul(0x94D0_49BB_1331_11EB);
    z ^ (z >> 31)
}

impl BigModel {
    pub fn layer_of(&self, s: u64) -> u64 {
        match self.spec.shape {
            Shape::Layered { width, .. } => s / width,
            Shape::BinTree { .. } => s >> 56,
            Shape::Chain { .. } => s & ((1u64 << 56) - 1),
        }
    }
    pub fn hit(&self, i: usize, s: u64) -> bool {
        let p = &self.spec.props[i];
        p.m != 0 && self.layer_of(s) >= p.min_layer && mix(self.spec.seed ^ 0xABCD, s, i as u64) % p.m == 0
    }
    pub fn cond(&self, i: usize, s: u64) -> bool {
        match self.spec.props[i].exp {
            0 => !self.hit(i, s),
            _ => self.hit(i, s),
        }
    }
    pub fn inits(&self) -> Vec<u64> {
        match self.spec.shape {
            Shape::Layered { n_init, .. } => (0..n_init).collect(),
            Shape::BinTree { .. } => vec![0],
            Shape::Chain { .. } => vec![0, 1u64 << 56],
        }
    }
    pub fn n_actions(&self, s: u64) -> u8 {
        match self.spec.shape {
            Shape::Layered { layers, deg, .. } => {
                if self.layer_of(s) + 1 >= layers { 0 } else { deg as u8 + 2 }
            }
            Shape::BinTree { .. } => if (s >> 56) >= 56 { 0 } else { 2 },
            Shape::Chain { .. } => 1,
        }
    }
    pub fn next(&self, s: u64, a: u8) -> Option<u64> {
        match self.spec.shape {
            Shape::Layered { width, deg, .. } => {
                let a = a as u64;
                if a == deg {
                    Some(s) // self-loop
                } else if a == deg + 1 {
                    None // ignored action
                } else {
                    let l = s / width;
                    // edges are biased to a window so that joins are frequent
                    let t = mix(self.spec.seed, s, a) % width;
                    Some((l + 1) * width + t)
                }
            }
            Shape::BinTree { spin } => {
                let mut x = s;
                for i in 0..spin {
                    x = std::hint::black_box(mix(x, i, 1));
                }
                std::hint::black_box(x);
                let len = s >> 56;
                let bits = s & ((1u64 << 56) - 1);
                Some(((len + 1) << 56) | (bits << 1) | a as u64)
            }
            Shape::Chain { spin, .. } => {
                let mut x = s;
                for i in 0..spin {
                    x = std::hint::black_box(mix(x, i, 1));
                }
                std::hint::black_box(x);
                Some(s + 1)
            }
        }
    }
    pub fn in_boundary(&self, s: u64) -> bool {
        match self.spec.shape {
            Shape::Layered { oob_mod, width, .. } => {
                oob_mod == 0 || s < width || mix(self.spec.seed ^ 0x77, s, 3) % oob_mod != 0
            }
            Shape::BinTree { .. } => true,
            Shape::Chain { .. } => true,
        }
    }
}

fn c0(m: &BigModel, s: &u64) -> bool { m.cond(0, *s) }
fn c1(m: &BigModel, s: &u64) -> bool { m.cond(1, *s) }
fn c2(m: &BigModel, s: &u64) -> bool { m.cond(2, *s) }
fn c3(m: &BigModel, s: &u64) -> bool { m.cond(3, *s) }
fn c4(m: &BigModel, s: &u64) -> bool { m.cond(4, *s) }
fn c5(m: &BigModel, s: &u64) -> bool { m.cond(5, *s) }
const CONDS: [fn(&BigModel, &u64) -> bool; 6] = [c0, c1, c2, c3, c4, c5];

impl Model for BigModel {
    type State = u64;
    type Action = u8;
    fn init_states(&self) -> Vec<u64> {
        self.inits()
    }
    fn actions(&self, s: &u64, actions: &mut Vec<u8>) {
        if self.spec.panic_at == Some(*s) {
            panic!("model code panics at the seeded state");
        }
        if let Shape::Chain { fuse, .. } = self.spec.shape {
            if (*s >> 56) == 1 && (*s & ((1u64 << 56) - 1)) >= fuse {
                panic!("model code panics in the short lane");
            }
        }
        if let Some(t) = &self.spec.panic_thread {
            if self.layer_of(*s) >= 1 && std::thread::current().name() == Some(t.as_str()) {
                panic!("model code panics in one worker");
            }
        }
        for a in 0..self.n_actions(*s) {
            actions.push(a);
        }
    }
    fn next_state(&self, s: &u64, a: u8) -> Option<u64> {
        self.next(*s, a)
    }
    fn within_boundary(&self, s: &u64) -> bool {
        self.in_boundary(*s)
    }
    fn properties(&self) -> Vec<Property<Self>> {
        self.spec.props.iter().enumerate().map(|(i, p)| Property {
            expectation: match p.exp { 0 => Expectation::Always, 1 => Expectation::Eventually, _ => Expectation::Sometimes },
            name: PROP_NAMES[i],
            condition: CONDS[i],
        }).collect()
    }
}

/// independent closure: reachable in-boundary states with their BFS distance (init = 0)
pub fn closure(m: &BigModel, cap: usize) -> HashMap<u64, u32> {
    let mut dist: HashMap<u64, u32> = HashMap::new();
    let mut q = VecDeque::new();
    for s in m.inits() {
        if m.in_boundary(s) && !dist.contains_key(&s) {
            dist.insert(s, 0);
            q.push_back(s);
        }
    }
    while let Some(s) = q.pop_front() {
        if dist.len() >= cap {
            break;
        }
        let d = dist[&s];
        for a in 0..m.n_actions(s) {
            if let Some(t) = m.next(s, a) {
                if m.in_boundary(t) && !dist.contains_key(&t) {
                    dist.insert(t, d + 1);
                    q.push_back(t);
                }
            }
        }
    }
    dist
}

#[derive(Serialize, Deserialize, Clone, Debug, PartialEq)]
pub struct FwSpec {
    /// all any anyf allf allof anyof
    pub kind: String,
    pub names: Vec<usize>,
}
impl FwSpec {
    pub fn all() -> FwSpec {
        FwSpec { kind: "all".into(), names: vec![] }
    }
    pub fn real(&self) -> HasDiscoveries {
        let set: BTreeSet<&'static str> = self.names.iter().map(|&i| PROP_NAMES[i]).collect();
        match self.kind.as_str() {
            "all" => HasDiscoveries::All,
            "any" => HasDiscoveries::Any,
            "anyf" => HasDiscoveries::AnyFailures,
            "allf" => HasDiscoveries::AllFailures,
            "allof" => HasDiscoveries::AllOf(set),
            _ => HasDiscoveries::AnyOf(set),
        }
    }
    pub fn sx(&self) -> String {
        match self.kind.as_str() {
            "allof" | "anyof" => format!("({} {})", self.kind, crate::sx::nums(&self.names)),
            k => k.to_string(),
        }
    }
}

#[derive(Serialize, Deserialize, Clone, Debug)]
pub struct RunCfg {
    pub model: ModelSpec,
    /// bfs dfs ondemand sim
    pub strategy: String,
    pub threads: usize,
    pub finish_when: FwSpec,
    pub target_state_count: Option<usize>,
    pub target_max_depth: Option<usize>,
    pub timeout_ms: Option<u64>,
    pub perturb: u64,
    pub sim_seed: u64,
    /// uniform lcg script
    pub chooser: String,
    pub script: Vec<usize>,
    /// install the recording visitor
    pub record: bool,
    /// pick the panic state among the reachable states with this seed (0 = no panic)
    pub panic_seed: u64,
    /// closure cap (unbounded models)
    pub closure_cap: usize,
    /// watchdog of this run in ms (0 = the caller's default)
    #[serde(default)]
    pub watchdog_ms: u64,
    /// pause between configuring the builder (incl. `.timeout(..)`) and `spawn_*` in ms: a timeout limits the EXECUTION
    /// of the check, however long the configured builder was kept around
    #[serde(default)]
    pub spawn_delay_ms: u64,
    /// wait for the workers with `join_and_report` (a reporter with a 1 ms delay) instead of `join`
    #[serde(default)]
    pub report_join: bool,
}
impl RunCfg {
    pub fn new(model: ModelSpec, strategy: &str, threads: usize) -> RunCfg {
        RunCfg {
            model, strategy: strategy.into(), threads, finish_when: FwSpec::all(), target_state_count: None,
            target_max_depth: None, timeout_ms: None, perturb: 0, sim_seed: 0, chooser: "uniform".into(), script: vec![],
            record: true, panic_seed: 0, closure_cap: 2_000_000, watchdog_ms: 0, spawn_delay_ms: 0, report_join: false,
        }
    }
}

#[derive(Serialize, Deserialize, Clone, Debug, Default)]
pub struct RunOut {
    /// "ok" | "panic"
    pub joined: String,
    pub wall_ms: u64,
    pub closure: usize,
    pub visited: usize,
    pub visited_distinct: usize,
    pub dup_visits: usize,
    pub visited_not_reachable: usize,
    pub missing: usize,
    /// reachable states nearer than the depth limit that were not evaluated
    pub missing_within_depth: usize,
    pub unique: usize,
    pub state_count: usize,
    pub max_depth: usize,
    pub max_path_len: usize,
    pub bad_paths: usize,
    pub disc: Vec<usize>,
    /// names that a complete run must discover (always / sometimes with a reachable hit; eventually never hit)
    pub expected_disc: Vec<usize>,
    /// names whose discovery is not determined (eventually with hits)
    pub undetermined: Vec<usize>,
    pub threads_evaluating: usize,
    pub parks: u64,
    pub wakes: u64,
    pub is_done: bool,
    pub panic_state: Option<u64>,
    /// simulation: last states of the first trace of thread checker-0
    pub first_trace: Vec<u64>,
    pub order_digest: u64,
    /// C03 on the run's own discoveries: every path `discoveries()` returns is re-validated against the model (real
    /// in-boundary path from an initial state; last state violates / satisfies; eventually: no state satisfies and the path
    /// ends in a terminal state or — simulation — closes a cycle). One text per discovery that fails.
    #[serde(default)]
    pub bad_disc: Vec<String>,
}

/// the declarative reading of C03 for one returned discovery; `None` = genuine
pub fn discovery_defect(m: &BigModel, prop: usize, states: &[u64], simulation: bool) -> Option<String> {
    if states.is_empty() { return Some("empty path".into()); }
    if !(m.inits().contains(&states[0]) && m.in_boundary(states[0])) { return Some("does not start in an in-boundary initial state".into()); }
    for w in states.windows(2) {
        let step = (0..m.n_actions(w[0])).any(|a| m.next(w[0], a) == Some(w[1]));
        if !step || !m.in_boundary(w[1]) { return Some(format!("{} -> {} is not an in-boundary transition of the model", w[0], w[1])); }
    }
    let last = *states.last().unwrap();
    match m.spec.props[prop].exp {
        0 => if m.cond(prop, last) { return Some("last state does not violate the always-property".into()); },
        2 => if !m.cond(prop, last) { return Some("last state does not satisfy the sometimes-property".into()); },
        _ => {
            if let Some(s) = states.iter().find(|s| m.cond(prop, **s)) { return Some(format!("state {} on the path satisfies the eventually-condition", s)); }
            let terminal = !(0..m.n_actions(last)).any(|a| m.next(last, a).map(|t| m.in_boundary(t)).unwrap_or(false));
            let closes_cycle = simulation && states[..states.len() - 1].contains(&last);
            if !terminal && !closes_cycle {
                return Some(format!("eventually-counterexample of {} states ends in state {} which has an in-boundary successor{}", states.len(), last, if simulation { " and closes no cycle" } else { "" }));
            }
        }
    }
    None
}

struct Recorder {
    by_thread: Mutex<HashMap<String, Vec<(u64, u32)>>>,
    bad_paths: AtomicU64,
}
struct RecVisitor(Arc<Recorder>);
impl CheckerVisitor<BigModel> for RecVisitor {
    fn visit(&self, m: &BigModel, path: Path<u64, u8>) {
        let last = *path.last_state();
        let states = path.into_states();
        // a visited path must be a real in-boundary path from an initial state
        let mut ok = !states.is_empty() && m.inits().contains(&states[0]) && m.in_boundary(states[0]);
        for w in states.windows(2) {
            let mut found = false;
            for a in 0..m.n_actions(w[0]) {
                if m.next(w[0], a) == Some(w[1]) {
                    found = true;
                    break;
                }
            }
            ok = ok && found && m.in_boundary(w[1]);
        }
        if !ok {
            self.0.bad_paths.fetch_add(1, Ordering::Relaxed);
        }
        let name = std::thread::current().name().unwrap_or("?").to_string();
        self.0.by_thread.lock().unwrap().entry(name).or_default().push((last, states.len() as u32));
    }
}

#[derive(Clone)]
pub struct LcgChooser;
impl Chooser<BigModel> for LcgChooser {
    type State = u64;
    fn new_state(&self, seed: u64) -> u64 {
        seed
    }
    fn choose_initial_state(&self, st: &mut u64, init: &[u64]) -> usize {
        lcg_next(st) % init.len()
    }
    fn choose_action(&self, st: &mut u64, _: &u64, actions: &[u8]) -> usize {
        lcg_next(st) % actions.len()
    }
}
pub fn lcg_next(st: &mut u64) -> usize {
    *st = st.wrapping_mul(6364136223846793005).wrapping_add(1442695040888963407);
    (*st >> 33) as usize
}
/// the worker whose trace has seed `base` (worker 0's first trace) takes initial state 0, everybody else initial state 1
#[derive(Clone)]
pub struct LaneChooser(pub u64);
impl Chooser<BigModel> for LaneChooser {
    type State = u64;
    fn new_state(&self, seed: u64) -> u64 {
        seed
    }
    fn choose_initial_state(&self, st: &mut u64, init: &[u64]) -> usize {
        if *st == self.0 { 0 } else { 1 % init.len() }
    }
    fn choose_action(&self, _: &mut u64, _: &u64, _: &[u8]) -> usize {
        0
    }
}
#[derive(Clone)]
pub struct ScriptChooser(pub Vec<usize>);
impl Chooser<BigModel> for ScriptChooser {
    /// position in the script (the seed only rotates the script)
    type State = usize;
    fn new_state(&self, seed: u64) -> usize {
        (seed % 1000) as usize
    }
    fn choose_initial_state(&self, st: &mut usize, init: &[u64]) -> usize {
        *st += 1;
        self.0[(*st - 1) % self.0.len()] % init.len()
    }
    fn choose_action(&self, st: &mut usize, _: &u64, actions: &[u8]) -> usize {
        *st += 1;
        self.0[(*st - 1) % self.0.len()] % actions.len()
    }
}

/// the first simulation trace as a function of (model, seed, chooser answers): an independent walk that
/// follows check_trace_from_initial (swap_remove of the chosen action, retry on ignored / out-of-boundary,
/// stop at a repeated state, at a terminal state, at the depth limit or when every property is discovered
/// — the latter cannot happen in the runs that use this)
pub fn expected_first_trace(m: &BigModel, mut choose: impl FnMut(usize) -> usize, max_depth: Option<usize>) -> Vec<u64> {
    let mut inits = m.inits();
    let i = choose(inits.len());
    let mut s = inits.swap_remove(i);
    let mut trace = vec![];
    let mut seen = HashSet::new();
    loop {
        if let Some(d) = max_depth {
            if trace.len() >= d {
                return trace;
            }
        }
        if !m.in_boundary(s) {
            return trace;
        }
        if !seen.insert(s) {
            return trace;
        }
        trace.push(s);
        let mut acts: Vec<u8> = (0..m.n_actions(s)).collect();
        loop {
            if acts.is_empty() {
                return trace;
            }
            let j = choose(acts.len());
            let a = acts.swap_remove(j);
            match m.next(s, a) {
                Some(t) if m.in_boundary(t) => {
                    s = t;
                    break;
                }
                _ => {}
            }
        }
    }
}

static PARKS: AtomicU64 = AtomicU64::new(0);
static WAKES: AtomicU64 = AtomicU64::new(0);

/// executed in the child process
pub fn run_child(cfg: &RunCfg) -> RunOut {
    std::panic::set_hook(Box::new(|_| {}));
    let mut spec = cfg.model.clone();
    let probe_model = BigModel { spec: spec.clone() };
    let dist = closure(&probe_model, cfg.closure_cap);
    let mut out = RunOut { closure: dist.len(), ..Default::default() };
    if cfg.panic_seed != 0 {
        // a reachable, non-initial, non-terminal state
        let mut cands: Vec<u64> = dist.iter().filter(|(s, d)| **d >= 2 && probe_model.n_actions(**s) > 0).map(|(s, _)| *s).collect();
        cands.sort();
        let s = cands[(mix(cfg.panic_seed, 1, 2) % cands.len() as u64) as usize];
        spec.panic_at = Some(s);
        out.panic_state = Some(s);
    }
    // expectations of a complete run
    for (i, p) in spec.props.iter().enumerate() {
        let any_hit = p.m != 0 && dist.keys().any(|&s| probe_model.hit(i, s));
        match p.exp {
            1 => {
                if p.m == 0 {
                    // never satisfied: every terminal state is a counterexample
                    if dist.keys().any(|&s| {
                        (0..probe_model.n_actions(s)).all(|a| match probe_model.next(s, a) {
                            Some(t) => !probe_model.in_boundary(t),
                            None => true,
                        })
                    }) {
                        out.expected_disc.push(i);
                    }
                } else {
                    out.undetermined.push(i);
                }
            }
            _ => {
                if any_hit {
                    out.expected_disc.push(i);
                }
            }
        }
    }
    stateright::verif::set_market_callback(Some(Arc::new(|ev| match ev {
        stateright::verif::MarketEvent::Park => {
            PARKS.fetch_add(1, Ordering::Relaxed);
        }
        stateright::verif::MarketEvent::Wake => {
            WAKES.fetch_add(1, Ordering::Relaxed);
        }
    })));
    stateright::verif::set_perturbation(cfg.perturb);
    let rec = Arc::new(Recorder { by_thread: Mutex::new(HashMap::new()), bad_paths: AtomicU64::new(0) });
    let model = BigModel { spec: spec.clone() };
    let mut b = model.checker().threads(cfg.threads).finish_when(cfg.finish_when.real());
    if cfg.record {
        b = b.visitor(RecVisitor(rec.clone()));
    }
    if let Some(t) = cfg.target_state_count {
        b = b.target_state_count(t);
    }
    if let Some(d) = cfg.target_max_depth {
        b = b.target_max_depth(d);
    }
    if let Some(ms) = cfg.timeout_ms {
        b = b.timeout(Duration::from_millis(ms));
    }
    if cfg.spawn_delay_ms > 0 {
        std::thread::sleep(Duration::from_millis(cfg.spawn_delay_ms));
    }
    let t0 = Instant::now();
    // (joined, unique, state_count, max_depth, discoveries, is_done)
    type Fin = (usize, usize, usize, Vec<usize>, bool, Vec<String>);
    let is_sim = !matches!(cfg.strategy.as_str(), "bfs" | "dfs" | "ondemand");
    let fin_sim = is_sim;
    fn fin_of<C: Checker<BigModel>>(c: &C, sim: bool) -> Fin {
        let mut d: Vec<usize> = vec![];
        let mut bad = vec![];
        for (n, p) in c.discoveries() {
            let i = PROP_NAMES.iter().position(|x| *x == n).unwrap();
            d.push(i);
            let states = p.into_states();
            if let Some(why) = discovery_defect(c.model(), i, &states, sim) {
                bad.push(format!("discovery for property {} ({}): {}", i, ["always", "eventually", "sometimes"][c.model().spec.props[i].exp.min(2) as usize], why));
            }
        }
        d.sort();
        (c.unique_state_count(), c.state_count(), c.max_depth(), d, c.is_done(), bad)
    }

    struct QuietReporter;
    impl<M: Model> stateright::report::Reporter<M> for QuietReporter {
        fn report_checking(&mut self, _: stateright::report::ReportData) {}
        fn report_discoveries(&mut self, _: std::collections::BTreeMap<&'static str, stateright::report::ReportDiscovery<M>>)
        where M::Action: std::fmt::Debug, M::State: std::fmt::Debug + std::hash::Hash {}
        fn delay(&self) -> Duration { Duration::from_millis(1) }
    }
    let rj = cfg.report_join;
    let strategy = cfg.strategy.clone();
    let (seed, chooser, script) = (cfg.sim_seed, cfg.chooser.clone(), cfg.script.clone());
    let r: Result<Fin, ()> = std::panic::catch_unwind(std::panic::AssertUnwindSafe(move || match strategy.as_str() {
        "bfs" => if rj { fin_of(&b.spawn_bfs().join_and_report(&mut QuietReporter), fin_sim) } else { fin_of(&b.spawn_bfs().join(), fin_sim) },
        "dfs" => if rj { fin_of(&b.spawn_dfs().join_and_report(&mut QuietReporter), fin_sim) } else { fin_of(&b.spawn_dfs().join(), fin_sim) },
        "ondemand" => {
            let c = b.spawn_on_demand();
            c.run_to_completion();
            fin_of(&c.join(), fin_sim)
        }
        _ => match chooser.as_str() {
            "lcg" => fin_of(&b.spawn_simulation(seed, LcgChooser).join(), fin_sim),
            "script" => fin_of(&b.spawn_simulation(seed, ScriptChooser(script)).join(), fin_sim),
            "lane" => fin_of(&b.spawn_simulation(seed, LaneChooser(seed)).join(), fin_sim),
            _ => fin_of(&b.spawn_simulation(seed, stateright::UniformChooser).join(), fin_sim),
        },
    }))
    .map_err(|_| ());
    out.wall_ms = t0.elapsed().as_millis() as u64;
    match r {
        Ok((u, sc, md, d, done, bad)) => {
            out.bad_disc = bad;
            out.joined = "ok".into();
            out.unique = u;
            out.state_count = sc;
            out.max_depth = md;
            out.disc = d;
            out.is_done = done;
        }
        Err(()) => out.joined = "panic".into(),
    }
    out.parks = PARKS.load(Ordering::Relaxed);
    out.wakes = WAKES.load(Ordering::Relaxed);
    let by_thread = rec.by_thread.lock().unwrap();
    out.threads_evaluating = by_thread.len();
    let mut count: HashMap<u64, u32> = HashMap::new();
    let mut digest = 0u64;
    for (_, v) in by_thread.iter() {
        for (s, len) in v {
            *count.entry(*s).or_insert(0) += 1;
            out.visited += 1;
            out.max_path_len = out.max_path_len.max(*len as usize);
            digest = digest.wrapping_add(mix(*s, *len as u64, 9));
        }
    }
    out.order_digest = digest;
    out.visited_distinct = count.len();
    out.dup_visits = count.values().filter(|&&c| c > 1).count();
    if dist.len() < cfg.closure_cap {
        out.visited_not_reachable = count.keys().filter(|s| !dist.contains_key(s)).count();
        out.missing = dist.keys().filter(|s| !count.contains_key(s)).count();
        if let Some(d) = cfg.target_max_depth {
            out.missing_within_depth = dist.iter().filter(|(s, ds)| (**ds as usize) + 1 < d && !count.contains_key(s)).count();
        }
    }
    out.bad_paths = rec.bad_paths.load(Ordering::Relaxed) as usize;
    if cfg.strategy == "sim" {
        if let Some(v) = by_thread.get("checker-0") {
            let mut tr = vec![];
            for (i, (s, len)) in v.iter().enumerate() {
                if i > 0 && *len == 1 {
                    break;
                }
                tr.push(*s);
            }
            out.first_trace = tr;
        }
    }
    out
}

/// call at the top of `main`: if this process is a child, run and exit
pub fn maybe_child() {
    let args: Vec<String> = std::env::args().collect();
    if args.len() >= 3 && args[1] == "child" {
        let cfg: RunCfg = serde_json::from_str(&args[2]).expect("child cfg");
        let out = run_child(&cfg);
        println!("{}", serde_json::to_string(&out).unwrap());
        // leaked timeout threads (unexpired timeouts) must not keep the process alive
        std::process::exit(0);
    }
}

pub enum ChildResult {
    Done(RunOut, Duration),
    Hang(Duration),
    Crash(String),
}

/// run one configuration in a child process of this binary with a watchdog
pub fn spawn_child(cfg: &RunCfg, watchdog: Duration) -> ChildResult {
    let exe = std::env::current_exe().expect("current_exe");
    let t0 = Instant::now();
    let mut child = match std::process::Command::new(exe)
        .arg("child")
        .arg(serde_json::to_string(cfg).unwrap())
        .stdout(std::process::Stdio::piped())
        .stderr(std::process::Stdio::null())
        .spawn()
    {
        Ok(c) => c,
        Err(e) => return ChildResult::Crash(format!("spawn failed: {}", e)),
    };
    loop {
        match child.try_wait() {
            Ok(Some(st)) => {
                let mut s = String::new();
                use std::io::Read;
                if let Some(mut o) = child.stdout.take() {
                    let _ = o.read_to_string(&mut s);
                }
                let el = t0.elapsed();
                return match serde_json::from_str::<RunOut>(s.trim()) {
                    Ok(o) => ChildResult::Done(o, el),
                    Err(_) => ChildResult::Crash(format!("child exited with {:?} and output {:?}", st.code(), &s[..s.len().min(200)])),
                };
            }
            Ok(None) => {
                if t0.elapsed() > watchdog {
                    let _ = child.kill();
                    let _ = child.wait();
                    return ChildResult::Hang(t0.elapsed());
                }
                std::thread::sleep(Duration::from_millis(5));
            }
            Err(e) => return ChildResult::Crash(format!("wait failed: {}", e)),
        }
    }
}

/// run many configurations, at most `budget` checker threads at a time
pub fn run_all(cfgs: &[RunCfg], watchdog: Duration, budget: usize) -> Vec<ChildResult> {
    let n = cfgs.len();
    let results: Mutex<Vec<Option<ChildResult>>> = Mutex::new((0..n).map(|_| None).collect());
    let state = Mutex::new((0usize, 0usize)); // (next index, threads in use)
    let cv = std::sync::Condvar::new();
    std::thread::scope(|sc| {
        for _ in 0..budget.min(n.max(1)) {
            sc.spawn(|| loop {
                let i;
                {
                    let mut g = state.lock().unwrap();
                    loop {
                        if g.0 >= n {
                            return;
                        }
                        let need = cfgs[g.0].threads.min(budget);
                        if g.1 + need <= budget {
                            i = g.0;
                            g.0 += 1;
                            g.1 += need;
                            break;
                        }
                        g = cv.wait(g).unwrap();
                    }
                }
                let wd = if cfgs[i].watchdog_ms > 0 { Duration::from_millis(cfgs[i].watchdog_ms) } else { watchdog };
                let r = spawn_child(&cfgs[i], wd);
                results.lock().unwrap()[i] = Some(r);
                let mut g = state.lock().unwrap();
                g.1 -= cfgs[i].threads.min(budget);
                cv.notify_all();
            });
        }
    });
    results.into_inner().unwrap().into_iter().map(|r| r.unwrap()).collect()
}
