//! A `Hasher` that records every `write_*` call as a token, so that the byte stream a value feeds
//! to a hasher can be compared with the model's token stream.
use std::hash::{Hash, Hasher};

#[derive(Clone, Debug, PartialEq, Eq, Hash)]
pub enum Tok {
    U8(u8),
    U16(u16),
    U32(u32),
    U64(u64),
    U128(u128),
    Usize(usize),
    I8(i8),
    I16(i16),
    I32(i32),
    I64(i64),
    Isize(isize),
    Bytes(Vec<u8>),
}

impl Tok {
    pub fn sx(&self) -> String {
        match self {
            Tok::U8(x) => format!("(u8 {})", x),
            Tok::U16(x) => format!("(u16 {})", x),
            Tok::U32(x) => format!("(u32 {})", x),
            Tok::U64(x) => format!("(u64 {})", x),
            Tok::U128(x) => format!("(u128 {})", x),
            Tok::Usize(x) => format!("(usize {})", x),
            Tok::I8(x) => format!("(i8 {})", x),
            Tok::I16(x) => format!("(i16 {})", x),
            Tok::I32(x) => format!("(i32 {})", x),
            Tok::I64(x) => format!("(i64 {})", x),
            Tok::Isize(x) => format!("(isize {})", x),
            Tok::Bytes(b) => format!("(bytes {})", b.iter().map(|x| x.to_string()).collect::<Vec<_>>().join(" ")),
        }
    }
}

#[derive(Default)]
pub struct RecHasher {
    pub toks: Vec<Tok>,
}

impl Hasher for RecHasher {
    fn finish(&self) -> u64 {
        0
    }
    fn write(&mut self, bytes: &[u8]) {
        self.toks.push(Tok::Bytes(bytes.to_vec()));
    }
    fn write_u8(&mut self, i: u8) {
        self.toks.push(Tok::U8(i));
    }
    fn write_u16(&mut self, i: u16) {
        self.toks.push(Tok::U16(i));
    }
    fn write_u32(&mut self, i: u32) {
        self.toks.push(Tok::U32(i));
    }
    fn write_u64(&mut self, i: u64) {
        self.toks.push(Tok::U64(i));
    }
    fn write_u128(&mut self, i: u128) {
        self.toks.push(Tok::U128(i));
    }
    fn write_usize(&mut self, i: usize) {
        self.toks.push(Tok::Usize(i));
    }
    fn write_i8(&mut self, i: i8) {
        self.toks.push(Tok::I8(i));
    }
    fn write_i16(&mut self, i: i16) {
        self.toks.push(Tok::I16(i));
    }
    fn write_i32(&mut self, i: i32) {
        self.toks.push(Tok::I32(i));
    }
    fn write_i64(&mut self, i: i64) {
        self.toks.push(Tok::I64(i));
    }
    fn write_isize(&mut self, i: isize) {
        self.toks.push(Tok::Isize(i));
    }
}

pub fn record<T: Hash + ?Sized>(x: &T) -> Vec<Tok> {
    let mut h = RecHasher::default();
    x.hash(&mut h);
    h.toks
}

pub fn toks_sx(toks: &[Tok]) -> String {
    format!("({})", toks.iter().map(|t| t.sx()).collect::<Vec<_>>().join(" "))
}
