//! Case emitter. The harness writes a *cases file* (tab separated) that `check` feeds to the
//! Lean driver:
//!   M <req> <expected>   model correspondence: driver(req) must equal the implementation's answer
//!   O <req>              oracle: spec side of a theorem evaluated on implementation outputs; must answer "ok"
//!   V <key> <text>       violation established by the harness itself (hang, timing, direct law)
//!   # <key> <count>      statistic (input distribution, branches hit)
//!   S <text>             sample case, written out
//!   D <n>                number of distinct non-trivial cases (measured)
use std::collections::{BTreeMap, HashSet};
use std::hash::{Hash, Hasher};
use std::io::{BufWriter, Write};

pub struct Out {
    w: BufWriter<Box<dyn Write>>,
    stats: BTreeMap<String, u64>,
    distinct: HashSet<u64>,
    samples: usize,
    pub max_samples: usize,
    pub cases: u64,
}

impl Out {
    pub fn new() -> Self {
        let args: Vec<String> = std::env::args().collect();
        let mut path = None;
        let mut i = 1;
        while i < args.len() {
            if args[i] == "--out" && i + 1 < args.len() {
                path = Some(args[i + 1].clone());
            }
            i += 1;
        }
        let w: Box<dyn Write> = match path {
            Some(p) => Box::new(std::fs::File::create(p).expect("create cases file")),
            None => Box::new(std::io::stdout()),
        };
        Out { w: BufWriter::new(w), stats: BTreeMap::new(), distinct: HashSet::new(), samples: 0, max_samples: 6, cases: 0 }
    }
    pub fn m(&mut self, req: &str, expected: &str) {
        self.cases += 1;
        writeln!(self.w, "M\t{}\t{}", req, expected).unwrap();
    }
    pub fn o(&mut self, req: &str) {
        writeln!(self.w, "O\t{}", req).unwrap();
    }
    pub fn v(&mut self, key: &str, text: &str) {
        writeln!(self.w, "V\t{}\t{}", key, text.replace('\t', " ").replace('\n', " | ")).unwrap();
    }
    pub fn stat(&mut self, key: &str) {
        *self.stats.entry(key.to_string()).or_insert(0) += 1;
    }
    pub fn stat_n(&mut self, key: &str, n: u64) {
        *self.stats.entry(key.to_string()).or_insert(0) += n;
    }
    /// register a case as distinct & non-trivial (by the property's rule); counted via a hash set
    pub fn distinct<T: Hash>(&mut self, x: &T) {
        let mut h = std::collections::hash_map::DefaultHasher::new();
        x.hash(&mut h);
        self.distinct.insert(h.finish());
    }
    pub fn sample(&mut self, text: &str) {
        if self.samples < self.max_samples {
            self.samples += 1;
            writeln!(self.w, "S\t{}", text.replace('\t', " ").replace('\n', " | ")).unwrap();
        }
    }
    pub fn finish(mut self) {
        for (k, v) in &self.stats {
            writeln!(self.w, "#\t{}\t{}", k, v).unwrap();
        }
        writeln!(self.w, "D\t{}", self.distinct.len()).unwrap();
        self.w.flush().unwrap();
    }
}

pub fn arg_u64(name: &str, default: u64) -> u64 {
    let args: Vec<String> = std::env::args().collect();
    let mut i = 1;
    while i + 1 < args.len() {
        if args[i] == name {
            return args[i + 1].parse().unwrap_or(default);
        }
        i += 1;
    }
    default
}
pub fn arg_str(name: &str) -> Option<String> {
    let args: Vec<String> = std::env::args().collect();
    let mut i = 1;
    while i + 1 < args.len() {
        if args[i] == name {
            return Some(args[i + 1].clone());
        }
        i += 1;
    }
    None
}
pub fn seed() -> u64 {
    arg_u64("--seed", std::env::var("VERIF_SEED").ok().and_then(|s| s.parse().ok()).unwrap_or(1))
}
pub fn thorough() -> bool {
    arg_str("--tier").map(|t| t == "thorough").unwrap_or(false)
}
/// run a closure, mapping a panic to None (panic message suppressed)
pub fn quiet_panics() {
    std::panic::set_hook(Box::new(|_| {}));
}
