//! `GraphModel`: a table-driven explicit `stateright::Model`, the common test vehicle of the checker
//! properties (C01–C03, C05, C11–C13, C19).
//!
//! * states are `u16` in `0..n` (`n <= 16` for the generators, the type allows 32 because masks are `u32`);
//! * several initial states (possibly duplicated, possibly outside the boundary);
//! * per state an ordered action list `(label, target)`; `target = None` is an *ignored* action
//!   (`next_state` returns `None`); labels may repeat inside a list — `next_state(s, a)` is a function
//!   of `(s, a)`, so the FIRST entry with that label decides; self-loops, joins and cycles are allowed;
//! * `boundary` bitmask (bit `s` set = `within_boundary(s)`);
//! * up to 5 properties `(expectation, mask)`: the condition holds in state `s` iff bit `s` of the mask
//!   is set; the names are `p0 .. p4` (stateright wants `&'static str` and `fn` pointers).
//!
//! Wire format (one S-expression, understood by `SR.Drv.Graph.graph?` on the Lean side):
//!
//! ```text
//! (g N (INIT ...) (EDGES_0 ... EDGES_{N-1}) BOUNDARY ((E MASK) ...))
//!     EDGES_s = ((LABEL TARGET) ...)     TARGET = state number, or x for an ignored action
//!     E       = a | e | s                 (always / eventually / sometimes)
//! e.g. (g 3 (0) (((0 1) (1 x)) ((0 2) (1 0)) ()) 7 ((a 3) (e 4)))
//! ```
//!
//! API overview: [`GraphModel::sx`] / [`GraphModel::parse`], [`GraphModel::random`] (seeded),
//! [`enumerate_small`] (exhaustive small scope), [`GraphModel::reach`], [`GraphModel::fps`],
//! [`GraphModel::paths_up_to`], [`GraphModel::random_walk`].
use crate::rng::Rng;
use stateright::{Expectation, Model, Path, Property};

/// An action: just a label. `Debug` prints `A<label>`.
#[derive(Clone, Copy, PartialEq, Eq, Hash, PartialOrd, Ord)]
pub struct Act(pub u8);
impl std::fmt::Debug for Act {
    fn fmt(&self, f: &mut std::fmt::Formatter<'_>) -> std::fmt::Result {
        write!(f, "A{}", self.0)
    }
}

#[derive(Clone, Debug, PartialEq, Eq)]
pub struct GraphModel {
    pub n: usize,
    pub init: Vec<u16>,
    pub edges: Vec<Vec<(u8, Option<u16>)>>,
    pub boundary: u32,
    pub props: Vec<(Expectation, u32)>,
    /// when set, `as_svg` returns a textual rendering of the path (lets the Explorer's use of
    /// `Path::from_fingerprints` be observed over HTTP); not part of the wire format
    pub svg: bool,
    /// when set, the model overrides the two PRESENTATION hooks: `format_action` prints `act<label>` and
    /// `format_step` has something to show (`o<label>`) only for odd labels — whether or not the model takes the step.
    /// Nothing that decides behaviour may depend on these hooks; not part of the wire format
    pub fmt: bool,
}

pub const PROP_NAMES: [&str; 5] = ["p0", "p1", "p2", "p3", "p4"];

fn cond<const I: usize>(m: &GraphModel, s: &u16) -> bool {
    (m.props[I].1 >> *s) & 1 == 1
}
const CONDS: [fn(&GraphModel, &u16) -> bool; 5] = [cond::<0>, cond::<1>, cond::<2>, cond::<3>, cond::<4>];

impl Model for GraphModel {
    type State = u16;
    type Action = Act;
    fn init_states(&self) -> Vec<u16> {
        self.init.clone()
    }
    fn actions(&self, state: &u16, actions: &mut Vec<Act>) {
        if let Some(es) = self.edges.get(*state as usize) {
            for (l, _) in es {
                actions.push(Act(*l));
            }
        }
    }
    fn next_state(&self, state: &u16, action: Act) -> Option<u16> {
        self.edges.get(*state as usize)?.iter().find(|(l, _)| *l == action.0).and_then(|(_, t)| *t)
    }
    fn within_boundary(&self, state: &u16) -> bool {
        (self.boundary >> *state) & 1 == 1
    }
    fn properties(&self) -> Vec<Property<Self>> {
        self.props
            .iter()
            .enumerate()
            .take(5)
            .map(|(i, (e, _))| Property { expectation: e.clone(), name: PROP_NAMES[i], condition: CONDS[i] })
            .collect()
    }
    fn format_action(&self, action: &Act) -> String {
        if self.fmt {
            format!("act{}", action.0)
        } else {
            format!("{:?}", action)
        }
    }
    fn format_step(&self, last_state: &u16, action: Act) -> Option<String> {
        if self.fmt {
            if action.0 % 2 == 1 {
                Some(format!("o{}", action.0))
            } else {
                None
            }
        } else {
            self.next_state(last_state, action).map(|s| format!("{:#?}", s))
        }
    }
    fn as_svg(&self, path: Path<u16, Act>) -> Option<String> {
        if self.svg {
            Some(path_text(&path.into_vec()))
        } else {
            None
        }
    }
}

/// `s0 -A1-> s1 -A0-> s2` as `0,A1,1,A0,2`
pub fn path_text(p: &[(u16, Option<Act>)]) -> String {
    let mut v = Vec::new();
    for (s, a) in p {
        v.push(s.to_string());
        if let Some(a) = a {
            v.push(format!("{:?}", a));
        }
    }
    v.join(",")
}

pub fn exp_letter(e: &Expectation) -> &'static str {
    match e {
        Expectation::Always => "a",
        Expectation::Eventually => "e",
        Expectation::Sometimes => "s",
    }
}
pub fn exp_of_letter(s: &str) -> Option<Expectation> {
    match s {
        "a" => Some(Expectation::Always),
        "e" => Some(Expectation::Eventually),
        "s" => Some(Expectation::Sometimes),
        _ => None,
    }
}

/// knobs of the seeded generator; `Default` is the distribution used by most properties
#[derive(Clone, Debug)]
pub struct GenCfg {
    pub max_states: usize,
    pub max_out: usize,
    pub max_init: usize,
    pub max_props: usize,
    /// probability (in percent) that an action is ignored (`None` target)
    pub ignored_pct: usize,
    /// probability (in percent) that a state is outside the boundary
    pub out_of_boundary_pct: usize,
    /// allow duplicated initial states
    pub dup_init: bool,
    /// allow repeated labels within one action list
    pub dup_labels: bool,
    /// at least one property (checkers do nothing at all without properties)
    pub min_props: usize,
}
impl Default for GenCfg {
    fn default() -> Self {
        GenCfg {
            max_states: 10,
            max_out: 3,
            max_init: 3,
            max_props: 4,
            ignored_pct: 12,
            out_of_boundary_pct: 12,
            dup_init: true,
            dup_labels: true,
            min_props: 1,
        }
    }
}

impl GraphModel {
    pub fn sx(&self) -> String {
        let edges: Vec<String> = self
            .edges
            .iter()
            .map(|es| {
                format!(
                    "({})",
                    es.iter()
                        .map(|(l, t)| match t {
                            Some(t) => format!("({} {})", l, t),
                            None => format!("({} x)", l),
                        })
                        .collect::<Vec<_>>()
                        .join(" ")
                )
            })
            .collect();
        format!(
            "(g {} ({}) ({}) {} ({}))",
            self.n,
            self.init.iter().map(|s| s.to_string()).collect::<Vec<_>>().join(" "),
            edges.join(" "),
            self.boundary,
            self.props.iter().map(|(e, m)| format!("({} {})", exp_letter(e), m)).collect::<Vec<_>>().join(" ")
        )
    }

    /// inverse of [`GraphModel::sx`] (used by child processes that get the model on the command line)
    pub fn parse(s: &str) -> Option<GraphModel> {
        let toks = tokenize(s);
        let mut pos = 0;
        let v = parse_val(&toks, &mut pos)?;
        if pos != toks.len() {
            return None;
        }
        let items = v.list()?;
        if items.len() != 6 || items[0].atom()? != "g" {
            return None;
        }
        let n: usize = items[1].atom()?.parse().ok()?;
        let init: Vec<u16> = items[2].list()?.iter().map(|x| x.atom()?.parse().ok()).collect::<Option<_>>()?;
        let mut edges = Vec::new();
        for es in items[3].list()? {
            let mut row = Vec::new();
            for e in es.list()? {
                let p = e.list()?;
                if p.len() != 2 {
                    return None;
                }
                let l: u8 = p[0].atom()?.parse().ok()?;
                let t = match p[1].atom()? {
                    "x" => None,
                    t => Some(t.parse::<u16>().ok()?),
                };
                row.push((l, t));
            }
            edges.push(row);
        }
        let boundary: u32 = items[4].atom()?.parse().ok()?;
        let mut props = Vec::new();
        for p in items[5].list()? {
            let p = p.list()?;
            if p.len() != 2 {
                return None;
            }
            props.push((exp_of_letter(p[0].atom()?)?, p[1].atom()?.parse::<u32>().ok()?));
        }
        if edges.len() != n || props.len() > 5 {
            return None;
        }
        Some(GraphModel { n, init, edges, boundary, props, svg: false, fmt: false })
    }

    /// Seeded random model. Shapes are mixed on purpose: sparse chains, dense graphs with joins and
    /// cycles, self-loops, terminal states, unreachable states.
    pub fn random(r: &mut Rng, cfg: &GenCfg) -> GraphModel {
        let n = r.range(1, cfg.max_states.max(1));
        let all: u32 = if n >= 32 { u32::MAX } else { (1u32 << n) - 1 };
        let shape = r.below(4); // 0 sparse/forward, 1 dense, 2 mixed, 3 mostly chain
        let mut edges = Vec::new();
        for s in 0..n {
            let max_out = cfg.max_out.min(if shape == 3 { 1 + r.below(2) } else { cfg.max_out });
            let deg = match shape {
                0 => r.below(max_out.min(2) + 1),
                1 => r.range(max_out.min(1), max_out),
                _ => r.below(max_out + 1),
            };
            let mut row: Vec<(u8, Option<u16>)> = Vec::new();
            for k in 0..deg {
                let label = if cfg.dup_labels && k > 0 && r.chance(1, 12) { row[r.below(row.len())].0 } else { k as u8 };
                let target = if r.below(100) < cfg.ignored_pct {
                    None
                } else {
                    Some(match shape {
                        0 | 3 => {
                            if r.chance(3, 4) {
                                ((s + 1 + r.below(2)) % n) as u16
                            } else {
                                r.below(n) as u16
                            }
                        }
                        _ => {
                            if r.chance(1, 10) {
                                s as u16
                            } else {
                                r.below(n) as u16
                            }
                        }
                    })
                };
                // a repeated label must denote the same step (next_state is a function of (s, a))
                let target = match row.iter().find(|(l, _)| *l == label) {
                    Some((_, t)) => *t,
                    None => target,
                };
                row.push((label, target));
            }
            edges.push(row);
        }
        let n_init = r.range(1, cfg.max_init.max(1).min(n.max(1)));
        let mut init: Vec<u16> = Vec::new();
        for _ in 0..n_init {
            let s = if r.chance(1, 2) { 0 } else { r.below(n) as u16 };
            if cfg.dup_init || !init.contains(&s) {
                init.push(s);
            }
        }
        let mut boundary = all;
        for s in 0..n {
            if r.below(100) < cfg.out_of_boundary_pct {
                boundary &= !(1 << s);
            }
        }
        let n_props = r.range(cfg.min_props.min(5), cfg.max_props.max(cfg.min_props).min(5));
        let mut props = Vec::new();
        for _ in 0..n_props {
            let e = match r.below(3) {
                0 => Expectation::Always,
                1 => Expectation::Eventually,
                _ => Expectation::Sometimes,
            };
            let mask = match r.below(6) {
                0 => all,
                1 => 0,
                2 => 1u32 << r.below(n),
                3 => all & !(1u32 << r.below(n)),
                _ => (r.next() as u32) & all,
            };
            props.push((e, mask));
        }
        GraphModel { n, init, edges, boundary, props, svg: false, fmt: false }
    }

    pub fn all_mask(&self) -> u32 {
        if self.n >= 32 {
            u32::MAX
        } else {
            (1u32 << self.n) - 1
        }
    }

    /// fingerprints of the states `0..n` as the checkers compute them
    pub fn fps(&self) -> Vec<u64> {
        (0..self.n).map(|s| stateright::verif::fingerprint(&(s as u16))).collect()
    }

    /// in-boundary initial states, in order, duplicates kept
    pub fn init_b(&self) -> Vec<u16> {
        self.init.iter().copied().filter(|s| self.within_boundary(s)).collect()
    }

    /// in-boundary successors of `s`, in action order (ignored actions dropped)
    pub fn succ_b(&self, s: u16) -> Vec<u16> {
        self.next_states(&s).into_iter().filter(|t| self.within_boundary(t)).collect()
    }

    /// states reachable from in-boundary initial states through in-boundary steps, in BFS order
    pub fn reach(&self) -> Vec<u16> {
        let mut seen = vec![false; self.n.max(1)];
        let mut order = Vec::new();
        let mut q = std::collections::VecDeque::new();
        for s in self.init_b() {
            if (s as usize) < self.n && !seen[s as usize] {
                seen[s as usize] = true;
                q.push_back(s);
            }
        }
        while let Some(s) = q.pop_front() {
            order.push(s);
            for t in self.succ_b(s) {
                if (t as usize) < self.n && !seen[t as usize] {
                    seen[t as usize] = true;
                    q.push_back(t);
                }
            }
        }
        order
    }

    /// every execution (initial state, then model steps; the boundary plays no role, exactly as in
    /// `Path::from_fingerprints`) with at most `depth` states, as `(state, action taken)` lists.
    /// At most `cap` paths are produced.
    pub fn paths_up_to(&self, depth: usize, cap: usize) -> Vec<Vec<(u16, Option<Act>)>> {
        let mut out: Vec<Vec<(u16, Option<Act>)>> = Vec::new();
        let mut seen_init = Vec::new();
        let mut stack: Vec<Vec<(u16, Option<Act>)>> = Vec::new();
        for s in &self.init {
            if !seen_init.contains(s) {
                seen_init.push(*s);
                stack.push(vec![(*s, None)]);
            }
        }
        stack.reverse();
        while let Some(p) = stack.pop() {
            if out.len() >= cap {
                break;
            }
            out.push(p.clone());
            if p.len() >= depth {
                continue;
            }
            let last = p.last().unwrap().0;
            let mut nexts = Vec::new();
            for (a, t) in self.next_steps(&last) {
                // one representative per successor state (fingerprint paths cannot tell actions apart)
                if !nexts.iter().any(|(_, t2)| *t2 == t) {
                    nexts.push((a, t));
                }
            }
            for (a, t) in nexts.into_iter().rev() {
                let mut q = p.clone();
                q.last_mut().unwrap().1 = Some(a);
                q.push((t, None));
                stack.push(q);
            }
        }
        out
    }

    /// a random execution of at most `len` steps from a random initial state
    pub fn random_walk(&self, r: &mut Rng, len: usize) -> Vec<(u16, Option<Act>)> {
        let mut s = *r.pick(&self.init);
        let mut p = Vec::new();
        for _ in 0..len {
            let steps = self.next_steps(&s);
            if steps.is_empty() {
                break;
            }
            let (a, t) = steps[r.below(steps.len())];
            p.push((s, Some(a)));
            s = t;
        }
        p.push((s, None));
        p
    }
}

/// Exhaustive small scope: every model with exactly `n` states, out-degree `<= max_out` (targets range
/// over all states and "ignored", labels are the positions `0, 1, ..`), every boundary mask and every
/// non-empty set of initial states (as an ascending list). `props` is attached unchanged (masks are
/// cut to `n` bits). The callback receives a running index, so callers can sample
/// (`idx % stride == k`); it returns `false` to stop. Returns the number of models visited.
///
/// Size: `(sum_{d<=max_out} (n+1)^d)^n * 2^n * (2^n - 1)`, e.g. n=2, max_out=2: 13^2*4*3 = 2 028;
/// n=3, max_out=2: 21^3*8*7 = 518 616.
pub fn enumerate_small(
    n: usize,
    max_out: usize,
    props: &[(Expectation, u32)],
    mut f: impl FnMut(u64, &GraphModel) -> bool,
) -> u64 {
    assert!(n >= 1 && n <= 5);
    // all action lists of one state
    let mut rows: Vec<Vec<(u8, Option<u16>)>> = vec![vec![]];
    let mut frontier: Vec<Vec<(u8, Option<u16>)>> = vec![vec![]];
    for d in 0..max_out {
        let mut next = Vec::new();
        for row in &frontier {
            for t in 0..=n {
                let mut r2 = row.clone();
                r2.push((d as u8, if t == n { None } else { Some(t as u16) }));
                next.push(r2);
            }
        }
        rows.extend(next.iter().cloned());
        frontier = next;
    }
    let all: u32 = (1u32 << n) - 1;
    let props: Vec<(Expectation, u32)> = props.iter().map(|(e, m)| (e.clone(), m & all)).collect();
    let mut idx = 0u64;
    let mut choice = vec![0usize; n];
    loop {
        let edges: Vec<Vec<(u8, Option<u16>)>> = choice.iter().map(|c| rows[*c].clone()).collect();
        for boundary in 0..=all {
            for init_mask in 1..=all {
                let init: Vec<u16> = (0..n as u16).filter(|s| (init_mask >> s) & 1 == 1).collect();
                let g = GraphModel { n, init, edges: edges.clone(), boundary, props: props.clone(), svg: false, fmt: false };
                if !f(idx, &g) {
                    return idx + 1;
                }
                idx += 1;
            }
        }
        // next edge configuration (odometer)
        let mut k = 0;
        loop {
            if k == n {
                return idx;
            }
            choice[k] += 1;
            if choice[k] < rows.len() {
                break;
            }
            choice[k] = 0;
            k += 1;
        }
    }
}

// ---- minimal S-expression reader (the harness otherwise only prints them) ----------------------
#[derive(Debug, Clone)]
pub enum Sx {
    Atom(String),
    List(Vec<Sx>),
}
impl Sx {
    pub fn atom(&self) -> Option<&str> {
        match self {
            Sx::Atom(s) => Some(s),
            _ => None,
        }
    }
    pub fn list(&self) -> Option<&[Sx]> {
        match self {
            Sx::List(v) => Some(v),
            _ => None,
        }
    }
}
pub fn tokenize(s: &str) -> Vec<String> {
    let mut out = Vec::new();
    let mut cur = String::new();
    for c in s.chars() {
        if c == '(' || c == ')' || c.is_whitespace() {
            if !cur.is_empty() {
                out.push(std::mem::take(&mut cur));
            }
            if c == '(' || c == ')' {
                out.push(c.to_string());
            }
        } else {
            cur.push(c);
        }
    }
    if !cur.is_empty() {
        out.push(cur);
    }
    out
}
pub fn parse_val(toks: &[String], pos: &mut usize) -> Option<Sx> {
    let t = toks.get(*pos)?;
    *pos += 1;
    if t == "(" {
        let mut items = Vec::new();
        loop {
            if toks.get(*pos)? == ")" {
                *pos += 1;
                return Some(Sx::List(items));
            }
            items.push(parse_val(toks, pos)?);
        }
    } else if t == ")" {
        None
    } else {
        Some(Sx::Atom(t.clone()))
    }
}

#[cfg(test)]
mod test {
    use super::*;
    #[test]
    fn roundtrip() {
        let mut r = Rng::new(7);
        for _ in 0..200 {
            let g = GraphModel::random(&mut r, &GenCfg::default());
            assert_eq!(GraphModel::parse(&g.sx()), Some(g));
        }
    }
    #[test]
    fn small_scope_count() {
        assert_eq!(enumerate_small(2, 2, &[], |_, _| true), 13 * 13 * 4 * 3);
    }
}
