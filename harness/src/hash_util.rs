//! The hashable universe on the implementation side (C04, C10): for every supported Rust type
//! its type code, the S-expression of a value (read off the REAL object, hash tables in their actual
//! iteration order), the graph of the inner stable hasher on the set/map elements occurring in it,
//! a generator, `rebuild` (a semantically equal value constructed another way: permuted insertion
//! order, other capacity, another randomly seeded table, insert-then-remove, padding) and `mutate`
//! (a near value: one small change somewhere, e.g. one element moved to the adjacent collection).
use crate::rec::{record, toks_sx};
use crate::rng::Rng;
use stateright::actor::{Actor, ActorModelState, Envelope, Id, Network, Out, RandomChoices};
use stateright::util::{DenseNatMap, HashableHashMap, HashableHashSet, VectorClock};
use std::any::Any;
use std::collections::{BTreeMap, BTreeSet, VecDeque};
use std::fmt::Debug;
use std::hash::{BuildHasher, Hash};
use std::marker::PhantomData;
use std::sync::Arc;

pub type Graph = BTreeMap<String, u64>;

pub fn graph_sx(g: &Graph) -> String {
    format!("({})", g.iter().map(|(k, v)| format!("({} {})", k, v)).collect::<Vec<_>>().join(" "))
}

pub trait U: Hash + PartialEq + Clone + Debug + 'static {
    fn ty() -> String;
    fn sx(&self) -> String;
    fn graph(&self, _g: &mut Graph) {}
    fn gen(r: &mut Rng, d: usize) -> Self;
    /// semantically equal value, constructed differently
    fn rebuild(&self, _r: &mut Rng) -> Self {
        self.clone()
    }
    /// a near value (normally different; may coincide by chance)
    fn mutate(&self, r: &mut Rng) -> Self;
    /// remove one element of a collection and hand it out
    fn elem_out(&mut self, _r: &mut Rng) -> Option<Box<dyn Any>> {
        None
    }
    /// add an element handed out by a neighbour (if it has the right type)
    fn elem_in(&mut self, _e: &dyn Any) -> bool {
        false
    }
}

pub fn full_graph<T: U>(x: &T) -> Graph {
    let mut g = Graph::new();
    x.graph(&mut g);
    g
}

// ---------------------------------------------------------------- scalars

macro_rules! int_u {
    ($t:ty, $name:expr) => {
        impl U for $t {
            fn ty() -> String {
                $name.into()
            }
            fn sx(&self) -> String {
                self.to_string()
            }
            fn gen(r: &mut Rng, _d: usize) -> Self {
                match r.below(12) {
                    0 => <$t>::MAX,
                    1 => <$t>::MAX - 1,
                    2 => r.next() as $t,
                    3 => 255 as $t,
                    _ => r.below(4) as $t,
                }
            }
            fn mutate(&self, r: &mut Rng) -> Self {
                match r.below(3) {
                    0 => self.wrapping_add(1),
                    1 => self.wrapping_sub(1),
                    _ => {
                        let x = Self::gen(r, 0);
                        if x == *self { self.wrapping_add(1) } else { x }
                    }
                }
            }
        }
    };
}
int_u!(u8, "u8");
int_u!(u32, "u32");
int_u!(u64, "u64");
int_u!(usize, "usize");

impl U for bool {
    fn ty() -> String {
        "bool".into()
    }
    fn sx(&self) -> String {
        if *self { "t".into() } else { "f".into() }
    }
    fn gen(r: &mut Rng, _d: usize) -> Self {
        r.chance(1, 2)
    }
    fn mutate(&self, _r: &mut Rng) -> Self {
        !*self
    }
}
impl U for () {
    fn ty() -> String {
        "unit".into()
    }
    fn sx(&self) -> String {
        "u".into()
    }
    fn gen(_r: &mut Rng, _d: usize) -> Self {}
    fn mutate(&self, _r: &mut Rng) -> Self {}
}
thread_local! {
    /// generated `Id`s are below this bound (C10 sets it to the number of actors)
    pub static ID_MOD: std::cell::Cell<usize> = const { std::cell::Cell::new(4) };
}
impl U for Id {
    fn ty() -> String {
        "id".into()
    }
    fn sx(&self) -> String {
        usize::from(*self).to_string()
    }
    fn gen(r: &mut Rng, _d: usize) -> Self {
        Id::from(r.below(ID_MOD.with(|m| m.get()).max(1)))
    }
    fn mutate(&self, r: &mut Rng) -> Self {
        let x = usize::from(*self);
        Id::from((x + 1 + r.below(3)) % 4)
    }
}
const WORDS: [&str; 10] = ["", "a", "b", "ab", "ba", "k", "key", "a\u{7f}", "\u{e9}", "\u{10348}z"];
impl U for String {
    fn ty() -> String {
        "str".into()
    }
    fn sx(&self) -> String {
        crate::sx::nums(self.bytes())
    }
    fn gen(r: &mut Rng, _d: usize) -> Self {
        (*r.pick(&WORDS)).to_string()
    }
    fn rebuild(&self, _r: &mut Rng) -> Self {
        let mut s = String::with_capacity(self.len() + 17);
        s.push_str(self);
        s
    }
    fn mutate(&self, r: &mut Rng) -> Self {
        let mut s = self.clone();
        match r.below(3) {
            0 => s.push(*r.pick(&['a', 'b', '\u{ff}', '\u{0}'])),
            1 if !s.is_empty() => {
                s.pop();
            }
            _ => s.insert(0, *r.pick(&['a', 'b', 'c'])),
        }
        s
    }
}

// ---------------------------------------------------------------- Option, tuples

impl<T: U> U for Option<T> {
    fn ty() -> String {
        format!("(opt {})", T::ty())
    }
    fn sx(&self) -> String {
        match self {
            None => "(0 u)".into(),
            Some(x) => format!("(1 {})", x.sx()),
        }
    }
    fn graph(&self, g: &mut Graph) {
        if let Some(x) = self {
            x.graph(g)
        }
    }
    fn gen(r: &mut Rng, d: usize) -> Self {
        if r.chance(1, 3) { None } else { Some(T::gen(r, d)) }
    }
    fn rebuild(&self, r: &mut Rng) -> Self {
        self.as_ref().map(|x| x.rebuild(r))
    }
    fn mutate(&self, r: &mut Rng) -> Self {
        match self {
            None => Some(T::gen(r, 1)),
            Some(x) => {
                if r.chance(1, 3) { None } else { Some(x.mutate(r)) }
            }
        }
    }
}

impl<A: U, B: U> U for (A, B) {
    fn ty() -> String {
        format!("(tup {} {})", A::ty(), B::ty())
    }
    fn sx(&self) -> String {
        format!("({} {})", self.0.sx(), self.1.sx())
    }
    fn graph(&self, g: &mut Graph) {
        self.0.graph(g);
        self.1.graph(g);
    }
    fn gen(r: &mut Rng, d: usize) -> Self {
        (A::gen(r, d), B::gen(r, d))
    }
    fn rebuild(&self, r: &mut Rng) -> Self {
        (self.0.rebuild(r), self.1.rebuild(r))
    }
    fn mutate(&self, r: &mut Rng) -> Self {
        let mut x = self.clone();
        if r.chance(1, 2) {
            // move one element between the adjacent components
            if r.chance(1, 2) {
                if let Some(e) = x.0.elem_out(r) {
                    if x.1.elem_in(&*e) {
                        return x;
                    }
                }
            } else if let Some(e) = x.1.elem_out(r) {
                if x.0.elem_in(&*e) {
                    return x;
                }
            }
            x = self.clone();
        }
        if r.chance(1, 2) {
            x.0 = x.0.mutate(r);
        } else {
            x.1 = x.1.mutate(r);
        }
        x
    }
}

impl<A: U, B: U, C: U> U for (A, B, C) {
    fn ty() -> String {
        format!("(tup {} (tup {} {}))", A::ty(), B::ty(), C::ty())
    }
    fn sx(&self) -> String {
        format!("({} ({} {}))", self.0.sx(), self.1.sx(), self.2.sx())
    }
    fn graph(&self, g: &mut Graph) {
        self.0.graph(g);
        self.1.graph(g);
        self.2.graph(g);
    }
    fn gen(r: &mut Rng, d: usize) -> Self {
        (A::gen(r, d), B::gen(r, d), C::gen(r, d))
    }
    fn rebuild(&self, r: &mut Rng) -> Self {
        (self.0.rebuild(r), self.1.rebuild(r), self.2.rebuild(r))
    }
    fn mutate(&self, r: &mut Rng) -> Self {
        let mut x = self.clone();
        if r.chance(1, 2) {
            if let Some(e) = x.1.elem_out(r) {
                let ok = if r.chance(1, 2) { x.0.elem_in(&*e) } else { x.2.elem_in(&*e) };
                if ok {
                    return x;
                }
            }
            x = self.clone();
        }
        match r.below(3) {
            0 => x.0 = x.0.mutate(r),
            1 => x.1 = x.1.mutate(r),
            _ => x.2 = x.2.mutate(r),
        }
        x
    }
}

// ---------------------------------------------------------------- sequences

fn gen_len(r: &mut Rng, d: usize) -> usize {
    if d == 0 { r.below(2) } else { r.below(4) }
}
fn sub(d: usize) -> usize {
    d.saturating_sub(1)
}

/// shared mutation of a sequence held as a Vec
fn mutate_seq<T: U>(v: &mut Vec<T>, r: &mut Rng) {
    match r.below(6) {
        0 => v.push(T::gen(r, 1)),
        1 if !v.is_empty() => {
            let i = r.below(v.len());
            v.remove(i);
        }
        2 if v.len() >= 2 => {
            // move one element between ADJACENT members
            let i = r.below(v.len() - 1);
            let (a, b) = if r.chance(1, 2) { (i, i + 1) } else { (i + 1, i) };
            let keep = v.clone();
            if let Some(e) = v[a].elem_out(r) {
                if v[b].elem_in(&*e) {
                    return;
                }
            }
            *v = keep;
            v.swap(i, i + 1);
        }
        3 if v.len() >= 2 => {
            let i = r.below(v.len() - 1);
            v.swap(i, i + 1);
        }
        _ => {
            if v.is_empty() {
                v.push(T::gen(r, 1));
            } else {
                let i = r.below(v.len());
                v[i] = v[i].mutate(r);
            }
        }
    }
}

impl<T: U> U for Vec<T> {
    fn ty() -> String {
        format!("(vec {})", T::ty())
    }
    fn sx(&self) -> String {
        crate::sx::list(self.iter().map(|x| x.sx()))
    }
    fn graph(&self, g: &mut Graph) {
        for x in self {
            x.graph(g)
        }
    }
    fn gen(r: &mut Rng, d: usize) -> Self {
        (0..gen_len(r, d)).map(|_| T::gen(r, sub(d))).collect()
    }
    fn rebuild(&self, r: &mut Rng) -> Self {
        let mut v = Vec::with_capacity(self.len() + r.below(9));
        for x in self {
            v.push(x.rebuild(r));
        }
        if r.chance(1, 3) {
            v.push(T::gen(r, 0));
            v.pop();
        }
        v
    }
    fn mutate(&self, r: &mut Rng) -> Self {
        let mut v = self.clone();
        mutate_seq(&mut v, r);
        v
    }
    fn elem_out(&mut self, _r: &mut Rng) -> Option<Box<dyn Any>> {
        self.pop().map(|x| Box::new(x) as Box<dyn Any>)
    }
    fn elem_in(&mut self, e: &dyn Any) -> bool {
        match e.downcast_ref::<T>() {
            Some(x) => {
                self.insert(0, x.clone());
                true
            }
            None => false,
        }
    }
}

impl<T: U> U for VecDeque<T> {
    fn ty() -> String {
        format!("(deque {})", T::ty())
    }
    fn sx(&self) -> String {
        crate::sx::list(self.iter().map(|x| x.sx()))
    }
    fn graph(&self, g: &mut Graph) {
        for x in self {
            x.graph(g)
        }
    }
    fn gen(r: &mut Rng, d: usize) -> Self {
        (0..gen_len(r, d)).map(|_| T::gen(r, sub(d))).collect()
    }
    fn rebuild(&self, r: &mut Rng) -> Self {
        // another ring-buffer layout: fill from the back to the front, with junk pushed and popped
        let mut v = VecDeque::with_capacity(r.below(9));
        for _ in 0..r.below(3) {
            v.push_back(T::gen(r, 0));
        }
        while v.pop_front().is_some() {}
        let k = if self.is_empty() { 0 } else { r.below(self.len() + 1) };
        for x in self.iter().skip(k) {
            v.push_back(x.rebuild(r));
        }
        for x in self.iter().take(k).rev() {
            v.push_front(x.rebuild(r));
        }
        v
    }
    fn mutate(&self, r: &mut Rng) -> Self {
        let mut v: Vec<T> = self.iter().cloned().collect();
        mutate_seq(&mut v, r);
        v.into_iter().collect()
    }
    fn elem_out(&mut self, _r: &mut Rng) -> Option<Box<dyn Any>> {
        self.pop_back().map(|x| Box::new(x) as Box<dyn Any>)
    }
    fn elem_in(&mut self, e: &dyn Any) -> bool {
        match e.downcast_ref::<T>() {
            Some(x) => {
                self.push_front(x.clone());
                true
            }
            None => false,
        }
    }
}

impl<V: U> U for DenseNatMap<Id, V> {
    fn ty() -> String {
        format!("(dnm {})", V::ty())
    }
    fn sx(&self) -> String {
        crate::sx::list(self.values().map(|x| x.sx()))
    }
    fn graph(&self, g: &mut Graph) {
        for x in self.values() {
            x.graph(g)
        }
    }
    fn gen(r: &mut Rng, d: usize) -> Self {
        (0..gen_len(r, d)).map(|_| V::gen(r, sub(d))).collect::<Vec<V>>().into_iter().collect()
    }
    fn rebuild(&self, r: &mut Rng) -> Self {
        let mut ps: Vec<(Id, V)> = self.iter().map(|(k, v)| (k, v.rebuild(r))).collect();
        match r.below(3) {
            0 => {
                r.shuffle(&mut ps);
                ps.into_iter().collect()
            }
            1 => {
                let mut m = DenseNatMap::new();
                for (k, v) in ps {
                    m.insert(k, V::gen(r, 0));
                    m.insert(k, v);
                }
                m
            }
            _ => ps.into_iter().map(|(_, v)| v).collect::<Vec<V>>().into(),
        }
    }
    fn mutate(&self, r: &mut Rng) -> Self {
        let mut v: Vec<V> = self.values().cloned().collect();
        mutate_seq(&mut v, r);
        v.into_iter().collect()
    }
}

// ---------------------------------------------------------------- ordered maps / sets

impl<K: U + Ord, V: U> U for BTreeMap<K, V> {
    fn ty() -> String {
        format!("(bmap {} {})", K::ty(), V::ty())
    }
    fn sx(&self) -> String {
        crate::sx::list(self.iter().map(|(k, v)| format!("({} {})", k.sx(), v.sx())))
    }
    fn graph(&self, g: &mut Graph) {
        for (k, v) in self {
            k.graph(g);
            v.graph(g);
        }
    }
    fn gen(r: &mut Rng, d: usize) -> Self {
        (0..gen_len(r, d)).map(|_| (K::gen(r, sub(d)), V::gen(r, sub(d)))).collect()
    }
    fn rebuild(&self, r: &mut Rng) -> Self {
        let mut ps: Vec<(K, V)> = self.iter().map(|(k, v)| (k.rebuild(r), v.rebuild(r))).collect();
        r.shuffle(&mut ps);
        let mut m = BTreeMap::new();
        let junk = K::gen(r, 1);
        let has = self.contains_key(&junk);
        if !has {
            m.insert(junk.clone(), V::gen(r, 0));
        }
        for (k, v) in ps {
            m.insert(k.clone(), V::gen(r, 0));
            m.insert(k, v);
        }
        if !has {
            m.remove(&junk);
        }
        m
    }
    fn mutate(&self, r: &mut Rng) -> Self {
        let mut m = self.clone();
        match r.below(3) {
            0 => {
                m.insert(K::gen(r, 1), V::gen(r, 1));
            }
            1 if !m.is_empty() => {
                let k = m.keys().nth(r.below(m.len())).unwrap().clone();
                m.remove(&k);
            }
            _ => {
                if m.is_empty() {
                    m.insert(K::gen(r, 1), V::gen(r, 1));
                } else {
                    let k = m.keys().nth(r.below(m.len())).unwrap().clone();
                    if r.chance(1, 2) {
                        let v = m[&k].mutate(r);
                        m.insert(k, v);
                    } else {
                        let v = m.remove(&k).unwrap();
                        m.insert(k.mutate(r), v);
                    }
                }
            }
        }
        m
    }
}

impl<T: U + Ord> U for BTreeSet<T> {
    fn ty() -> String {
        format!("(bset {})", T::ty())
    }
    fn sx(&self) -> String {
        crate::sx::list(self.iter().map(|x| x.sx()))
    }
    fn graph(&self, g: &mut Graph) {
        for x in self {
            x.graph(g)
        }
    }
    fn gen(r: &mut Rng, d: usize) -> Self {
        (0..gen_len(r, d)).map(|_| T::gen(r, sub(d))).collect()
    }
    fn rebuild(&self, r: &mut Rng) -> Self {
        let mut xs: Vec<T> = self.iter().map(|x| x.rebuild(r)).collect();
        r.shuffle(&mut xs);
        let mut s = BTreeSet::new();
        for x in xs {
            s.insert(x.clone());
            s.insert(x);
        }
        s
    }
    fn mutate(&self, r: &mut Rng) -> Self {
        let mut s = self.clone();
        if !s.is_empty() && r.chance(1, 2) {
            let k = s.iter().nth(r.below(s.len())).unwrap().clone();
            s.remove(&k);
            if r.chance(1, 2) {
                s.insert(k.mutate(r));
            }
        } else {
            s.insert(T::gen(r, 1));
        }
        s
    }
    fn elem_out(&mut self, r: &mut Rng) -> Option<Box<dyn Any>> {
        if self.is_empty() {
            return None;
        }
        let k = self.iter().nth(r.below(self.len())).unwrap().clone();
        self.remove(&k);
        Some(Box::new(k))
    }
    fn elem_in(&mut self, e: &dyn Any) -> bool {
        match e.downcast_ref::<T>() {
            Some(x) => self.insert(x.clone()),
            None => false,
        }
    }
}

// ---------------------------------------------------------------- hash-table collections

fn elem_entry<T: U>(x: &T, g: &mut Graph) {
    g.insert(toks_sx(&record(x)), stateright::verif::stable_hash(x));
    x.graph(g);
}
fn pair_entry<K: U, V: U>(k: &K, v: &V, g: &mut Graph) {
    // the inner hasher is fed `k.hash(); v.hash()` — exactly what hashing the tuple of references does
    let mut t = record(k);
    t.extend(record(v));
    g.insert(toks_sx(&t), stateright::verif::stable_hash(&(k, v)));
    k.graph(g);
    v.graph(g);
}

impl<T: U + Eq, S: BuildHasher + Default + Clone + 'static> U for HashableHashSet<T, S> {
    fn ty() -> String {
        format!("(hset {})", T::ty())
    }
    fn sx(&self) -> String {
        crate::sx::list(self.iter().map(|x| x.sx()))
    }
    fn graph(&self, g: &mut Graph) {
        for x in self.iter() {
            elem_entry(x, g)
        }
    }
    fn gen(r: &mut Rng, d: usize) -> Self {
        let mut s = HashableHashSet::with_hasher(S::default());
        for _ in 0..gen_len(r, d) {
            s.insert(T::gen(r, sub(d)));
        }
        s
    }
    fn rebuild(&self, r: &mut Rng) -> Self {
        let mut xs: Vec<T> = self.iter().map(|x| x.rebuild(r)).collect();
        r.shuffle(&mut xs);
        // a fresh table: `S::default()` is seeded differently for every instance (ahash / std RandomState)
        let mut s = match r.below(3) {
            0 => HashableHashSet::with_hasher(S::default()),
            1 => HashableHashSet::with_capacity_and_hasher(1 + r.below(200), S::default()),
            _ => {
                let mut s: HashableHashSet<T, S> = xs.iter().cloned().collect();
                s.shrink_to_fit();
                s
            }
        };
        let junk: Vec<T> = (0..r.below(3)).map(|_| T::gen(r, 1)).filter(|j| !self.contains(j)).collect();
        for j in &junk {
            s.insert(j.clone());
        }
        for x in xs {
            s.insert(x.clone());
            s.insert(x);
        }
        for j in &junk {
            s.remove(j);
        }
        s
    }
    fn mutate(&self, r: &mut Rng) -> Self {
        let mut s = self.clone();
        if !s.is_empty() && r.chance(1, 2) {
            let k = s.iter().nth(r.below(s.len())).unwrap().clone();
            s.remove(&k);
            if r.chance(1, 2) {
                s.insert(k.mutate(r));
            }
        } else {
            s.insert(T::gen(r, 1));
        }
        s
    }
    fn elem_out(&mut self, r: &mut Rng) -> Option<Box<dyn Any>> {
        if self.is_empty() {
            return None;
        }
        let k = self.iter().nth(r.below(self.len())).unwrap().clone();
        self.remove(&k);
        Some(Box::new(k))
    }
    fn elem_in(&mut self, e: &dyn Any) -> bool {
        match e.downcast_ref::<T>() {
            Some(x) => self.insert(x.clone()),
            None => false,
        }
    }
}

impl<K: U + Eq, V: U, S: BuildHasher + Default + Clone + 'static> U for HashableHashMap<K, V, S> {
    fn ty() -> String {
        format!("(hmap {} {})", K::ty(), V::ty())
    }
    fn sx(&self) -> String {
        crate::sx::list(self.iter().map(|(k, v)| format!("({} {})", k.sx(), v.sx())))
    }
    fn graph(&self, g: &mut Graph) {
        for (k, v) in self.iter() {
            pair_entry(k, v, g)
        }
    }
    fn gen(r: &mut Rng, d: usize) -> Self {
        let mut m = HashableHashMap::with_hasher(S::default());
        for _ in 0..gen_len(r, d) {
            m.insert(K::gen(r, sub(d)), V::gen(r, sub(d)));
        }
        m
    }
    fn rebuild(&self, r: &mut Rng) -> Self {
        let mut ps: Vec<(K, V)> = self.iter().map(|(k, v)| (k.rebuild(r), v.rebuild(r))).collect();
        r.shuffle(&mut ps);
        let mut m = match r.below(3) {
            0 => HashableHashMap::with_hasher(S::default()),
            1 => HashableHashMap::with_capacity_and_hasher(1 + r.below(200), S::default()),
            _ => ps.iter().cloned().collect(),
        };
        let junk: Vec<K> = (0..r.below(3)).map(|_| K::gen(r, 1)).filter(|j| !self.contains_key(j)).collect();
        for j in &junk {
            m.insert(j.clone(), V::gen(r, 0));
        }
        for (k, v) in ps {
            m.insert(k.clone(), V::gen(r, 0));
            m.insert(k, v);
        }
        for j in &junk {
            m.remove(j);
        }
        m
    }
    fn mutate(&self, r: &mut Rng) -> Self {
        let mut m = self.clone();
        match r.below(3) {
            0 => {
                m.insert(K::gen(r, 1), V::gen(r, 1));
            }
            1 if !m.is_empty() => {
                let k = m.keys().nth(r.below(m.len())).unwrap().clone();
                m.remove(&k);
            }
            _ => {
                if m.is_empty() {
                    m.insert(K::gen(r, 1), V::gen(r, 1));
                } else {
                    let k = m.keys().nth(r.below(m.len())).unwrap().clone();
                    if r.chance(1, 2) {
                        let v = m[&k].mutate(r);
                        m.insert(k, v);
                    } else {
                        let v = m.remove(&k).unwrap();
                        m.insert(k.mutate(r), v);
                    }
                }
            }
        }
        m
    }
    fn elem_out(&mut self, r: &mut Rng) -> Option<Box<dyn Any>> {
        if self.is_empty() {
            return None;
        }
        let k = self.keys().nth(r.below(self.len())).unwrap().clone();
        let v = self.remove(&k).unwrap();
        Some(Box::new((k, v)))
    }
    fn elem_in(&mut self, e: &dyn Any) -> bool {
        match e.downcast_ref::<(K, V)>() {
            Some((k, v)) => self.insert(k.clone(), v.clone()).is_none(),
            None => false,
        }
    }
}

/// `Timers<T>`: only `new`/`set`/`cancel`/`cancel_all` exist
pub type Timers<T> = stateright::actor::Timers<T>;

impl<T: U + Eq> U for Timers<T> {
    fn ty() -> String {
        format!("(timers {})", T::ty())
    }
    fn sx(&self) -> String {
        crate::sx::list(self.iter().map(|x| x.sx()))
    }
    fn graph(&self, g: &mut Graph) {
        for x in self.iter() {
            elem_entry(x, g)
        }
    }
    fn gen(r: &mut Rng, d: usize) -> Self {
        let mut s = Timers::new();
        for _ in 0..gen_len(r, d) {
            s.set(T::gen(r, sub(d)));
        }
        s
    }
    fn rebuild(&self, r: &mut Rng) -> Self {
        let mut xs: Vec<T> = self.iter().map(|x| x.rebuild(r)).collect();
        r.shuffle(&mut xs);
        let mut s = Timers::new();
        if r.chance(1, 3) {
            for _ in 0..3 {
                s.set(T::gen(r, 1));
            }
            s.cancel_all();
        }
        let junk: Vec<T> = (0..r.below(3)).map(|_| T::gen(r, 1)).filter(|j| !self.iter().any(|x| x == j)).collect();
        for j in &junk {
            s.set(j.clone());
        }
        for x in xs {
            s.set(x.clone());
            s.set(x);
        }
        for j in &junk {
            s.cancel(j);
        }
        s
    }
    fn mutate(&self, r: &mut Rng) -> Self {
        let mut s = self.clone();
        let n = s.iter().count();
        if n > 0 && r.chance(1, 2) {
            let k = s.iter().nth(r.below(n)).unwrap().clone();
            s.cancel(&k);
            if r.chance(1, 2) {
                s.set(k.mutate(r));
            }
        } else {
            s.set(T::gen(r, 1));
        }
        s
    }
    fn elem_out(&mut self, r: &mut Rng) -> Option<Box<dyn Any>> {
        let n = self.iter().count();
        if n == 0 {
            return None;
        }
        let k = self.iter().nth(r.below(n)).unwrap().clone();
        self.cancel(&k);
        Some(Box::new(k))
    }
    fn elem_in(&mut self, e: &dyn Any) -> bool {
        match e.downcast_ref::<T>() {
            Some(x) => self.set(x.clone()),
            None => false,
        }
    }
}

// ---------------------------------------------------------------- vector clocks

/// components of a clock, read back through Display (the inner Vec is private)
pub fn clock_comps(c: &VectorClock) -> Vec<u32> {
    let s = format!("{}", c);
    let inner = s.trim_start_matches('<').trim_end_matches("...>");
    inner.split(", ").filter(|x| !x.is_empty()).map(|x| x.parse().unwrap()).collect()
}

impl U for VectorClock {
    fn ty() -> String {
        "vclock".into()
    }
    fn sx(&self) -> String {
        crate::sx::nums(clock_comps(self))
    }
    fn gen(r: &mut Rng, _d: usize) -> Self {
        let n = r.below(5);
        VectorClock::from(
            (0..n)
                .map(|_| match r.below(8) {
                    0..=2 => 0,
                    3 => u32::MAX,
                    4 => 256,
                    _ => r.below(3) as u32,
                })
                .collect::<Vec<u32>>(),
        )
    }
    fn rebuild(&self, r: &mut Rng) -> Self {
        let mut v = clock_comps(self);
        if r.chance(1, 2) {
            for _ in 0..r.below(4) {
                v.push(0);
            }
        } else {
            while v.last() == Some(&0) && r.chance(2, 3) {
                v.pop();
            }
        }
        VectorClock::from(v)
    }
    fn mutate(&self, r: &mut Rng) -> Self {
        let mut v = clock_comps(self);
        match r.below(4) {
            0 => v.push(1 + r.below(2) as u32),
            1 => v.push(0), // equal modulo padding
            2 if !v.is_empty() => {
                let i = r.below(v.len());
                v[i] = v[i].wrapping_add(1);
            }
            _ => {
                if v.is_empty() {
                    v.push(1)
                } else {
                    let i = r.below(v.len());
                    v[i] = if v[i] == 0 { 1 } else { 0 };
                }
            }
        }
        VectorClock::from(v)
    }
}

// ---------------------------------------------------------------- envelopes and networks

impl<M: U + Eq> U for Envelope<M> {
    fn ty() -> String {
        format!("(env {})", M::ty())
    }
    fn sx(&self) -> String {
        format!("({} ({} {}))", self.src.sx(), self.dst.sx(), self.msg.sx())
    }
    fn graph(&self, g: &mut Graph) {
        self.msg.graph(g)
    }
    fn gen(r: &mut Rng, d: usize) -> Self {
        Envelope { src: Id::gen(r, 0), dst: Id::gen(r, 0), msg: M::gen(r, sub(d)) }
    }
    fn rebuild(&self, r: &mut Rng) -> Self {
        Envelope { src: self.src, dst: self.dst, msg: self.msg.rebuild(r) }
    }
    fn mutate(&self, r: &mut Rng) -> Self {
        let mut e = self.clone();
        match r.below(4) {
            0 => e.src = e.src.mutate(r),
            1 => e.dst = e.dst.mutate(r),
            2 => std::mem::swap(&mut e.src, &mut e.dst),
            _ => e.msg = e.msg.mutate(r),
        }
        if e == *self {
            e.src = e.src.mutate(r);
        }
        e
    }
}

/// all envelopes of a network with multiplicity (ordered: flow by flow, queue order)
pub fn net_envelopes<M: Clone + Eq + Hash>(n: &Network<M>) -> Vec<Envelope<M>> {
    match n {
        Network::UnorderedDuplicating(s, _) => s.iter().cloned().collect(),
        Network::UnorderedNonDuplicating(m) => {
            m.iter().flat_map(|(e, c)| std::iter::repeat(e.clone()).take((*c).min(8))).collect()
        }
        Network::Ordered(m) => m
            .iter()
            .flat_map(|((s, d), q)| q.iter().map(move |x| Envelope { src: *s, dst: *d, msg: x.clone() }))
            .collect(),
    }
}

impl<M: U + Eq> U for Network<M> {
    fn ty() -> String {
        format!("(net {})", M::ty())
    }
    fn sx(&self) -> String {
        match self {
            Network::UnorderedDuplicating(s, last) => format!("(0 ({} {}))", s.sx(), last.sx()),
            Network::UnorderedNonDuplicating(m) => format!("(1 {})", m.sx()),
            Network::Ordered(m) => format!("(2 {})", m.sx()),
        }
    }
    fn graph(&self, g: &mut Graph) {
        match self {
            Network::UnorderedDuplicating(s, last) => {
                s.graph(g);
                last.graph(g);
            }
            Network::UnorderedNonDuplicating(m) => m.graph(g),
            Network::Ordered(m) => m.graph(g),
        }
    }
    fn gen(r: &mut Rng, d: usize) -> Self {
        let envs: Vec<Envelope<M>> = (0..r.below(4)).map(|_| Envelope::gen(r, d)).collect();
        match r.below(3) {
            0 => {
                let last = if r.chance(1, 2) { Some(Envelope::gen(r, d)) } else { None };
                Network::new_unordered_duplicating_with_last_msg(envs, last)
            }
            1 => {
                let mut envs = envs;
                if !envs.is_empty() && r.chance(1, 2) {
                    envs.push(envs[0].clone());
                }
                Network::new_unordered_nonduplicating(envs)
            }
            _ => Network::new_ordered(envs),
        }
    }
    fn rebuild(&self, r: &mut Rng) -> Self {
        match self {
            Network::UnorderedDuplicating(s, last) => {
                if r.chance(1, 2) {
                    // through the constructor (stable-seeded table), sends in another order, some twice
                    let mut envs: Vec<Envelope<M>> = s.iter().map(|e| e.rebuild(r)).collect();
                    if !envs.is_empty() {
                        envs.push(envs[r.below(envs.len())].clone());
                    }
                    r.shuffle(&mut envs);
                    Network::new_unordered_duplicating_with_last_msg(envs, last.rebuild(r))
                } else {
                    Network::UnorderedDuplicating(s.rebuild(r), last.rebuild(r))
                }
            }
            Network::UnorderedNonDuplicating(m) => {
                if r.chance(1, 2) && m.values().all(|c| (1..=8).contains(c)) {
                    let mut envs = net_envelopes(self);
                    r.shuffle(&mut envs);
                    Network::new_unordered_nonduplicating(envs)
                } else {
                    Network::UnorderedNonDuplicating(m.rebuild(r))
                }
            }
            Network::Ordered(m) => {
                if r.chance(1, 2) {
                    // interleave the flows differently, keeping every flow's own order
                    let mut qs: Vec<Vec<Envelope<M>>> = m
                        .iter()
                        .map(|((s, d), q)| q.iter().map(|x| Envelope { src: *s, dst: *d, msg: x.clone() }).collect())
                        .collect();
                    let mut envs = vec![];
                    while qs.iter().any(|q| !q.is_empty()) {
                        let i = r.below(qs.len());
                        if !qs[i].is_empty() {
                            envs.push(qs[i].remove(0));
                        }
                    }
                    Network::new_ordered(envs)
                } else {
                    Network::Ordered(m.rebuild(r))
                }
            }
        }
    }
    fn mutate(&self, r: &mut Rng) -> Self {
        let mut n = self.clone();
        let choice = r.below(6);
        match &mut n {
            // one more / one fewer in-flight message
            Network::UnorderedDuplicating(s, last) => match choice {
                0 | 1 => {
                    s.insert(Envelope::gen(r, 1));
                }
                2 => *s = s.mutate(r),
                3 => *last = last.mutate(r),
                4 => return Network::new_unordered_nonduplicating(net_envelopes(self)),
                _ => return Network::new_ordered(net_envelopes(self)),
            },
            Network::UnorderedNonDuplicating(m) => match choice {
                0 | 1 => {
                    *m.entry(Envelope::gen(r, 1)).or_insert(0) += 1;
                }
                2 if !m.is_empty() => {
                    let k = m.keys().nth(r.below(m.len())).unwrap().clone();
                    *m.get_mut(&k).unwrap() += 1;
                }
                3 => *m = m.mutate(r),
                4 => return Network::new_unordered_duplicating(net_envelopes(self)),
                _ => return Network::new_ordered(net_envelopes(self)),
            },
            Network::Ordered(m) => match choice {
                0 | 1 => {
                    let e: Envelope<M> = Envelope::gen(r, 1);
                    m.entry((e.src, e.dst)).or_insert_with(VecDeque::new).push_back(e.msg);
                }
                2 | 3 if !m.is_empty() => {
                    // reorder within a flow / move a message to another flow
                    let k = *m.keys().nth(r.below(m.len())).unwrap();
                    let q = m.get_mut(&k).unwrap();
                    if q.len() >= 2 && choice == 2 {
                        q.swap(0, 1);
                    } else {
                        let x = q.pop_back().unwrap();
                        if q.is_empty() {
                            m.remove(&k);
                        }
                        m.entry((k.1, k.0)).or_insert_with(VecDeque::new).push_front(x);
                    }
                }
                4 => return Network::new_unordered_duplicating(net_envelopes(self)),
                _ => return Network::new_unordered_nonduplicating(net_envelopes(self)),
            },
        }
        n
    }
}

// ---------------------------------------------------------------- actor-system states

/// an actor type that only names its associated types (handlers are never called)
pub struct GA<S, M, T, R>(PhantomData<(S, M, T, R)>);
impl<S: U, M: U + Eq, T: U + Eq, R: U + Eq> Actor for GA<S, M, T, R> {
    type Msg = M;
    type State = S;
    type Timer = T;
    type Random = R;
    fn on_start(&self, _id: Id, _o: &mut Out<Self>) -> S {
        unreachable!()
    }
}

pub fn choices_sx<R: U>(cs: &[RandomChoices<R>]) -> String {
    crate::sx::list(cs.iter().map(|c| c.map.sx()))
}

/// S-expression of a state of ANY actor type, in the field order of `(state s m t r h)`
pub fn state_sx<A: Actor, H: U>(st: &ActorModelState<A, H>) -> String
where
    A::State: U,
    A::Msg: U,
    A::Timer: U,
    A::Random: U,
{
    format!(
        "({} ({} ({} ({} ({} {})))))",
        crate::sx::list(st.actor_states.iter().map(|x| x.sx())),
        st.history.sx(),
        st.timers_set.sx(),
        st.network.sx(),
        st.crashed.sx(),
        choices_sx(&st.random_choices)
    )
}
pub fn state_ty<A: Actor, H: U>() -> String
where
    A::State: U,
    A::Msg: U,
    A::Timer: U,
    A::Random: U,
{
    format!("(state {} {} {} {} {})", A::State::ty(), A::Msg::ty(), A::Timer::ty(), A::Random::ty(), H::ty())
}
pub fn state_graph<A: Actor, H: U>(st: &ActorModelState<A, H>, g: &mut Graph)
where
    A::State: U,
    A::Msg: U,
    A::Timer: U,
    A::Random: U,
{
    for x in &st.actor_states {
        x.graph(g);
    }
    st.history.graph(g);
    st.timers_set.graph(g);
    st.network.graph(g);
    for c in &st.random_choices {
        c.map.graph(g);
    }
}

impl<S: U, M: U + Eq, T: U + Eq, R: U + Eq, H: U> U for ActorModelState<GA<S, M, T, R>, H> {
    fn ty() -> String {
        state_ty::<GA<S, M, T, R>, H>()
    }
    fn sx(&self) -> String {
        state_sx(self)
    }
    fn graph(&self, g: &mut Graph) {
        state_graph(self, g)
    }
    fn gen(r: &mut Rng, d: usize) -> Self {
        // mostly 0-3 actors; one state in 25 is a BIG system of 60-140 actors (per-actor vectors longer than a machine word
        // has bits: a crash flag, a timer set or a pending choice far down the vector must still count)
        let n = if r.chance(1, 25) { 60 + r.below(81) } else { r.below(4) };
        ActorModelState {
            actor_states: (0..n).map(|_| Arc::new(S::gen(r, sub(d)))).collect(),
            network: Network::gen(r, sub(d)),
            timers_set: (0..n).map(|_| Timers::gen(r, 1)).collect(),
            random_choices: (0..n)
                .map(|_| {
                    let mut c = RandomChoices::default();
                    if r.chance(1, 3) {
                        for _ in 0..1 + r.below(2) {
                            c.insert(String::gen(r, 0), (0..1 + r.below(2)).map(|_| R::gen(r, 0)).collect());
                        }
                    }
                    c
                })
                .collect(),
            crashed: (0..n).map(|_| r.chance(1, 4)).collect(),
            history: H::gen(r, sub(d)),
        }
    }
    fn rebuild(&self, r: &mut Rng) -> Self {
        let mut cs: Vec<RandomChoices<R>> =
            self.random_choices.iter().map(|c| RandomChoices { map: c.map.rebuild(r) }).collect();
        // padding: actors without pending choices at the end may be absent or over-represented
        if r.chance(1, 2) {
            while cs.last().map(|c| c.map.is_empty()).unwrap_or(false) {
                cs.pop();
            }
        } else {
            for _ in 0..r.below(3) {
                cs.push(RandomChoices::default());
            }
        }
        ActorModelState {
            actor_states: self.actor_states.iter().map(|x| Arc::new(x.rebuild(r))).collect(),
            network: self.network.rebuild(r),
            timers_set: self.timers_set.rebuild(r),
            random_choices: cs,
            crashed: self.crashed.rebuild(r),
            history: self.history.rebuild(r),
        }
    }
    fn mutate(&self, r: &mut Rng) -> Self {
        let mut st = self.clone();
        let n = st.actor_states.len();
        match r.below(9) {
            // big systems: MOVE one crash flag by exactly 64 positions (the two states differ only in WHICH actor is down)
            0 if st.crashed.len() > 64 && r.chance(1, 2) => {
                let i = r.below(st.crashed.len() - 64);
                let (a, b) = (st.crashed[i], st.crashed[i + 64]);
                if a == b { st.crashed[i] = !a; } else { st.crashed.swap(i, i + 64); }
            }
            // flip one crash flag
            0 if n > 0 => {
                let i = r.below(st.crashed.len().max(1)) % st.crashed.len().max(1);
                if st.crashed.is_empty() {
                    st.crashed.push(true);
                } else {
                    st.crashed[i] = !st.crashed[i];
                }
            }
            // add one pending choice
            1 if n > 0 => {
                let i = r.below(n);
                while st.random_choices.len() <= i {
                    st.random_choices.push(RandomChoices::default());
                }
                let mut key = String::gen(r, 0);
                while st.random_choices[i].map.contains_key(&key) {
                    key.push('x');
                }
                st.random_choices[i].insert(key, vec![R::gen(r, 0)]);
            }
            // move the pending choices of one actor to its neighbour / alter one
            2 if st.random_choices.len() >= 2 => {
                let i = r.below(st.random_choices.len() - 1);
                st.random_choices.swap(i, i + 1);
            }
            3 if !st.random_choices.is_empty() => {
                let i = r.below(st.random_choices.len());
                st.random_choices[i].map = st.random_choices[i].map.mutate(r);
            }
            // set one timer on another actor / move a timer
            4 => st.timers_set = st.timers_set.mutate(r),
            // one in-flight message
            5 => st.network = st.network.mutate(r),
            6 if n > 0 => {
                let i = r.below(n);
                st.actor_states[i] = Arc::new(st.actor_states[i].mutate(r));
            }
            7 => st.history = st.history.mutate(r),
            _ => {
                // one more actor
                st.actor_states.push(Arc::new(S::gen(r, 1)));
                st.timers_set.push(Timers::new());
                st.random_choices.push(RandomChoices::default());
                st.crashed.push(false);
            }
        }
        st
    }
}
