//! S-expression text helpers (wire format shared with the Lean driver).
use std::fmt::Display;

pub fn list<I: IntoIterator<Item = String>>(items: I) -> String {
    let v: Vec<String> = items.into_iter().collect();
    format!("({})", v.join(" "))
}
pub fn nums<T: Display, I: IntoIterator<Item = T>>(items: I) -> String {
    list(items.into_iter().map(|x| x.to_string()))
}
pub fn b(x: bool) -> String {
    if x { "t".into() } else { "f".into() }
}
pub fn opt<T, F: Fn(&T) -> String>(x: &Option<T>, f: F) -> String {
    match x {
        None => "none".into(),
        Some(v) => format!("(some {})", f(v)),
    }
}
pub fn pair(a: String, b: String) -> String {
    format!("({} {})", a, b)
}
