//! C08 — linearizability tester: implementation side of the correspondence + oracle inputs.
//! Every history is run through the real `LinearizabilityTester`; the model must reproduce every
//! result text, `is_consistent`, `serialized_history` (identical), `len` and `Debug`; the oracle
//! re-decides the history by brute force from the definition.
use srh::out::*;
use srh::rng::Rng;
use srh::sem_util::*;
use stateright::semantics::register::Register;

fn main() {
    quiet_panics();
    let mut out = Out::new();
    let mut r = Rng::new(seed());
    let th = thorough();
    // 1. exhaustive small scope over Register with two values
    let init = Register(0u8);
    let (nth, len) = if th { (3, 5) } else { (3, 4) };
    let mut n = 0u64;
    exhaustive_register(nth, len, &mut |h| {
        n += 1;
        emit_history(&mut out, &init, h, 1, "x-");
        if n % 20000 == 1 { out.sample(&format!("exhaustive: (reg 0) {}", calls_sx::<Register<u8>>(h))); }
    });
    if !th {
        // quick tier: the 5-event layer with two threads
        exhaustive_register(2, 5, &mut |h| {
            if h.len() == 5 { emit_history(&mut out, &init, h, 1, "x-"); }
        });
    }
    // 2. seeded histories, all object kinds
    seeded(&mut out, &mut r, arg_u64("--n", if th { 200_000 } else { 12_000 }) as usize, 1);
    out.finish();
}
