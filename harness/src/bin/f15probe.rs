//! F15 probe: ordered reliable link, resend order. A sender wrapped in the ORL sends 4 messages to one peer on start; on
//! an ORDERED network the resend timer then re-sends everything pending in the iteration order of a hash map. Two
//! instances of the same model, same seed, same chooser, one thread: the network contents after the first timeout are
//! compared.
use stateright::actor::ordered_reliable_link::*;
use stateright::actor::*;
use stateright::*;
use std::borrow::Cow;
use std::sync::{Arc, Mutex};
#[derive(Clone)]
struct S;
impl Actor for S {
    type Msg = u8; type State = u8; type Timer = (); type Random = ();
    fn on_start(&self, id: Id, o: &mut Out<Self>) -> u8 {
        if usize::from(id) == 0 { for m in 1..=4u8 { o.send(Id::from(1), m); } }
        0
    }
    fn on_msg(&self, _id: Id, state: &mut Cow<u8>, _src: Id, msg: u8, _o: &mut Out<Self>) {
        *state.to_mut() = msg;
    }
}
fn flows(seed: u64) -> Vec<String> {
    let seen: Arc<Mutex<Vec<String>>> = Arc::new(Mutex::new(vec![]));
    let s2 = seen.clone();
    let _ = ActorModel::new((), ())
        .actor(ActorWrapper::with_default_timeout(S)).actor(ActorWrapper::with_default_timeout(S))
        .init_network(Network::new_ordered([]))
        .property(Expectation::Always, "true", |_, _| true)
        .checker().threads(1).target_state_count(40).target_max_depth(4)
        .visitor(move |p: Path<ActorModelState<ActorWrapper<S>, ()>, ActorModelAction<MsgWrapper<u8>, TimerWrapper<()>, ()>>| {
            let acts = p.clone().into_actions();
            // the state right after the FIRST action being the sender's resend timeout
            if acts.len() == 1 && format!("{:?}", acts[0]).contains("Timeout(Id(0)") {
                s2.lock().unwrap().push(format!("{:?}", p.last_state().network));
            }
        })
        .spawn_simulation(seed, UniformChooser).join();
    let v = seen.lock().unwrap().clone();
    v
}
fn main() {
    let mut diff = 0; let mut seen = 0;
    for seed in 0..200u64 {
        let a = flows(seed);
        let b = flows(seed);
        if !a.is_empty() && !b.is_empty() {
            seen += 1;
            if a[0] != b[0] { diff += 1; if diff <= 3 { println!("seed {}:\n  {}\n  {}", seed, a[0], b[0]); } }
        } else if a.is_empty() != b.is_empty() { diff += 1; }
    }
    println!("differing replays: {}/{} (of 200 seeds)", diff, seen);
}
