//! C10 (a) plans, reindex, rewrite over containers and (b) `Representative for ActorModelState`:
//! implementation side. Model requests carry the implementation's result (the driver answers `ok` when its
//! own result is the same value, hash tables compared as sets); oracle requests: `o-plan` (the plan is the
//! stable sorting permutation), `o-orbit` (brute force over all n! permutations that ONE permutation
//! explains the representative).
use srh::hash_util::*;
use srh::out::*;
use srh::rng::Rng;
use srh::sx;
use stateright::actor::{ActorModelState, Envelope, Id, Network, RandomChoices};
use stateright::actor::write_once_register::{WORegisterActorState, WORegisterMsg};
use stateright::util::{DenseNatMap, HashableHashMap, HashableHashSet};
use stateright::{Representative, Rewrite, RewritePlan};
use std::collections::{BTreeMap, BTreeSet, VecDeque};
use std::panic::{catch_unwind, AssertUnwindSafe};
use std::sync::Arc;

type Plan = RewritePlan<Id, DenseNatMap<Id, Id>>;

fn plan_list(plan: &Plan, n: usize) -> Vec<usize> {
    (0..n).map(|i| usize::from(plan.rewrite(&Id::from(i)))).collect()
}
fn set_ids(n: usize) {
    ID_MOD.with(|m| m.set(n));
}

/// a vector with ties: few distinct values, repeated
fn tied<T: U>(r: &mut Rng, n: usize) -> Vec<T> {
    let pool: Vec<T> = (0..1 + r.below(3)).map(|_| T::gen(r, 2)).collect();
    (0..n).map(|_| if r.chance(4, 5) { r.pick(&pool).clone() } else { T::gen(r, 2) }).collect()
}

fn plans<T: U + Ord>(out: &mut Out, r: &mut Rng, count: usize) {
    for c in 0..count {
        // mostly short vectors; every eighth one is LONG (20..120 values with many ties): std's sort routines switch
        // algorithm with the length, and an unstable sort only shows on long inputs with ties
        let n = if c % 8 == 7 { 20 + r.below(100) } else { r.below(7) };
        if n >= 20 { out.stat("plans-long-20-to-120"); }
        set_ids(n);
        let vs: Vec<T> = tied(r, n);
        let plan = Plan::from_values_to_sort(&vs);
        let pl = plan_list(&plan, n);
        let req_vs = vs.sx();
        out.m(&format!("plan {} {}", T::ty(), req_vs), &sx::nums(&pl));
        out.o(&format!("o-plan {} {} {}", T::ty(), req_vs, sx::nums(&pl)));
        out.stat(&format!("plan-len-{}", n));
        let mut sorted = vs.clone();
        sorted.sort();
        sorted.dedup();
        if sorted.len() < n { out.stat("plans-with-ties"); }
        out.distinct(&("plan", T::ty(), req_vs.clone()));
        if c == 0 { out.sample(&format!("plan {} {} => {}", T::ty(), req_vs, sx::nums(&pl))); }
        // direct law on the implementation: reindexing the sorted-by values themselves sorts them
        if !T::ty().contains("id") {
            // (only for id-free values, whose rewrite is the identity)
        }
        reindex_case::<T, Id>(out, r, &vs, &plan);
        reindex_case::<T, (Id, u8)>(out, r, &vs, &plan);
        reindex_case::<T, Vec<Id>>(out, r, &vs, &plan);
        reindex_case::<T, u8>(out, r, &vs, &plan);
        reindex_case::<T, Option<Id>>(out, r, &vs, &plan);
        reindex_case::<T, HashableHashSet<Id>>(out, r, &vs, &plan);
    }
}

fn reindex_case<T: U, X: U + Rewrite<Id>>(out: &mut Out, r: &mut Rng, vs: &[T], plan: &Plan) {
    let n = vs.len();
    // mostly the right length and ids in range; sometimes a shorter / longer collection or an id outside the plan
    let len = match r.below(10) {
        0 if n > 0 => n - 1,
        1 => n + 1,
        _ => n,
    };
    set_ids(if r.chance(1, 10) { n + 1 } else { n });
    let xs: Vec<X> = (0..len).map(|_| X::gen(r, 2)).collect();
    set_ids(n);
    let res = catch_unwind(AssertUnwindSafe(|| if r.chance(1, 2) {
        plan.reindex(&xs)
    } else {
        plan.reindex(&xs.iter().cloned().collect::<VecDeque<X>>()).into_iter().collect::<Vec<X>>()
    }));
    let res_sx = match &res {
        Ok(v) => { out.stat("reindex-ok"); v.sx() }
        Err(_) => { out.stat("reindex-panic"); "panic".into() }
    };
    out.m(&format!("reindex {} {} {} {} {}", T::ty(), vs.to_vec().sx(), X::ty(), xs.sx(), res_sx), "ok");
    // direct laws on the implementation (C10_reindex): result[plan i] = rewrite(xs[i]), length = plan length
    if let Ok(v) = &res {
        if len >= n {
            let pl = plan_list(plan, n);
            if v.len() != n { out.v("reindex-length", &format!("plan {:?} xs {} result {}", pl, xs.sx(), v.sx())); }
            for i in 0..n {
                if v[pl[i]] != xs[i].rewrite(plan) {
                    out.v("reindex-law", &format!("plan {:?} xs {} result {} at {}", pl, xs.sx(), v.sx(), i));
                }
            }
        }
    }
    out.distinct(&("reindex", X::ty(), vs.to_vec().sx(), xs.sx()));
}

fn rewrites<X: U + Rewrite<Id>>(out: &mut Out, r: &mut Rng, count: usize) {
    for c in 0..count {
        let n = 1 + r.below(5);
        set_ids(n);
        let vs: Vec<u8> = tied(r, n);
        let plan = Plan::from_values_to_sort(&vs);
        let pl = plan_list(&plan, n);
        set_ids(if r.chance(1, 8) { n + 1 } else { n });
        let x = X::gen(r, 3);
        set_ids(n);
        let res = catch_unwind(AssertUnwindSafe(|| x.rewrite(&plan)));
        let res_sx = match &res {
            Ok(v) => { out.stat("rewrite-ok"); v.sx() }
            Err(_) => { out.stat("rewrite-panic"); "panic".into() }
        };
        let req = format!("rewrite {} {} {} {}", sx::nums(&pl), X::ty(), x.sx(), res_sx);
        out.m(&req, "ok");
        out.distinct(&("rewrite", X::ty(), pl.clone(), x.sx()));
        if c == 0 { out.sample(&req); }
    }
    let t = X::ty();
    out.stat_n(&format!("rewrite-type {}", if t.len() > 60 { &t[..60] } else { &t }), count as u64);
}

/// DenseNatMap<Id, V>: keys AND values move (model: SR.DNM.rewriteByPlan, shared with C20)
fn dnm_rewrites(out: &mut Out, r: &mut Rng, count: usize) {
    for _ in 0..count {
        let n = 1 + r.below(5);
        let vs: Vec<u8> = tied(r, n);
        let plan = Plan::from_values_to_sort(&vs);
        let pl = plan_list(&plan, n);
        let len = match r.below(8) { 0 => n + 1, 1 if n > 0 => n - 1, _ => n };
        if r.chance(1, 2) {
            let m: DenseNatMap<Id, Id> = (0..len).map(|_| { let b = if r.chance(1, 10) { n + 1 } else { n }; Id::from(r.below(b)) }).collect::<Vec<Id>>().into();
            let res = catch_unwind(AssertUnwindSafe(|| m.rewrite(&plan)));
            let res_sx = match &res { Ok(v) => sx::nums(v.values().map(|i| usize::from(*i))), Err(_) => "panic".into() };
            out.m(&format!("dnm-rewrite {} {} kv", sx::nums(&pl), sx::nums(m.values().map(|i| usize::from(*i)))), &res_sx);
            out.stat(if res.is_ok() { "dnm-rewrite-ok" } else { "dnm-rewrite-panic" });
        } else {
            let m: DenseNatMap<Id, u8> = (0..len).map(|_| r.below(4) as u8).collect::<Vec<u8>>().into();
            let res = catch_unwind(AssertUnwindSafe(|| m.rewrite(&plan)));
            let res_sx = match &res { Ok(v) => sx::nums(v.values()), Err(_) => "panic".into() };
            out.m(&format!("dnm-rewrite {} {} k", sx::nums(&pl), sx::nums(m.values())), &res_sx);
            out.stat(if res.is_ok() { "dnm-rewrite-ok" } else { "dnm-rewrite-panic" });
        }
    }
}

fn gen_state<S: U, M: U + Eq, T: U + Eq, R: U + Eq, H: U>(r: &mut Rng, n: usize, id_bound: usize, lens: [usize; 3]) -> ActorModelState<GA<S, M, T, R>, H> {
    set_ids(id_bound);
    let pool: Vec<S> = (0..1 + r.below(2)).map(|_| S::gen(r, 2)).collect();
    ActorModelState {
        actor_states: (0..n).map(|_| Arc::new(if r.chance(3, 4) { r.pick(&pool).clone() } else { S::gen(r, 2) })).collect(),
        network: Network::gen(r, 2),
        timers_set: (0..lens[0]).map(|_| Timers::gen(r, 1)).collect(),
        random_choices: (0..lens[1])
            .map(|_| {
                let mut c = RandomChoices::default();
                if r.chance(1, 2) {
                    for _ in 0..1 + r.below(2) {
                        c.insert(String::gen(r, 0), (0..1 + r.below(2)).map(|_| R::gen(r, 0)).collect());
                    }
                }
                c
            })
            .collect(),
        crashed: (0..lens[2]).map(|_| r.chance(1, 3)).collect(),
        history: H::gen(r, 2),
    }
}

fn states<S, M, T, R, H>(out: &mut Out, r: &mut Rng, count: usize, oracle: bool)
where
    S: U + Ord + Rewrite<Id>,
    M: U + Eq + Rewrite<Id>,
    T: U + Eq,
    R: U + Eq + Rewrite<Id>,
    H: U + Rewrite<Id>,
{
    let ty = <ActorModelState<GA<S, M, T, R>, H> as U>::ty();
    for c in 0..count {
        let n = if c % 40 == 39 { 24 + r.below(60) } else if r.chance(1, 15) { 0 } else { 1 + r.below(if thorough() { 5 } else { 4 }) };
        if n >= 24 { out.stat("states-with-24-to-84-actors"); }
        // mostly well-formed states; sometimes an id outside 0..n or a per-actor vector of another length
        let id_bound = if r.chance(1, 12) { n + 1 } else { n };
        let mut lens = [n, n, n];
        if r.chance(1, 12) {
            let k = r.below(3);
            lens[k] = if r.chance(1, 2) && n > 0 { n - 1 } else { n + 1 };
        }
        let st: ActorModelState<GA<S, M, T, R>, H> = gen_state(r, n, id_bound, lens);
        set_ids(n);
        let res = catch_unwind(AssertUnwindSafe(|| st.representative()));
        let res_sx = match &res {
            Ok(v) => { out.stat("representative-ok"); v.sx() }
            Err(_) => { out.stat("representative-panic"); "panic".into() }
        };
        let req = format!("repr {} {} {}", ty, st.sx(), res_sx);
        out.m(&req, "ok");
        // orbit membership by brute force (n! permutations) — n <= 4 keeps it cheap; thorough goes to 5
        if oracle && n <= if thorough() { 5 } else { 4 } {
            out.o(&format!("o-orbit {} {} {}", ty, st.sx(), res_sx));
            out.stat("orbit-oracle-cases");
        }
        out.stat(&format!("state-actors-{}", n));
        let mut ss: Vec<&S> = st.actor_states.iter().map(|a| &**a).collect();
        ss.sort();
        ss.dedup();
        if ss.len() < n { out.stat("states-with-tied-actor-states"); }
        match &st.network {
            Network::UnorderedDuplicating(..) => out.stat("state-net-unordered-dup"),
            Network::UnorderedNonDuplicating(..) => out.stat("state-net-unordered-nondup"),
            Network::Ordered(..) => out.stat("state-net-ordered"),
        }
        if let Ok(v) = &res {
            if *v != st { out.stat("representative-differs-from-state"); }
            // idempotence is NOT claimed (the plan sorts the un-rewritten states); only counted
            if let Ok(v2) = catch_unwind(AssertUnwindSafe(|| v.representative())) {
                if v2 != *v { out.stat("representative-not-idempotent(only-counted)"); }
            }
        }
        out.distinct(&("repr", ty.clone(), st.sx()));
        if c == 0 { out.sample(&req); }
    }
    out.stat_n(&format!("state-type {}", if ty.len() > 70 { &ty[..70] } else { &ty }), count as u64);
}

fn main() {
    quiet_panics();
    let mut out = Out::new();
    out.max_samples = 10;
    let mut r = Rng::new(seed());
    let k = if thorough() { 24 } else { 2 };
    // (a) plans + reindex
    plans::<u8>(&mut out, &mut r, 150 * k);
    plans::<bool>(&mut out, &mut r, 40 * k);
    plans::<(u8, u8)>(&mut out, &mut r, 80 * k);
    plans::<String>(&mut out, &mut r, 80 * k);
    plans::<Option<u8>>(&mut out, &mut r, 60 * k);
    plans::<Vec<u8>>(&mut out, &mut r, 80 * k);
    plans::<(u8, Vec<Id>)>(&mut out, &mut r, 80 * k);
    plans::<BTreeSet<u8>>(&mut out, &mut r, 60 * k);
    plans::<BTreeMap<u8, bool>>(&mut out, &mut r, 40 * k);
    plans::<VecDeque<u8>>(&mut out, &mut r, 40 * k);
    plans::<Id>(&mut out, &mut r, 60 * k);
    plans::<Option<(String, u8)>>(&mut out, &mut r, 40 * k);
    // (a) rewrite over every container type
    macro_rules! rw { ($n:expr; $($t:ty),* $(,)?) => { $( rewrites::<$t>(&mut out, &mut r, $n * k); )* } }
    rw!(40; Id, u8, String, bool, (), (Id, Id), (Id, u8), Option<Id>, Vec<Id>, VecDeque<Id>, Vec<(Id, Id)>, Vec<Vec<Id>>,
        BTreeSet<Id>, BTreeMap<Id, u8>, BTreeMap<Id, Id>, BTreeMap<(Id, Id), VecDeque<Id>>, BTreeMap<u8, Id>, BTreeSet<(Id, u8)>,
        HashableHashSet<Id>, HashableHashSet<(Id, Id)>, HashableHashMap<Id, u8>, HashableHashMap<Id, Id>, HashableHashMap<u8, Vec<Id>>,
        HashableHashSet<Vec<Id>>, Envelope<u8>, Envelope<Id>, Envelope<(Id, u8)>, Vec<Envelope<Id>>, Option<Envelope<Id>>,
        Network<u8>, Network<Id>, Network<(u8, Id)>, Network<Vec<Id>>, Network<Option<Id>>, (Network<Id>, Vec<Id>),
        Arc2<Id>,
        WoState<Id>, WoState<Vec<Id>>, WoState<(u8, Vec<Id>)>, WoState<BTreeSet<Id>>,
        WoMsg<Id, Id>, WoMsg<u8, Vec<Id>>, WoMsg<(Id, u8), Option<Id>>, Network<WoMsg<Id, (Id, Id)>>);
    if CLIENT_CHANGED.load(std::sync::atomic::Ordering::SeqCst) {
        out.v("wo-client-state-rewritten", "WORegisterActorState::Client was changed by rewrite (it carries no ids)");
    }
    dnm_rewrites(&mut out, &mut r, 200 * k);
    // (b) representative of actor-system states
    states::<u8, u8, u8, u8, ()>(&mut out, &mut r, 300 * k, true);
    states::<(u8, Vec<Id>), (Id, u8), u8, Id, Vec<Id>>(&mut out, &mut r, 400 * k, true);
    states::<Option<Id>, Vec<Id>, String, (u8, Id), BTreeMap<Id, bool>>(&mut out, &mut r, 300 * k, true);
    states::<BTreeSet<Id>, Option<Id>, (), Id, HashableHashMap<Id, Vec<Id>>>(&mut out, &mut r, 300 * k, true);
    states::<(bool, Id), Id, (u8, u8), Vec<Id>, Vec<Envelope<Id>>>(&mut out, &mut r, 300 * k, true);
    states::<Vec<Id>, (Id, Id), u8, u8, (BTreeSet<Id>, VecDeque<Id>)>(&mut out, &mut r, 300 * k, true);
    // timer values that carry ids: `Timers::rewrite` clones, so those ids are NOT rewritten (known finding F12).
    // The model follows the code (M agrees); the full-strength orbit oracle reports `timer-ids-not-rewritten`.
    states::<u8, u8, Id, u8, ()>(&mut out, &mut r, 100 * k, true);
    states::<(u8, Id), Id, (Id, u8), u8, Vec<Id>>(&mut out, &mut r, 100 * k, true);
    timer_id_witness(&mut out);
    out.finish();
}

/// The witness of `C10_timer_ids_not_rewritten` on the implementation: two actors with states 1 and 0 (the plan
/// swaps them); actor 0 holds a timer whose VALUE is Id(0). In the representative the timer has moved with its
/// actor to position 1 but still says Id(0) — the image under the permutation would say Id(1).
fn timer_id_witness(out: &mut Out) {
    let mut t0: Timers<Id> = Timers::new();
    t0.set(Id::from(0));
    let st: ActorModelState<GA<u8, u8, Id, u8>, ()> = ActorModelState {
        actor_states: vec![Arc::new(1u8), Arc::new(0u8)],
        network: Network::new_ordered([]),
        timers_set: vec![t0, Timers::new()],
        random_choices: vec![RandomChoices::default(), RandomChoices::default()],
        crashed: vec![false, false],
        history: (),
    };
    let rep = st.representative();
    let moved: Vec<usize> = rep.timers_set[1].iter().map(|i| usize::from(*i)).collect();
    let ty = <ActorModelState<GA<u8, u8, Id, u8>, ()> as U>::ty();
    out.m(&format!("repr {} {} {}", ty, st.sx(), rep.sx()), "ok");
    out.o(&format!("o-orbit {} {} {}", ty, st.sx(), rep.sx()));
    if moved == vec![0] && rep.timers_set[0].iter().count() == 0 {
        out.stat("timer-id-witness:timer-moved-but-its-id-not-rewritten(as-modelled)");
    } else if moved == vec![1] {
        out.stat("timer-id-witness:timer-id-rewritten(code-changed:update-model)");
    } else {
        out.v("timer-id-witness", &format!("unexpected representative {}", rep.sx()));
    }
    out.sample(&format!("timer-id witness: {} => {}", st.sx(), rep.sx()));
}

/// `Arc<T>` as a rewritten value (newtype so that `U` can be implemented here)
#[derive(Clone, Debug, Hash, PartialEq)]
struct Arc2<T>(Arc<T>);
impl<T: U> U for Arc2<T> {
    fn ty() -> String { format!("(arc {})", T::ty()) }
    fn sx(&self) -> String { self.0.sx() }
    fn gen(r: &mut Rng, d: usize) -> Self { Arc2(Arc::new(T::gen(r, d))) }
    fn mutate(&self, r: &mut Rng) -> Self { Arc2(Arc::new(self.0.mutate(r))) }
}
impl<T: Rewrite<Id>> Rewrite<Id> for Arc2<T> {
    fn rewrite<S>(&self, plan: &RewritePlan<Id, S>) -> Self { Arc2(self.0.rewrite(plan)) }
}

/// `WORegisterActorState<S, u64>` (src/actor/write_once_register.rs): `Server(s)` rewrites `s`, `Client{..}` is left
/// alone.  Shown to the model as `Option<S>` (`Server(s)` = `Some(s)`, `Client` = `None`); that a client is returned
/// unchanged is checked here (`V` line).
#[derive(Clone, Debug, Hash, PartialEq)]
struct WoState<S>(WORegisterActorState<S, u64>);
impl<S: U> U for WoState<S> {
    fn ty() -> String { format!("(opt {})", S::ty()) }
    fn sx(&self) -> String {
        match &self.0 {
            WORegisterActorState::Server(s) => format!("(1 {})", s.sx()),
            WORegisterActorState::Client { .. } => "(0 u)".into(),
        }
    }
    fn gen(r: &mut Rng, d: usize) -> Self {
        if r.chance(1, 4) {
            WoState(WORegisterActorState::Client { awaiting: if r.chance(1, 2) { Some(r.below(9) as u64) } else { None }, op_count: r.below(5) as u64 })
        } else {
            WoState(WORegisterActorState::Server(S::gen(r, d)))
        }
    }
    fn mutate(&self, r: &mut Rng) -> Self { Self::gen(r, 2) }
}
impl<S: Rewrite<Id> + Clone> Rewrite<Id> for WoState<S> {
    fn rewrite<P>(&self, plan: &RewritePlan<Id, P>) -> Self {
        let out = self.0.rewrite(plan);
        if let WORegisterActorState::Client { .. } = &self.0 {
            if !matches!((&out, &self.0), (WORegisterActorState::Client { awaiting: a, op_count: b }, WORegisterActorState::Client { awaiting: c, op_count: d }) if a == c && b == d) {
                CLIENT_CHANGED.store(true, std::sync::atomic::Ordering::SeqCst);
            }
        }
        WoState(out)
    }
}
static CLIENT_CHANGED: std::sync::atomic::AtomicBool = std::sync::atomic::AtomicBool::new(false);

/// `WORegisterMsg<u64, V, I>`: the request id is copied, the value and the internal message are rewritten.  Shown to the
/// model as `(u8, (Option<V>, Option<I>))`: variant-and-id code, the value if the variant has one, the internal message.
#[derive(Clone, Debug, Hash, PartialEq, Eq)]
struct WoMsg<V, I>(WORegisterMsg<u64, V, I>);
impl<V: U, I: U> WoMsg<V, I> {
    fn parts(&self) -> (u8, Option<V>, Option<I>) {
        match &self.0 {
            WORegisterMsg::Internal(m) => (0, None, Some(m.clone())),
            WORegisterMsg::Put(rid, v) => (1 + 8 * (*rid as u8 % 8), Some(v.clone()), None),
            WORegisterMsg::Get(rid) => (2 + 8 * (*rid as u8 % 8), None, None),
            WORegisterMsg::PutOk(rid) => (3 + 8 * (*rid as u8 % 8), None, None),
            WORegisterMsg::PutFail(rid) => (4 + 8 * (*rid as u8 % 8), None, None),
            WORegisterMsg::GetOk(rid, v) => (5 + 8 * (*rid as u8 % 8), Some(v.clone()), None),
        }
    }
}
impl<V: U, I: U> U for WoMsg<V, I> {
    fn ty() -> String { <(u8, (Option<V>, Option<I>))>::ty() }
    fn sx(&self) -> String {
        let (c, v, i) = self.parts();
        (c, (v, i)).sx()
    }
    fn gen(r: &mut Rng, d: usize) -> Self {
        let rid = r.below(8) as u64;
        WoMsg(match r.below(6) {
            0 => WORegisterMsg::Internal(I::gen(r, d)),
            1 => WORegisterMsg::Put(rid, V::gen(r, d)),
            2 => WORegisterMsg::Get(rid),
            3 => WORegisterMsg::PutOk(rid),
            4 => WORegisterMsg::PutFail(rid),
            _ => WORegisterMsg::GetOk(rid, V::gen(r, d)),
        })
    }
    fn mutate(&self, r: &mut Rng) -> Self { Self::gen(r, 2) }
}
impl<V: Rewrite<Id>, I: Rewrite<Id>> Rewrite<Id> for WoMsg<V, I> {
    fn rewrite<P>(&self, plan: &RewritePlan<Id, P>) -> Self { WoMsg(self.0.rewrite(plan)) }
}
