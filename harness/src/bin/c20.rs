//! C20 — vector clocks and dense maps: implementation side of the correspondence + oracle inputs.
use srh::out::*;
use srh::rec::{record, Tok};
use srh::rng::Rng;
use srh::sx;
use stateright::actor::Id;
use stateright::util::{DenseNatMap, VectorClock};
use stateright::{Rewrite, RewritePlan};
use std::cmp::Ordering;
use std::panic::catch_unwind;

fn ord(o: Option<Ordering>) -> &'static str {
    match o {
        None => "none",
        Some(Ordering::Less) => "lt",
        Some(Ordering::Equal) => "eq",
        Some(Ordering::Greater) => "gt",
    }
}
fn vc(v: &[u32]) -> VectorClock {
    VectorClock::from(v.to_vec())
}
/// the clock's components as seen through its hash input (decoded), or the raw stream if the shape is unexpected
fn hash_input(c: &VectorClock) -> String {
    let toks = record(c);
    match toks.as_slice() {
        [Tok::Usize(0)] => "()".into(),
        [Tok::Usize(n), Tok::Bytes(b)] if b.len() == 4 * n => {
            sx::nums(b.chunks(4).map(|w| u32::from_le_bytes([w[0], w[1], w[2], w[3]])))
        }
        _ => format!("unexpected-stream:{}", srh::rec::toks_sx(&toks)),
    }
}
/// components of a clock, read back through Display (the inner Vec is private)
fn comps(c: &VectorClock) -> Vec<u32> {
    let s = format!("{}", c);
    let inner = s.trim_start_matches('<').trim_end_matches("...>");
    inner.split(", ").filter(|x| !x.is_empty()).map(|x| x.parse().unwrap()).collect()
}

fn pair_case(out: &mut Out, a: &[u32], b: &[u32]) {
    let (ca, cb) = (vc(a), vc(b));
    let (sa, sb) = (sx::nums(a), sx::nums(b));
    let cab = ord(ca.partial_cmp(&cb));
    let cba = ord(cb.partial_cmp(&ca));
    let eab = ca == cb;
    let hab = record(&ca) == record(&cb);
    let m = VectorClock::merge_max(&ca, &cb);
    let mv = comps(&m);
    out.m(&format!("vc-cmp {} {}", sa, sb), cab);
    out.m(&format!("vc-eq {} {}", sa, sb), &sx::b(eab));
    // the comparison OPERATORS (`lt` / `le` / `gt` / `ge` of PartialOrd, `ne` of PartialEq): provided methods that an impl
    // may override; they must say what `partial_cmp` / `eq` say
    out.m(&format!("vc-ops {} {}", sa, sb), &format!("({} {} {} {} {})", sx::b(ca < cb), sx::b(ca <= cb), sx::b(ca > cb), sx::b(ca >= cb), sx::b(ca != cb)));
    // the same as a LAW on the implementation's own answers: the operators agree with its `partial_cmp` and `==`
    out.o(&format!("o-vc-ops {} {} {} {} {} {} {}", cab, sx::b(eab), sx::b(ca < cb), sx::b(ca <= cb), sx::b(ca > cb), sx::b(ca >= cb), sx::b(ca != cb)));
    out.m(&format!("vc-merge {} {}", sa, sb), &sx::nums(&mv));
    out.o(&format!(
        "o-vc-pair {} {} {} {} {} {} {} {} {}",
        sa, sb, cab, cba, sx::b(eab), sx::b(hab), sx::nums(&mv),
        ord(ca.partial_cmp(&m)), ord(cb.partial_cmp(&m))
    ));
    out.stat(&format!("cmp-{}", cab));
    if a.len() != b.len() { out.stat("pair-different-lengths"); }
    if eab && a != b { out.stat("equal-modulo-padding"); }
    if !(a.is_empty() && b.is_empty()) { out.distinct(&(0u8, a.to_vec(), b.to_vec())); }
}

fn single_case(out: &mut Out, a: &[u32], i: usize) {
    let ca = vc(a);
    let sa = sx::nums(a);
    out.m(&format!("vc-hash {}", sa), &hash_input(&ca));
    out.m(&format!("vc-display {}", sa), &format!("{}", ca));
    let a2 = a.to_vec();
    let r = catch_unwind(move || vc(&a2).incremented(i));
    match r {
        Ok(c) => {
            let cv = comps(&c);
            out.m(&format!("vc-incr {} {}", sa, i), &sx::nums(&cv));
            out.o(&format!("o-vc-incr {} {} {} {}", sa, i, sx::nums(&cv), ord(ca.partial_cmp(&c))));
            out.stat("incr-ok");
        }
        Err(_) => {
            out.m(&format!("vc-incr {} {}", sa, i), "panic");
            out.o(&format!("o-vc-incr {} {} panic none", sa, i));
            out.stat("incr-overflow-panic");
        }
    }
    out.distinct(&(1u8, a.to_vec(), i));
}

fn gen_clock(r: &mut Rng) -> Vec<u32> {
    let n = r.below(9);
    (0..n)
        .map(|_| match r.below(10) {
            0..=3 => 0,
            4..=6 => r.below(4) as u32,
            7 => u32::MAX,
            8 => u32::MAX - 1,
            _ => r.next() as u32,
        })
        .collect()
}
/// a clock related to `a`: padded, bumped, lowered or merged — so that ordered pairs are common
fn near(r: &mut Rng, a: &[u32]) -> Vec<u32> {
    let mut b = a.to_vec();
    match r.below(5) {
        0 => { for _ in 0..r.below(3) { b.push(0); } }
        1 => { if !b.is_empty() { let i = r.below(b.len()); b[i] = b[i].saturating_add(1 + r.below(2) as u32); } }
        2 => { if !b.is_empty() { let i = r.below(b.len()); b[i] = b[i].saturating_sub(1); } }
        3 => { while b.last() == Some(&0) { b.pop(); } }
        _ => { b.push(r.below(3) as u32); }
    }
    b
}

fn dnm_from(out: &mut Out, ps: &[(usize, u32)]) {
    let req = sx::list(ps.iter().map(|(k, v)| format!("({} {})", k, v)));
    let ps2 = ps.to_vec();
    let r = catch_unwind(move || {
        let m: DenseNatMap<Id, u32> = ps2.into_iter().map(|(k, v)| (Id::from(k), v)).collect();
        m
    });
    let resp = match &r {
        Ok(m) => { out.stat("dnm-from-ok"); sx::nums(m.values()) }
        Err(_) => { out.stat("dnm-from-panic"); "panic".to_string() }
    };
    out.m(&format!("dnm-from {}", req), &resp);
    out.o(&format!("o-dnm-from {} {}", req, resp));
    if let Ok(m) = &r {
        // direct law on the implementation: every pair is retrievable, len matches
        for (k, v) in ps {
            if m.get(Id::from(*k)) != Some(v) {
                out.v("dnm-get", &format!("pairs {} get {} != {}", req, k, v));
            }
        }
    }
    out.distinct(&(2u8, ps.to_vec()));
}

fn main() {
    quiet_panics();
    let mut out = Out::new();
    let mut r = Rng::new(seed());
    let th = thorough();

    // 1. exhaustive small scope: clocks of length <= 3 over {0,1,2}
    let mut small: Vec<Vec<u32>> = vec![vec![]];
    for len in 1..=3usize {
        let mut cur = vec![0u32; len];
        loop {
            small.push(cur.clone());
            let mut i = 0;
            loop {
                if i == len { break; }
                cur[i] += 1;
                if cur[i] <= 2 { break; }
                cur[i] = 0;
                i += 1;
            }
            if i == len { break; }
        }
    }
    for a in &small {
        for b in &small {
            pair_case(&mut out, a, b);
        }
        for i in 0..4 {
            single_case(&mut out, a, i);
        }
    }
    // transitivity over all triples of the small scope (implementation outputs only)
    let cmps: Vec<Vec<&'static str>> = small.iter().map(|a| small.iter().map(|b| ord(vc(a).partial_cmp(&vc(b)))).collect()).collect();
    let n = small.len();
    let step = if th { 1 } else { 3 };
    for i in 0..n {
        for j in 0..n {
            for k in (((i + j) % step)..n).step_by(step) {
                out.o(&format!("o-vc-trans {} {} {}", cmps[i][j], cmps[j][k], cmps[i][k]));
                out.stat("triples");
            }
        }
    }
    out.sample(&format!("small scope: {} clocks of length<=3 over {{0,1,2}}, all pairs, triples step {}", n, step));

    // 2. random clocks
    let n_rand = if th { 400_000 } else { 12_000 };
    for c in 0..n_rand {
        let a = gen_clock(&mut r);
        let b = if r.chance(2, 3) { near(&mut r, &a) } else { gen_clock(&mut r) };
        pair_case(&mut out, &a, &b);
        let i = r.below(a.len() + 3);
        single_case(&mut out, &a, i);
        if c < 3 { out.sample(&format!("pair a={:?} b={:?} incr index {}", a, b, i)); }
        // a random triple for transitivity
        let c3 = near(&mut r, &b);
        let (ca, cb, cc) = (vc(&a), vc(&b), vc(&c3));
        out.o(&format!("o-vc-trans {} {} {}", ord(ca.partial_cmp(&cb)), ord(cb.partial_cmp(&cc)), ord(ca.partial_cmp(&cc))));
    }

    // 3. dense maps: every order of <= 5 pairs; gaps; duplicates
    for len in 0..=(if th { 6 } else { 5 }) {
        let base: Vec<(usize, u32)> = (0..len).map(|k| (k, 10 + k as u32)).collect();
        let mut perm: Vec<usize> = (0..len).collect();
        // Heap's algorithm, iterative
        let mut c = vec![0usize; len];
        let emit = |p: &Vec<usize>, out: &mut Out| {
            let ps: Vec<(usize, u32)> = p.iter().map(|&i| base[i]).collect();
            dnm_from(out, &ps);
        };
        emit(&perm, &mut out);
        let mut i = 0;
        while i < len {
            if c[i] < i {
                if i % 2 == 0 { perm.swap(0, i); } else { perm.swap(c[i], i); }
                emit(&perm, &mut out);
                c[i] += 1;
                i = 0;
            } else {
                c[i] = 0;
                i += 1;
            }
        }
    }
    let n_dnm = if th { 100_000 } else { 6_000 };
    for c in 0..n_dnm {
        let len = r.below(6);
        let mut ps: Vec<(usize, u32)> = (0..len).map(|k| (k, r.below(50) as u32)).collect();
        match r.below(4) {
            0 => { if len > 0 { let i = r.below(len); ps[i].0 += 1 + r.below(2); } } // gap or duplicate
            1 => { if len > 1 { let i = r.below(len); let j = r.below(len); ps[i].0 = ps[j].0; } } // duplicate
            _ => {}
        }
        r.shuffle(&mut ps);
        dnm_from(&mut out, &ps);
        if c < 2 { out.sample(&format!("dnm pairs {:?}", ps)); }

        // insert
        let m0: Vec<u32> = (0..r.below(5)).map(|_| r.below(50) as u32).collect();
        let k = r.below(m0.len() + 3);
        let v = r.below(50) as u32;
        let m1 = m0.clone();
        let res = catch_unwind(move || {
            let mut m: DenseNatMap<Id, u32> = m1.into_iter().collect();
            let prev = m.insert(Id::from(k), v);
            (m, prev)
        });
        let resp = match res {
            Ok((m, prev)) => { out.stat(if prev.is_some() { "insert-overwrite" } else { "insert-append" }); format!("(ok {} {})", sx::nums(m.values()), sx::opt(&prev, |x| x.to_string())) }
            Err(_) => { out.stat("insert-panic"); "panic".into() }
        };
        out.m(&format!("dnm-insert {} {} {}", sx::nums(&m0), k, v), &resp);

        // rewrite under a plan built by sorting values (with ties)
        // up to 8 keys, up to 6 distinct values: the sorting permutations then include long cycles
        let plen = r.below(9);
        let nv = 2 + r.below(5);
        let vals: Vec<u32> = (0..plen).map(|_| r.below(nv) as u32).collect();
        let plan: RewritePlan<Id, _> = RewritePlan::from_values_to_sort(&vals);
        let plan_list: Vec<usize> = plan.get_state().values().map(|id| usize::from(*id)).collect();
        let mlen = if r.chance(4, 5) { plen } else { r.below(6) };
        if r.chance(1, 2) {
            // DenseNatMap<Id, Id>: keys and values are rewritten
            let m: Vec<usize> = (0..mlen).map(|_| { let extra = if r.chance(1, 10) { 2 } else { 0 }; r.below(plen.max(1) + extra) }).collect();
            let m2 = m.clone();
            let plan2 = RewritePlan::<Id, _>::from_values_to_sort(&vals);
            let res = catch_unwind(move || {
                let dm: DenseNatMap<Id, Id> = m2.into_iter().map(Id::from).collect();
                dm.rewrite(&plan2)
            });
            let resp = match res { Ok(x) => { out.stat("rewrite-kv-ok"); sx::nums(x.values().map(|id| usize::from(*id))) } Err(_) => { out.stat("rewrite-kv-panic"); "panic".into() } };
            out.m(&format!("dnm-rewrite {} {} kv", sx::nums(&plan_list), sx::nums(&m)), &resp);
            out.o(&format!("o-dnm-rewrite {} {} kv {}", sx::nums(&plan_list), sx::nums(&m), resp));
        } else {
            let m: Vec<u32> = (0..mlen).map(|_| r.below(50) as u32).collect();
            let m2 = m.clone();
            let plan2 = RewritePlan::<Id, _>::from_values_to_sort(&vals);
            let res = catch_unwind(move || {
                let dm: DenseNatMap<Id, u32> = m2.into_iter().collect();
                dm.rewrite(&plan2)
            });
            let resp = match res { Ok(x) => { out.stat("rewrite-k-ok"); sx::nums(x.values()) } Err(_) => { out.stat("rewrite-k-panic"); "panic".into() } };
            out.m(&format!("dnm-rewrite {} {} k", sx::nums(&plan_list), sx::nums(&m)), &resp);
            out.o(&format!("o-dnm-rewrite {} {} k {}", sx::nums(&plan_list), sx::nums(&m), resp));
        }
    }
    out.finish();
}
