//! C18 — reference objects and the register harness: implementation side + oracle inputs.
//! Part 1: random op/ret sequences (valid / invalid / mixed) on Register, WORegister, Vec and table
//!         specs: `invoke`, `is_valid_step` (verdict and object afterwards), `is_valid_history`.
//! Part 2: register-harness systems: RegisterActor / WORegisterActor clients around table-driven
//!         servers that answer each request at most once (now, later, never, out of order), both
//!         testers, three network kinds; the `Model` trait is walked breadth-first and at every reached
//!         state the clients' states and the tester's `Debug` are compared with the model; the oracle
//!         gets the client-visible calls reconstructed from the path and the tester's content.
use srh::out::*;
use srh::rng::Rng;
use srh::sem_util::*;
use stateright::actor::register::{RegisterActor, RegisterActorState, RegisterMsg};
use stateright::actor::write_once_register::{WORegisterActor, WORegisterActorState, WORegisterMsg};
use stateright::actor::{Actor, ActorModel, ActorModelAction, ActorModelState, Command, Id, LossyNetwork, Network, Out as AOut};
use stateright::semantics::register::Register;
use stateright::semantics::write_once_register::WORegister;
use stateright::semantics::{LinearizabilityTester, SequentialConsistencyTester};
use stateright::Model;
use std::borrow::Cow;
use std::collections::{BTreeSet, HashSet, VecDeque};
use std::fmt::Debug;
use std::hash::Hash;
use std::sync::Arc;

// ------------------------------------------------------------------------------------------------
// part 1: reference objects
// ------------------------------------------------------------------------------------------------
fn obj_seq<O>(out: &mut Out, r: &mut Rng, init: &O)
where
    O: Wire,
    O::Op: Clone + Debug,
    O::Ret: Clone + Debug + PartialEq,
{
    let n = r.range(1, 8);
    let mode = r.below(3);
    let mut cur = init.clone();
    let mut l: Vec<(O::Op, O::Ret)> = Vec::new();
    let mut all_ok = true;
    for _ in 0..n {
        let op = cur.gen_op(r);
        let mut a = cur.clone();
        let iret = a.invoke(&op);
        let ret = match mode {
            0 => iret.clone(),
            1 => cur.gen_ret(r),
            _ => if r.chance(3, 4) { iret.clone() } else { cur.gen_ret(r) },
        };
        let mut b = cur.clone();
        let verdict = b.is_valid_step(&op, &ret);
        let obj = cur.obj_sx();
        out.m(&format!("inv {} {}", obj, O::op_sx(&op)), &format!("{} {}", O::ret_sx(&iret), a.state_sx()));
        out.m(&format!("step {} {} {}", obj, O::op_sx(&op), O::ret_sx(&ret)), &format!("{} {}", srh::sx::b(verdict), b.state_sx()));
        out.o(&format!("o-step {} {} {} {} {}", O::ret_sx(&ret), O::ret_sx(&iret), a.state_sx(), srh::sx::b(verdict), b.state_sx()));
        out.stat(&format!("step-{}-{}", O::kind(), if verdict { "accepted" } else { "rejected" }));
        if !verdict && a.state_sx() != b.state_sx() { out.stat(&format!("rejected-step-object-differs-from-invoke-{}", O::kind())); }
        if !verdict { all_ok = false; }
        out.distinct(&(1u8, obj, O::op_sx(&op), O::ret_sx(&ret)));
        l.push((op, ret));
        cur = b; // continue from the object as is_valid_step left it (also after a rejection)
    }
    let lsx = srh::sx::list(l.iter().map(|(op, rt)| format!("({} {})", O::op_sx(op), O::ret_sx(rt))));
    let mut c = init.clone();
    let v = c.is_valid_history(l.clone());
    out.m(&format!("hist {} {}", init.obj_sx(), lsx), &format!("{} {}", srh::sx::b(v), c.state_sx()));
    let mut d = init.clone();
    let trace = srh::sx::list(l.iter().map(|(op, _)| { let rt = d.invoke(op); format!("({} {})", O::op_sx(op), O::ret_sx(&rt)) }));
    out.o(&format!("o-hist {} {} {}", lsx, trace, srh::sx::b(v)));
    out.stat(&format!("history-{}-{}", O::kind(), if v { "valid" } else { "invalid" }));
    if v != all_ok { out.v("history-vs-steps", &format!("is_valid_history={} but stepwise={} on {} {}", v, all_ok, init.obj_sx(), lsx)); }
    out.stat(&format!("history-len-{}", n));
    if out.cases < 45 { out.sample(&format!("object: {} {} => is_valid_history={}", init.obj_sx(), lsx, v)); }
    out.distinct(&(2u8, init.obj_sx(), lsx));
}

// ------------------------------------------------------------------------------------------------
// part 2: register harness
// ------------------------------------------------------------------------------------------------
/// message view shared by RegisterMsg and WORegisterMsg
#[derive(Clone, Debug, PartialEq)]
enum M {
    Internal,
    Put(u64, char),
    Get(u64),
    PutOk(u64),
    PutFail(u64),
    GetOk(u64, char),
}
trait MsgLike: Clone + Debug + Eq + Hash {
    fn view(&self) -> M;
    fn build(m: M) -> Option<Self>;
    const WO: bool;
}
impl MsgLike for RegisterMsg<u64, char, ()> {
    const WO: bool = false;
    fn view(&self) -> M {
        match self {
            RegisterMsg::Internal(_) => M::Internal,
            RegisterMsg::Put(r, v) => M::Put(*r, *v),
            RegisterMsg::Get(r) => M::Get(*r),
            RegisterMsg::PutOk(r) => M::PutOk(*r),
            RegisterMsg::GetOk(r, v) => M::GetOk(*r, *v),
        }
    }
    fn build(m: M) -> Option<Self> {
        Some(match m {
            M::Internal => RegisterMsg::Internal(()),
            M::Put(r, v) => RegisterMsg::Put(r, v),
            M::Get(r) => RegisterMsg::Get(r),
            M::PutOk(r) => RegisterMsg::PutOk(r),
            M::PutFail(_) => return None,
            M::GetOk(r, v) => RegisterMsg::GetOk(r, v),
        })
    }
}
impl MsgLike for WORegisterMsg<u64, char, ()> {
    const WO: bool = true;
    fn view(&self) -> M {
        match self {
            WORegisterMsg::Internal(_) => M::Internal,
            WORegisterMsg::Put(r, v) => M::Put(*r, *v),
            WORegisterMsg::Get(r) => M::Get(*r),
            WORegisterMsg::PutOk(r) => M::PutOk(*r),
            WORegisterMsg::PutFail(r) => M::PutFail(*r),
            WORegisterMsg::GetOk(r, v) => M::GetOk(*r, *v),
        }
    }
    fn build(m: M) -> Option<Self> {
        Some(match m {
            M::Internal => WORegisterMsg::Internal(()),
            M::Put(r, v) => WORegisterMsg::Put(r, v),
            M::Get(r) => WORegisterMsg::Get(r),
            M::PutOk(r) => WORegisterMsg::PutOk(r),
            M::PutFail(r) => WORegisterMsg::PutFail(r),
            M::GetOk(r, v) => WORegisterMsg::GetOk(r, v),
        })
    }
}
fn m_sx(m: &M) -> String {
    match m {
        M::Internal => "internal".into(),
        M::Put(r, v) => format!("(put {} {})", r, *v as u32),
        M::Get(r) => format!("(get {})", r),
        M::PutOk(r) => format!("(putok {})", r),
        M::PutFail(r) => format!("(putfail {})", r),
        M::GetOk(r, v) => format!("(getok {} {})", r, *v as u32),
    }
}

/// table-driven server: answers each (client, request id) at most once — now, later (on a timer,
/// oldest or newest first), never, or now together with everything pending
#[derive(Clone)]
struct Srv<Mg> {
    plan: Arc<Vec<u8>>,
    /// misbehaving variant (outside the property's quantifier, model correspondence only): some replies are sent twice
    twice: bool,
    _p: std::marker::PhantomData<Mg>,
}
#[derive(Clone, Debug, PartialEq, Eq, Hash, Default)]
struct SrvState {
    seen: BTreeSet<(Id, u64)>,
    pending: Vec<(Id, u64, u8, char)>, // client, rid, reply kind, value
}
fn reply(kind: u8, is_put: bool, rid: u64, v: char, wo: bool) -> M {
    let k = kind % 8;
    if is_put {
        match k {
            0..=3 => M::PutOk(rid),
            4..=6 => if wo { M::PutFail(rid) } else { M::PutOk(rid) },
            _ => M::GetOk(rid, v), // wrong kind of reply
        }
    } else {
        match k {
            0..=2 => M::GetOk(rid, v),
            3..=6 => M::GetOk(rid, (b'A' + (kind % 3)) as char),
            _ => M::PutOk(rid), // wrong kind of reply
        }
    }
}
impl<Mg: MsgLike> Actor for Srv<Mg> {
    type Msg = Mg;
    type State = SrvState;
    type Timer = u8;
    type Random = ();
    fn on_start(&self, _id: Id, _o: &mut AOut<Self>) -> SrvState {
        SrvState::default()
    }
    fn on_msg(&self, id: Id, state: &mut Cow<SrvState>, src: Id, msg: Mg, o: &mut AOut<Self>) {
        let (rid, is_put, v) = match msg.view() {
            M::Put(r, v) => (r, true, v),
            M::Get(r) => (r, false, '?'),
            _ => return,
        };
        if state.seen.contains(&(src, rid)) { return; }
        let h = (usize::from(src) * 7 + rid as usize * 3 + usize::from(id) * 5) % self.plan.len();
        let d = self.plan[h];
        let kind = d >> 2;
        let st = state.to_mut();
        st.seen.insert((src, rid));
        match d & 3 {
            0 => {
                if let Some(m) = Mg::build(reply(kind, is_put, rid, v, Mg::WO)) {
                    o.send(src, m.clone());
                    if self.twice && h % 2 == 0 { o.send(src, m); }
                }
            }
            1 => {
                st.pending.push((src, rid, kind | if is_put { 128 } else { 0 }, v));
                o.set_timer(0, std::time::Duration::from_secs(1)..std::time::Duration::from_secs(2));
            }
            2 => {}
            _ => {
                if let Some(m) = Mg::build(reply(kind, is_put, rid, v, Mg::WO)) { o.send(src, m); }
                let pend: Vec<_> = st.pending.drain(..).collect();
                for (c, r, k, v) in pend.into_iter().rev() {
                    if let Some(m) = Mg::build(reply(k & 127, k & 128 != 0, r, v, Mg::WO)) { o.send(c, m); }
                }
            }
        }
    }
    fn on_timeout(&self, _id: Id, state: &mut Cow<SrvState>, _t: &u8, o: &mut AOut<Self>) {
        if state.pending.is_empty() { return; }
        let st = state.to_mut();
        let newest_first = self.plan[0] & 1 == 1;
        let (c, r, k, v) = if newest_first { st.pending.pop().unwrap() } else { st.pending.remove(0) };
        if let Some(m) = Mg::build(reply(k & 127, k & 128 != 0, r, v, Mg::WO)) { o.send(c, m); }
        if !st.pending.is_empty() {
            o.set_timer(0, std::time::Duration::from_secs(1)..std::time::Duration::from_secs(2));
        }
    }
}

/// what the walker needs to see of an actor state
trait ClientView {
    fn client(&self) -> Option<(Option<u64>, u64)>;
}
impl ClientView for RegisterActorState<SrvState, u64> {
    fn client(&self) -> Option<(Option<u64>, u64)> {
        match self { RegisterActorState::Client { awaiting, op_count } => Some((*awaiting, *op_count)), _ => None }
    }
}
impl ClientView for WORegisterActorState<SrvState, u64> {
    fn client(&self) -> Option<(Option<u64>, u64)> {
        match self { WORegisterActorState::Client { awaiting, op_count } => Some((*awaiting, *op_count)), _ => None }
    }
}

/// tester content through its serde representation: (valid, [(thread, [(op ret)...], inflight op)])
fn content_of<H: serde::Serialize>(h: &H, wo: bool, lin: bool) -> (bool, String) {
    let v = serde_json::to_value(h).unwrap();
    let valid = v["is_valid_history"].as_bool().unwrap();
    let ch = |x: &serde_json::Value| x.as_str().unwrap().chars().next().unwrap() as u32;
    let op = |x: &serde_json::Value| -> String {
        if x.is_string() { "r".into() } else { format!("(w {})", ch(&x["Write"])) }
    };
    let ret = |x: &serde_json::Value| -> String {
        if let Some(s) = x.as_str() { return if s == "WriteOk" { "wok".into() } else { "wfail".into() }; }
        let y = &x["ReadOk"];
        if wo { if y.is_null() { "(rok none)".into() } else { format!("(rok (some {}))", ch(y)) } } else { format!("(rok {})", ch(y)) }
    };
    let mut threads: BTreeSet<u64> = BTreeSet::new();
    for k in v["history_by_thread"].as_object().unwrap().keys() { threads.insert(k.parse().unwrap()); }
    for k in v["in_flight_by_thread"].as_object().unwrap().keys() { threads.insert(k.parse().unwrap()); }
    let mut items = Vec::new();
    for t in threads {
        let key = t.to_string();
        let done: Vec<String> = match v["history_by_thread"].get(&key) {
            None => vec![],
            Some(q) => q.as_array().unwrap().iter().map(|e| {
                let e = e.as_array().unwrap();
                if lin { format!("({} {})", op(&e[1]), ret(&e[2])) } else { format!("({} {})", op(&e[0]), ret(&e[1])) }
            }).collect(),
        };
        let pend = match v["in_flight_by_thread"].get(&key) {
            None => "none".to_string(),
            Some(e) => format!("(some {})", if lin { op(&e.as_array().unwrap()[1]) } else { op(e) }),
        };
        items.push(format!("({} {} {})", t, srh::sx::list(done), pend));
    }
    (valid, srh::sx::list(items))
}

struct SysDesc {
    kind: &'static str, // lin | sc
    net: &'static str,
    servers: usize,
    clients: Vec<usize>, // put counts
}

fn sends_sx<A: Actor>(o: &AOut<A>) -> String
where
    A::Msg: MsgLike,
{
    srh::sx::list(o.iter().filter_map(|c| match c {
        Command::Send(dst, m) => Some(format!("({} {})", usize::from(*dst), m_sx(&m.view()))),
        _ => None,
    }))
}

fn explore<A, H>(out: &mut Out, model: &ActorModel<A, (), H>, d: &SysDesc, max_states: usize, lin: bool, oracle: bool)
where
    A: Actor,
    A::Msg: MsgLike,
    A::State: ClientView + Eq,
    H: Clone + Debug + Hash + serde::Serialize,
{
    let wo = <A::Msg as MsgLike>::WO;
    let n = model.actors.len();
    // actor descriptions + the log of the initial sends (real on_start of every actor)
    let mut actors_sx = Vec::new();
    let mut log0: Vec<String> = Vec::new();
    let mut sends0: Vec<String> = Vec::new();
    for (i, a) in model.actors.iter().enumerate() {
        let mut o = AOut::new();
        let _ = a.on_start(Id::from(i), &mut o);
        if i < d.servers {
            actors_sx.push(format!("(s {})", sends_sx(&o)));
        } else {
            actors_sx.push(format!("(c {} {})", d.clients[i - d.servers], d.servers));
            for c in o.iter() {
                if let Command::Send(dst, m) = c {
                    log0.push(format!("(send {} {})", i, m_sx(&m.view())));
                    sends0.push(format!("({} {} {})", i, usize::from(*dst), m_sx(&m.view())));
                }
            }
        }
    }
    let actors_sx = srh::sx::list(actors_sx);
    let head = format!("rc-path {} {} {} {}", d.kind, srh::sx::b(wo), d.net, actors_sx);
    let init = model.init_states();
    // states are identified as the checkers do: by the hash of the state
    let fp = |s: &ActorModelState<A, H>| { use std::hash::Hasher; let mut h = std::collections::hash_map::DefaultHasher::new(); s.hash(&mut h); h.finish() };
    let mut seen: HashSet<u64> = HashSet::new();
    let mut queue: VecDeque<(ActorModelState<A, H>, Vec<String>, Vec<String>, Vec<String>)> = VecDeque::new();
    for s in init {
        if seen.insert(fp(&s)) { queue.push_back((s, vec![], log0.clone(), sends0.clone())); }
    }
    let mut visited = 0usize;
    while let Some((s, path, log, sends)) = queue.pop_front() {
        visited += 1;
        // compare this state with the model and feed the oracle
        let clients = srh::sx::list((d.servers..n).map(|i| {
            let (aw, oc) = s.actor_states[i].client().unwrap();
            format!("({} {} {})", i, srh::sx::opt(&aw, |x| x.to_string()), oc)
        }));
        out.m(&format!("{} {}", head, srh::sx::list(path.clone())), &format!("clients={} ;; sends={} ;; dbg={:?}", clients, srh::sx::list(sends.clone()), s.history));
        let (valid, content) = content_of(&s.history, wo, lin);
        if oracle {
            out.o(&format!("o-c18 {} {} {} {}", srh::sx::b(wo), srh::sx::list(log.clone()), srh::sx::b(valid), content));
        } else if !valid {
            out.stat("misbehaving-server-history-became-invalid");
        }
        if path.len() == 6 && visited % 7 == 0 { out.sample(&format!("system: {} path={} => clients={} history={:?}", head, srh::sx::list(path.clone()), clients, s.history)); }
        out.stat(&format!("state-depth-{}", path.len().min(12)));
        out.stat(&format!("log-len-{}", log.len().min(12)));
        out.distinct(&(3u8, head.clone(), path.clone()));
        if visited >= max_states { continue; }
        let mut actions = Vec::new();
        model.actions(&s, &mut actions);
        for a in actions {
            // describe the action for the model (environment outputs spelled out) and extend the log
            let mut log2 = log.clone();
            let mut sends2 = sends.clone();
            let act_sx = match &a {
                ActorModelAction::Deliver { src, dst, msg } => {
                    let di = usize::from(*dst);
                    let mut st = Cow::Borrowed(&*s.actor_states[di]);
                    let mut o = AOut::new();
                    model.actors[di].on_msg(*dst, &mut st, *src, msg.clone(), &mut o);
                    let changed = matches!(st, Cow::Owned(_));
                    if di >= d.servers {
                        if changed {
                            log2.push(format!("(acc {} {})", di, m_sx(&msg.view())));
                            for c in o.iter() {
                                if let Command::Send(d2, m) = c {
                                    log2.push(format!("(send {} {})", di, m_sx(&m.view())));
                                    sends2.push(format!("({} {} {})", di, usize::from(*d2), m_sx(&m.view())));
                                }
                            }
                        }
                        format!("(dc {} {})", di, m_sx(&msg.view()))
                    } else {
                        format!("(ds {} {} {} {})", di, m_sx(&msg.view()), srh::sx::b(changed), sends_sx(&o))
                    }
                }
                ActorModelAction::Timeout(id, t) => {
                    let i = usize::from(*id);
                    let mut st = Cow::Borrowed(&*s.actor_states[i]);
                    let mut o = AOut::new();
                    model.actors[i].on_timeout(*id, &mut st, t, &mut o);
                    format!("(ts {} {})", i, sends_sx(&o))
                }
                ActorModelAction::Drop(_) => "drop".to_string(),
                _ => continue,
            };
            let mut path2 = path.clone();
            path2.push(act_sx);
            match model.next_state(&s, a.clone()) {
                None => {
                    if matches!(a, ActorModelAction::Deliver { .. }) {
                        out.m(&format!("{} {}", head, srh::sx::list(path2)), "not-a-step");
                        out.stat("delivery-not-a-step");
                    }
                }
                Some(s2) => {
                    match &a {
                        ActorModelAction::Deliver { dst, .. } if usize::from(*dst) >= d.servers => {
                            out.stat(if log2.len() > log.len() { "delivery-accepted-by-client" } else { "delivery-noop-step-at-client(ordered)" })
                        }
                        ActorModelAction::Deliver { .. } => out.stat("delivery-to-server"),
                        ActorModelAction::Timeout(..) => out.stat("server-timeout"),
                        _ => out.stat("drop"),
                    }
                    if seen.insert(fp(&s2)) { queue.push_back((s2, path2, log2, sends2)); }
                }
            }
        }
    }
    out.stat(&format!("system-{}-{}-{}", d.kind, if wo { "wo" } else { "reg" }, d.net));
    out.stat(&format!("system-servers-{}-clients-{}", d.servers, d.clients.len()));
    out.stat_n("states-visited", visited as u64);
}

fn net_of<Mg: MsgLike>(k: usize) -> (Network<Mg>, &'static str) {
    match k {
        0 => (Network::new_unordered_duplicating([]), "unordered-dup"),
        1 => (Network::new_unordered_nonduplicating([]), "unordered-nondup"),
        _ => (Network::new_ordered([]), "ordered"),
    }
}

fn system(out: &mut Out, r: &mut Rng, max_states: usize) {
    let servers = r.range(1, 2);
    let nclients = r.range(1, 3);
    let clients: Vec<usize> = (0..nclients).map(|_| r.below(3)).collect();
    let plan: Arc<Vec<u8>> = Arc::new((0..r.range(3, 9)).map(|_| {
        // when: now 50%, later 25%, never 10%, now+flush 15%
        let when = match r.below(20) { 0..=9 => 0u8, 10..=14 => 1, 15 | 16 => 2, _ => 3 };
        let kind = if r.chance(1, 12) { 7u8 } else { r.below(7) as u8 };
        (kind << 2) | when
    }).collect());
    let netk = r.below(3);
    let lossy = r.chance(1, 5);
    let lin = r.chance(1, 2);
    let wo = r.chance(1, 2);
    let twice = r.chance(1, 6);
    macro_rules! build {
        ($Actor:ident, $Msg:ident, $hist:expr) => {{
            let (net, netname) = net_of::<$Msg<u64, char, ()>>(netk);
            let mut m = ActorModel::new((), $hist)
                .actors((0..servers).map(|_| $Actor::Server(Srv::<$Msg<u64, char, ()>> { plan: plan.clone(), twice, _p: std::marker::PhantomData })))
                .actors(clients.iter().map(|pc| $Actor::Client { put_count: *pc, server_count: servers }))
                .init_network(net)
                .record_msg_in($Msg::record_returns)
                .record_msg_out($Msg::record_invocations);
            if lossy { m = m.lossy_network(LossyNetwork::Yes); }
            let d = SysDesc { kind: if lin { "lin" } else { "sc" }, net: netname, servers, clients: clients.clone() };
            explore(out, &m, &d, max_states, lin, !twice);
        }};
    }
    match (wo, lin) {
        (false, true) => build!(RegisterActor, RegisterMsg, LinearizabilityTester::new(Register('?'))),
        (false, false) => build!(RegisterActor, RegisterMsg, SequentialConsistencyTester::new(Register('?'))),
        (true, true) => build!(WORegisterActor, WORegisterMsg, LinearizabilityTester::new(WORegister::<char>(None))),
        (true, false) => build!(WORegisterActor, WORegisterMsg, SequentialConsistencyTester::new(WORegister::<char>(None))),
    }
    if lossy { out.stat("system-lossy"); }
    if twice { out.stat("system-misbehaving-server(model-correspondence-only)"); }
}

fn main() {
    quiet_panics();
    let mut out = Out::new();
    out.max_samples = 12;
    let mut r = Rng::new(seed());
    let th = thorough();
    let nseq = arg_u64("--n", if th { 300_000 } else { 30_000 });
    for i in 0..nseq {
        match i % 10 {
            0 | 1 | 2 => { let v = r.below(3) as u8; obj_seq(&mut out, &mut r, &Register(v)) }
            3 | 4 | 5 => {
                let init = WORegister(if r.chance(1, 3) { Some(r.below(3) as u8) } else { None });
                obj_seq(&mut out, &mut r, &init)
            }
            6 | 7 | 8 => {
                let init: Vec<u8> = (0..r.below(3)).map(|_| r.below(3) as u8).collect();
                obj_seq(&mut out, &mut r, &init)
            }
            _ => {
                let (tbl, s) = gen_table(&mut r);
                if r.chance(1, 2) {
                    obj_seq(&mut out, &mut r, &TableSpec::<false> { tbl: Arc::new(tbl), state: s })
                } else {
                    obj_seq(&mut out, &mut r, &TableSpec::<true> { tbl: Arc::new(tbl), state: s })
                }
            }
        }
    }
    let nsys = arg_u64("--systems", if th { 4000 } else { 300 });
    let max_states = arg_u64("--max-states", if th { 120 } else { 80 }) as usize;
    for _ in 0..nsys {
        system(&mut out, &mut r, max_states);
    }
    out.finish();
}
