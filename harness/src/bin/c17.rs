//! C17 — implementation side.
//!
//! (a) Codec: `Id::from(SocketAddrV4)` / `SocketAddrV4::from(Id)` swept over all 65 536 ports of many
//!     ips (checksummed against the model per ip, every single round trip checked here), random
//!     (ip, port) pairs and arbitrary `u64` ids compared one by one.
//! (b) Trace validation: a child process (this binary with `--child`) runs the real `spawn()` with
//!     instrumented actors on loopback UDP; the parent sends scripted datagrams, records what the
//!     actors send to its observer sockets, freezes and kills the child, and hands the logs to the
//!     Lean acceptance predicate (`o-trace`) and the model's datagram prediction (`loop-out`).
use srh::out::*;
use srh::rng::Rng;
use stateright::actor::{spawn, Actor, Id, Out as AOut};
use std::borrow::Cow;
use std::io::{BufRead, BufReader, Write};
use std::net::{Ipv4Addr, SocketAddr, SocketAddrV4, UdpSocket};
use std::process::{Child, Command, Stdio};
use std::sync::atomic::{AtomicBool, Ordering};
use std::sync::{Arc, Mutex};
use std::time::Duration;

// ---------------------------------------------------------------------------------------------
// clock: CLOCK_MONOTONIC in ns (the clock `Instant` uses on Linux), comparable across processes
#[repr(C)]
struct Timespec {
    tv_sec: i64,
    tv_nsec: i64,
}
extern "C" {
    fn clock_gettime(clk: i32, ts: *mut Timespec) -> i32;
}
fn now_ns() -> u64 {
    let mut ts = Timespec { tv_sec: 0, tv_nsec: 0 };
    unsafe {
        clock_gettime(1, &mut ts);
    }
    ts.tv_sec as u64 * 1_000_000_000 + ts.tv_nsec as u64
}

// ---------------------------------------------------------------------------------------------
// message codec handed to spawn() (mirrored by `serMsg` / `deMsg` in lean/SR/Drv/C17.lean)
fn ser(m: &u32) -> Result<Vec<u8>, String> {
    if *m % 7 == 6 {
        Err("unserializable".into())
    } else {
        Ok(format!("M{}", m).into_bytes())
    }
}
fn de(b: &[u8]) -> Result<u32, String> {
    if b.first() != Some(&b'M') {
        return Err("no tag".into());
    }
    let ds = &b[1..];
    if ds.is_empty() || ds.len() > 10 || !ds.iter().all(|c| c.is_ascii_digit()) {
        return Err("not a number".into());
    }
    let v: u64 = ds.iter().fold(0u64, |acc, d| acc * 10 + (*d - b'0') as u64);
    if v < 4294967296 {
        Ok(v as u32)
    } else {
        Err("too big".into())
    }
}
fn hex(b: &[u8]) -> String {
    if b.is_empty() {
        "-".into()
    } else {
        b.iter().map(|x| format!("{:02x}", x)).collect()
    }
}
fn addr_sx(a: &SocketAddrV4) -> String {
    let o = a.ip().octets();
    format!("({} {} {} {} {})", o[0], o[1], o[2], o[3], a.port())
}

// ---------------------------------------------------------------------------------------------
// the instrumented actor (child side)
static FROZEN: AtomicBool = AtomicBool::new(false);

#[derive(Clone)]
struct ScriptActor {
    seed: u64,
    idx: usize,
    actors: Vec<Id>,
    observers: Vec<Id>,
    sink: Arc<Mutex<std::io::Stdout>>,
}
enum Cm {
    Send(Id, u32),
    Set(u8, u64, u64),
    Cancel(u8),
    Choose(String, Vec<u8>),
}
impl ScriptActor {
    /// deterministic behaviour table: (kind, state, args) -> (new state, commands)
    fn behave(&self, kind: u64, st: u32, a: u64, b: u64) -> (u32, Vec<Cm>) {
        let mut h = Rng::new(self.seed ^ (self.idx as u64).wrapping_mul(0x1234_5678_9abc_def1));
        for x in [kind, st as u64, a, b] {
            h = Rng::new(h.next() ^ x.wrapping_mul(0x9E37_79B9_7F4A_7C15));
        }
        let mut r = h;
        let count = st / 1000;
        let new_st = (count + 1) * 1000 + r.below(1000) as u32;
        let ttl = if kind == 1 { (b / 1_000_000) % 10 } else { if count < 10 { 2 } else { 0 } };
        let n = if kind == 0 { 1 + r.below(3) } else { r.below(4) };
        let mut cmds = Vec::new();
        for _ in 0..n {
            match r.below(11) {
                0..=2 => cmds.push(Cm::Send(*r.pick(&self.observers), r.below(100_000) as u32)),
                3 => {
                    // an id with bits above 48 set: same address as the observer
                    let o: usize = (*r.pick(&self.observers)).into();
                    let hi = ((r.below(0xffff) + 1) as u64) << 48;
                    cmds.push(Cm::Send(Id::from((o as u64 | hi) as usize), r.below(1000) as u32));
                }
                4 | 10 => {
                    if ttl > 0 && !self.actors.is_empty() {
                        let dst = *r.pick(&self.actors);
                        let mut p = r.below(1_000_000) as u64;
                        if (ttl - 1) * 1_000_000 + p > 4_000_000_000 {
                            p = 0;
                        }
                        cmds.push(Cm::Send(dst, ((ttl - 1) * 1_000_000 + p) as u32));
                    }
                }
                5 | 6 => {
                    if count < 15 {
                        let k = r.below(3) as u8;
                        let lo = (20 + r.below(100)) as u64 * 1_000_000;
                        let hi = match r.below(4) {
                            0 => lo,
                            1 => lo / 2, // reversed range: the code uses `start`
                            _ => lo + (1 + r.below(80)) as u64 * 1_000_000,
                        };
                        cmds.push(Cm::Set(k, lo, hi));
                    }
                }
                7 => {
                    // half of the time "re-arm, then step down" in ONE handler: afterwards the timer is NOT armed,
                    // whatever was armed before
                    let k = r.below(3) as u8;
                    if r.below(2) == 0 && count < 15 {
                        let lo = (20 + r.below(100)) as u64 * 1_000_000;
                        cmds.push(Cm::Set(k, lo, lo));
                    }
                    cmds.push(Cm::Cancel(k));
                }
                8 => {
                    let nv = r.below(4);
                    let vals: Vec<u8> = (0..nv).map(|_| r.below(5) as u8).collect();
                    cmds.push(Cm::Choose(format!("k{}", r.below(2)), vals));
                }
                _ => cmds.push(Cm::Send(*r.pick(&self.observers), (r.below(1000) * 7 + 6) as u32)),
            }
        }
        // a timeout handler often cancels the OTHER timers first: if they are overdue as well (the loop was held up by
        // a slow handler, see `on_msg`) they must stay silent all the same
        // directed: arm all three timers with short delays and send oneself the message that makes the next handler slow
        if kind == 1 && b % 5 == 2 && count < 15 && !self.actors.is_empty() {
            for k in 0..3u8 {
                let d = (30 + 10 * k as u64) * 1_000_000;
                cmds.push(Cm::Set(k, d, d));
            }
            cmds.push(Cm::Send(self.actors[self.idx], 3));
        }
        if kind == 2 && r.below(2) == 0 {
            for k in (0..3u8).rev() {
                if k as u64 != a {
                    cmds.insert(0, Cm::Cancel(k));
                }
            }
        }
        (new_st, cmds)
    }
    fn emit(&self, head: String, new_st: u32, cmds: Vec<Cm>, o: &mut AOut<Self>) {
        let mut cs = Vec::new();
        for c in &cmds {
            cs.push(match c {
                Cm::Send(d, m) => format!("(send {} {})", usize::from(*d), m),
                Cm::Set(k, lo, hi) => format!("(set {} {} {})", k, lo, hi),
                Cm::Cancel(k) => format!("(cancel {})", k),
                Cm::Choose(key, vs) => {
                    format!("(choose {} ({}))", key, vs.iter().map(|v| v.to_string()).collect::<Vec<_>>().join(" "))
                }
            });
        }
        let line = format!("L {} ({} {} ({}))\n", self.idx, head, new_st, cs.join(" "));
        {
            let g = self.sink.lock().unwrap();
            let mut w = g.lock();
            let _ = w.write_all(line.as_bytes());
            let _ = w.flush();
        }
        for c in cmds {
            match c {
                Cm::Send(d, m) => o.send(d, m),
                Cm::Set(k, lo, hi) => o.set_timer(k, Duration::from_nanos(lo)..Duration::from_nanos(hi)),
                Cm::Cancel(k) => o.cancel_timer(k),
                Cm::Choose(key, vs) => o.choose_random(key, vs),
            }
        }
    }
}
impl Actor for ScriptActor {
    type Msg = u32;
    type Timer = u8;
    type State = u32;
    type Random = u8;
    fn on_start(&self, _id: Id, o: &mut AOut<Self>) -> u32 {
        let t = now_ns();
        let (st, cmds) = self.behave(0, 0, 0, 0);
        self.emit(format!("start {}", t), st, cmds, o);
        st
    }
    fn on_msg(&self, _id: Id, state: &mut Cow<u32>, src: Id, msg: u32, o: &mut AOut<Self>) {
        let t = now_ns();
        if FROZEN.load(Ordering::SeqCst) {
            return;
        }
        let st_in = **state;
        let (st, cmds) = self.behave(1, st_in, usize::from(src) as u64, msg as u64);
        self.emit(format!("msg {} {} {} {}", t, st_in, usize::from(src), msg), st, cmds, o);
        *state.to_mut() = st;
        // a slow handler now and then: every timer due within the next 160 ms is overdue when the loop gets control back
        if msg % 5 == 3 {
            std::thread::sleep(Duration::from_millis(160));
        }
    }
    fn on_timeout(&self, _id: Id, state: &mut Cow<u32>, timer: &u8, o: &mut AOut<Self>) {
        let t = now_ns();
        if FROZEN.load(Ordering::SeqCst) {
            return;
        }
        let st_in = **state;
        // HEARTBEAT pattern: the handler leaves the state untouched (it stays `Cow::Borrowed`) and only re-arms the timer
        // that just fired. The renewal is a command like any other: the timer must fire again no earlier than the new delay.
        if *timer == 2 && st_in % 3 == 0 {
            let d = (40 + (st_in % 7) as u64 * 5) * 1_000_000;
            self.emit(format!("timeout {} {} {}", t, st_in, timer), st_in, vec![Cm::Set(2, d, d)], o);
            return;
        }
        let (st, cmds) = self.behave(2, st_in, *timer as u64, 0);
        self.emit(format!("timeout {} {} {}", t, st_in, timer), st, cmds, o);
        *state.to_mut() = st;
    }
    fn on_random(&self, _id: Id, state: &mut Cow<u32>, random: &u8, o: &mut AOut<Self>) {
        let t = now_ns();
        if FROZEN.load(Ordering::SeqCst) {
            return;
        }
        let st_in = **state;
        let (st, cmds) = self.behave(3, st_in, *random as u64, 0);
        self.emit(format!("random {} {} {}", t, st_in, random), st, cmds, o);
        *state.to_mut() = st;
    }
}

fn lo(port: u16) -> SocketAddrV4 {
    SocketAddrV4::new(Ipv4Addr::LOCALHOST, port)
}

/// `--child <seed> <n_actors> <ports...>`: actor ports first, then observer ports
fn child_main(args: &[String]) -> ! {
    let seed: u64 = args[0].parse().unwrap();
    let n: usize = args[1].parse().unwrap();
    let ports: Vec<u16> = args[2..].iter().map(|p| p.parse().unwrap()).collect();
    let actors: Vec<Id> = ports[..n].iter().map(|p| Id::from(lo(*p))).collect();
    let observers: Vec<Id> = ports[n..].iter().map(|p| Id::from(lo(*p))).collect();
    // control channel: "freeze" stops logging/acting; EOF (parent gone) or 30 s ends the process
    std::thread::spawn(|| {
        let stdin = std::io::stdin();
        let mut line = String::new();
        loop {
            line.clear();
            match stdin.lock().read_line(&mut line) {
                Ok(0) | Err(_) => std::process::exit(0),
                Ok(_) => {
                    if line.trim() == "freeze" {
                        FROZEN.store(true, Ordering::SeqCst);
                    }
                }
            }
        }
    });
    std::thread::spawn(|| {
        std::thread::sleep(Duration::from_secs(30));
        std::process::exit(3);
    });
    let sink = Arc::new(Mutex::new(std::io::stdout()));
    let list: Vec<(Id, ScriptActor)> = (0..n)
        .map(|i| {
            (actors[i], ScriptActor { seed, idx: i, actors: actors.clone(), observers: observers.clone(), sink: sink.clone() })
        })
        .collect();
    let _ = spawn(ser, de, list);
    std::process::exit(4)
}

// ---------------------------------------------------------------------------------------------
// parent side of a scenario
struct KillOnDrop(Child);
impl Drop for KillOnDrop {
    fn drop(&mut self) {
        let _ = self.0.kill();
        let _ = self.0.wait();
    }
}

struct Dg {
    t: u64,
    src: SocketAddrV4,
    dst: SocketAddrV4,
    bytes: Vec<u8>,
}
impl Dg {
    fn sx(&self) -> String {
        format!("({} {} {} {})", self.t, addr_sx(&self.src), addr_sx(&self.dst), hex(&self.bytes))
    }
}

struct ScenarioOut {
    o_req: String,
    m_cases: Vec<(String, String)>,
    stats: Vec<(String, u64)>,
    sample: String,
    key: u64,
}

/// ports already handed to a scenario of this process are never handed out again
static USED_PORTS: Mutex<Vec<u16>> = Mutex::new(Vec::new());

fn free_udp_ports(n: usize) -> Vec<u16> {
    let mut used = USED_PORTS.lock().unwrap();
    let mut socks: Vec<UdpSocket> = Vec::new();
    let mut ports = Vec::new();
    while ports.len() < n {
        let s = UdpSocket::bind("127.0.0.1:0").unwrap();
        let p = s.local_addr().unwrap().port();
        if !used.contains(&p) {
            used.push(p);
            ports.push(p);
        }
        socks.push(s); // keep it bound until all are chosen, so the kernel offers different ports
    }
    ports
}

fn run_scenario(seed: u64) -> Result<ScenarioOut, String> {
    let mut r = Rng::new(seed);
    let n = 1 + r.below(3);
    let n_obs = 2;
    let exe = std::env::current_exe().map_err(|e| e.to_string())?;
    let mut last_err = String::new();
    for _attempt in 0..3 {
        let actor_ports = free_udp_ports(n);
        let obs: Vec<UdpSocket> = (0..n_obs).map(|_| UdpSocket::bind("127.0.0.1:0").unwrap()).collect();
        USED_PORTS.lock().unwrap().extend(obs.iter().map(|s| s.local_addr().unwrap().port()));
        let obs_addrs: Vec<SocketAddrV4> = obs
            .iter()
            .map(|s| match s.local_addr().unwrap() {
                SocketAddr::V4(a) => a,
                _ => unreachable!(),
            })
            .collect();
        let mut cmd = Command::new(&exe);
        cmd.arg("--child").arg(seed.to_string()).arg(n.to_string());
        for p in &actor_ports {
            cmd.arg(p.to_string());
        }
        for a in &obs_addrs {
            cmd.arg(a.port().to_string());
        }
        let child = cmd.stdin(Stdio::piped()).stdout(Stdio::piped()).stderr(Stdio::null()).spawn().map_err(|e| e.to_string())?;
        let mut child = KillOnDrop(child);
        let stdout = child.0.stdout.take().unwrap();
        let mut stdin = child.0.stdin.take().unwrap();
        let lines: Arc<Mutex<Vec<String>>> = Arc::new(Mutex::new(Vec::new()));
        let lines2 = lines.clone();
        let reader = std::thread::spawn(move || {
            let br = BufReader::new(stdout);
            for l in br.split(b'\n') {
                match l {
                    Ok(bytes) => lines2.lock().unwrap().push(String::from_utf8_lossy(&bytes).to_string()),
                    Err(_) => break,
                }
            }
        });
        // receivers
        let stop = Arc::new(AtomicBool::new(false));
        let recvd: Arc<Mutex<Vec<Dg>>> = Arc::new(Mutex::new(Vec::new()));
        let mut rx_threads = Vec::new();
        for (k, s) in obs.iter().enumerate() {
            let s2 = s.try_clone().unwrap();
            s2.set_read_timeout(Some(Duration::from_millis(40))).unwrap();
            let stop = stop.clone();
            let recvd = recvd.clone();
            let me = obs_addrs[k];
            rx_threads.push(std::thread::spawn(move || {
                let mut buf = [0u8; 65535];
                while !stop.load(Ordering::SeqCst) {
                    if let Ok((cnt, SocketAddr::V4(from))) = s2.recv_from(&mut buf) {
                        let t = now_ns();
                        recvd.lock().unwrap().push(Dg { t, src: from, dst: me, bytes: buf[..cnt].to_vec() });
                    }
                }
            }));
        }
        // wait for all on_start lines (sockets are bound before on_start runs)
        let t0 = std::time::Instant::now();
        let mut started = false;
        while t0.elapsed() < Duration::from_secs(3) {
            let c = lines.lock().unwrap().iter().filter(|l| l.contains("(start ")).count();
            if c >= n {
                started = true;
                break;
            }
            if let Ok(Some(_)) = child.0.try_wait() {
                break;
            }
            std::thread::sleep(Duration::from_millis(5));
        }
        if !started {
            last_err = format!("child did not start {} actors within 3 s (ports {:?})", n, actor_ports);
            stop.store(true, Ordering::SeqCst);
            drop(child);
            for t in rx_threads {
                let _ = t.join();
            }
            let _ = reader.join();
            continue;
        }
        // the script
        let mut psent: Vec<Dg> = Vec::new();
        let n_dg = 8 + r.below(14);
        let mut kinds = [0u64; 4];
        for _ in 0..n_dg {
            std::thread::sleep(Duration::from_millis(5 + r.below(45) as u64));
            let k = r.below(n_obs);
            let a = r.below(n);
            let bytes: Vec<u8> = match r.below(10) {
                0 => {
                    kinds[1] += 1;
                    match r.below(6) {
                        0 => b"X12".to_vec(),
                        1 => Vec::new(),
                        2 => b"M".to_vec(),
                        3 => b"M99999999999".to_vec(),
                        4 => vec![0xff, 0x00, 0x4d],
                        _ => b"M4294967296".to_vec(),
                    }
                }
                1 => {
                    kinds[2] += 1;
                    format!("M{}", r.below(1000) * 7 + 6).into_bytes()
                }
                2 => {
                    kinds[3] += 1;
                    format!("M00{}", r.below(1000)).into_bytes()
                }
                _ => {
                    kinds[0] += 1;
                    format!("M{}", r.below(4) * 1_000_000 + r.below(1_000_000)).into_bytes()
                }
            };
            let dst = lo(actor_ports[a]);
            let t = now_ns();
            if obs[k].send_to(&bytes, dst).is_ok() {
                psent.push(Dg { t, src: obs_addrs[k], dst, bytes });
            }
        }
        // quiet period, freeze, drain, kill
        std::thread::sleep(Duration::from_millis(1200 + r.below(300) as u64));
        let _ = stdin.write_all(b"freeze\n");
        let _ = stdin.flush();
        let t_end = now_ns();
        std::thread::sleep(Duration::from_millis(150));
        drop(child);
        drop(stdin);
        let _ = reader.join();
        std::thread::sleep(Duration::from_millis(60));
        stop.store(true, Ordering::SeqCst);
        for t in rx_threads {
            let _ = t.join();
        }
        // assemble
        let lines = lines.lock().unwrap();
        let mut logs: Vec<Vec<String>> = vec![Vec::new(); n];
        let mut stats: Vec<(String, u64)> = Vec::new();
        let mut cnt = std::collections::BTreeMap::new();
        for l in lines.iter() {
            // "L <idx> (<entry>)"; an incomplete last line (kill) is dropped
            if !l.starts_with("L ") || !l.ends_with("))") {
                continue;
            }
            let rest = &l[2..];
            if let Some(sp) = rest.find(' ') {
                if let Ok(i) = rest[..sp].parse::<usize>() {
                    if i < n {
                        let e = rest[sp + 1..].to_string();
                        let kind = e[1..].split(' ').next().unwrap_or("").to_string();
                        *cnt.entry(format!("handler-{}", kind)).or_insert(0u64) += 1;
                        for c in ["(send ", "(set ", "(cancel ", "(choose "] {
                            *cnt.entry(format!("cmd-{}", c.trim_matches(|x| x == '(' || x == ' '))).or_insert(0u64) +=
                                e.matches(c).count() as u64;
                        }
                        logs[i].push(e);
                    }
                }
            }
        }
        // timer script coverage: what happened to armed timers (per actor)
        for lg in &logs {
            let mut armed: std::collections::BTreeSet<String> = Default::default();
            for e in lg {
                let toks = srh::graph_small::tokenize(e);
                let mut pos = 0;
                if let Some(srh::graph_small::Sx::List(items)) = srh::graph_small::parse_val(&toks, &mut pos) {
                    let kind = items[0].atom().unwrap_or("").to_string();
                    if kind == "timeout" {
                        let k = items[3].atom().unwrap_or("").to_string();
                        armed.remove(&k);
                        *cnt.entry("timer-fired".into()).or_insert(0) += 1;
                    }
                    if let Some(srh::graph_small::Sx::List(cmds)) = items.last() {
                        for c in cmds {
                            if let Some(c) = c.list() {
                                match (c[0].atom(), c.get(1).and_then(|x| x.atom())) {
                                    (Some("set"), Some(k)) => {
                                        let key = if armed.insert(k.to_string()) { "timer-set-fresh" } else { "timer-rearmed-while-armed" };
                                        *cnt.entry(key.into()).or_insert(0) += 1;
                                        let lo: u64 = c[2].atom().and_then(|x| x.parse().ok()).unwrap_or(0);
                                        let hi: u64 = c[3].atom().and_then(|x| x.parse().ok()).unwrap_or(0);
                                        let rk = if lo < hi { "timer-range-proper" } else if lo == hi { "timer-range-empty" } else { "timer-range-reversed" };
                                        *cnt.entry(rk.into()).or_insert(0) += 1;
                                    }
                                    (Some("cancel"), Some(k)) => {
                                        let key = if armed.remove(k) { "timer-cancel-armed" } else { "timer-cancel-not-armed" };
                                        *cnt.entry(key.into()).or_insert(0) += 1;
                                    }
                                    _ => {}
                                }
                            }
                        }
                    }
                }
            }
            *cnt.entry("timer-armed-at-end-of-observation".into()).or_insert(0) += armed.len() as u64;
        }
        for (k, v) in cnt {
            stats.push((k, v));
        }
        stats.push(("datagram-valid".into(), kinds[0]));
        stats.push(("datagram-unparsable".into(), kinds[1]));
        stats.push(("datagram-valid-unserializable-class".into(), kinds[2]));
        stats.push(("datagram-noncanonical".into(), kinds[3]));
        stats.push((format!("actors-{}", n), 1));
        let recvd = recvd.lock().unwrap();
        stats.push(("datagrams-observed".into(), recvd.len() as u64));
        let actors_sx: Vec<String> = (0..n)
            .map(|i| format!("({} ({}))", usize::from(Id::from(lo(actor_ports[i]))), logs[i].join(" ")))
            .collect();
        let obs_sx = format!("({})", obs_addrs.iter().map(addr_sx).collect::<Vec<_>>().join(" "));
        let o_req = format!(
            "o-trace ({}) ({}) ({}) {} {} {}",
            actors_sx.join(" "),
            psent.iter().map(|d| d.sx()).collect::<Vec<_>>().join(" "),
            recvd.iter().map(|d| d.sx()).collect::<Vec<_>>().join(" "),
            obs_sx,
            t_end,
            600_000_000u64
        );
        let mut m_cases = Vec::new();
        for i in 0..n {
            let me = lo(actor_ports[i]);
            let mut seen: Vec<String> =
                recvd.iter().filter(|d| d.src == me).map(|d| format!("{}:{}", addr_sx(&d.dst), hex(&d.bytes))).collect();
            seen.sort();
            m_cases.push((format!("loop-out {} {}", actors_sx[i], obs_sx), format!("({})", seen.join(" "))));
        }
        let sample = format!(
            "scenario seed={} actors={} datagrams={} handlers={} observed={}",
            seed,
            n,
            psent.len(),
            logs.iter().map(|l| l.len()).sum::<usize>(),
            recvd.len()
        );
        return Ok(ScenarioOut { o_req, m_cases, stats, sample, key: seed });
    }
    Err(last_err)
}

// ---------------------------------------------------------------------------------------------
fn codec_part(out: &mut Out, rng: &mut Rng, thorough: bool) {
    let mut ips: Vec<[u8; 4]> = vec![
        [0, 0, 0, 0], [255, 255, 255, 255], [127, 0, 0, 1], [1, 2, 3, 4], [10, 0, 0, 7], [192, 168, 255, 0],
        [0, 0, 0, 1], [128, 0, 0, 0], [255, 0, 0, 0], [0, 255, 0, 255], [1, 0, 0, 0], [0, 1, 0, 0], [0, 0, 1, 0],
        [254, 255, 255, 255], [255, 255, 255, 254], [127, 255, 255, 255], [224, 0, 0, 1], [169, 254, 0, 1],
    ];
    let n_rand = if thorough { 4096 } else { 400 };
    for _ in 0..n_rand {
        let x = rng.next();
        ips.push([(x >> 24) as u8, (x >> 16) as u8, (x >> 8) as u8, x as u8]);
    }
    let mut bad = 0u64;
    for ip in &ips {
        let ipn = u32::from_be_bytes(*ip) as u64;
        let mut h: u64 = 0;
        let mut ok: u64 = 0;
        for port in 0..=65535u16 {
            let a = SocketAddrV4::new(Ipv4Addr::from(*ip), port);
            let id = Id::from(a);
            let idn = usize::from(id) as u64;
            let back = SocketAddrV4::from(id);
            if back == a {
                ok += 1;
            }
            if (idn != (ipn << 16 | port as u64) || back != a) && bad < 5 {
                bad += 1;
                out.v("codec-roundtrip", &format!("addr {} -> id {} -> addr {}", a, idn, back));
            }
            h = (h * 1000003 + idn) % 2147483647;
        }
        out.m(&format!("codec-sweep ({} {} {} {}) 0 65536", ip[0], ip[1], ip[2], ip[3]), &format!("({} {})", h, ok));
        out.stat_n("codec-ports-swept", 65536);
        out.distinct(&(10u8, *ip));
    }
    out.stat_n("codec-ips-swept", ips.len() as u64);
    // individual cases
    let n_ind = if thorough { 60000 } else { 6000 };
    for i in 0..n_ind {
        let x = rng.next();
        let ip = if i % 8 == 0 { *rng.pick(&ips[..18]) } else { [(x >> 24) as u8, (x >> 16) as u8, (x >> 8) as u8, x as u8] };
        let port = match rng.below(6) {
            0 => 0,
            1 => 65535,
            2 => 255,
            3 => 256,
            _ => (x >> 32) as u16,
        };
        let a = SocketAddrV4::new(Ipv4Addr::from(ip), port);
        let id = Id::from(a);
        let idn = usize::from(id) as u64;
        let back = SocketAddrV4::from(id);
        out.m(&format!("codec-id {}", addr_sx(&a)), &idn.to_string());
        out.o(&format!("o-codec {} {} {}", addr_sx(&a), idn, addr_sx(&back)));
        out.distinct(&(11u8, ip, port));
        // ids: arbitrary u64, biased to high bits set / boundaries
        let idv: u64 = match rng.below(8) {
            0 => idn | ((rng.below(0xffff) as u64 + 1) << 48),
            1 => u64::MAX,
            2 => 1u64 << 48,
            3 => (1u64 << 48) - 1,
            4 => rng.next() & 0xffff_ffff_ffff,
            5 => rng.below(70000) as u64,
            _ => rng.next(),
        };
        let ad = SocketAddrV4::from(Id::from(idv as usize));
        let id2 = usize::from(Id::from(ad)) as u64;
        out.m(&format!("codec-addr {}", idv), &addr_sx(&ad));
        out.o(&format!("o-codec-id {} {} {}", idv, addr_sx(&ad), id2));
        out.stat(if idv >> 48 != 0 { "codec-id-high-bits-set" } else { "codec-id-48-bit" });
        out.distinct(&(12u8, idv));
    }
    // Display of an Id is the address
    let a = SocketAddrV4::new(Ipv4Addr::new(1, 2, 3, 4), 5);
    if format!("{}", Id::from(a)) != "1.2.3.4:5" {
        out.v("codec-display", &format!("{}", Id::from(a)));
    }
    out.sample("codec: addr 1.2.3.4:5 <-> id 1108152156165; all 65536 ports of each swept ip checksummed against the model");
}

fn main() {
    let args: Vec<String> = std::env::args().collect();
    if args.len() > 1 && args[1] == "--child" {
        child_main(&args[2..]);
    }
    let mut out = Out::new();
    out.max_samples = 8;
    let thorough = thorough();
    let mut rng = Rng::new(seed());
    if arg_str("--only").as_deref() != Some("trace") {
        codec_part(&mut out, &mut rng, thorough);
    }
    // fact the model's `zeroWait` branch rests on
    match UdpSocket::bind("127.0.0.1:0") {
        Ok(s) => {
            if s.set_read_timeout(Some(Duration::ZERO)).is_ok() {
                out.v("zero-read-timeout-accepted", "std accepted set_read_timeout(Some(0)): the model's zeroWait branch is wrong");
            }
        }
        Err(e) => out.v("no-loopback-udp", &e.to_string()),
    }
    if arg_str("--only").as_deref() != Some("codec") {
        let n_scen = arg_u64("--scenarios", if thorough { 60 } else { 6 }) as usize;
        let par = if thorough { 12 } else { 6 };
        let seeds: Vec<u64> = (0..n_scen).map(|_| rng.next()).collect();
        let results: Arc<Mutex<Vec<(usize, Result<ScenarioOut, String>)>>> = Arc::new(Mutex::new(Vec::new()));
        let next = Arc::new(Mutex::new(0usize));
        let mut ths = Vec::new();
        for _ in 0..par.min(n_scen) {
            let seeds = seeds.clone();
            let results = results.clone();
            let next = next.clone();
            ths.push(std::thread::spawn(move || loop {
                let i = {
                    let mut g = next.lock().unwrap();
                    let i = *g;
                    *g += 1;
                    i
                };
                if i >= seeds.len() {
                    break;
                }
                let res = run_scenario(seeds[i]);
                results.lock().unwrap().push((i, res));
            }));
        }
        // watchdog: a scenario takes ~2 s; everything must be over long before this
        let t0 = std::time::Instant::now();
        let limit = Duration::from_secs(20 + 4 * (n_scen as u64) / (par as u64).max(1) * 3);
        loop {
            if results.lock().unwrap().len() >= n_scen {
                break;
            }
            if t0.elapsed() > limit {
                out.v("hang", &format!("trace scenarios did not finish within {:?}", limit));
                break;
            }
            std::thread::sleep(Duration::from_millis(20));
        }
        let mut res = std::mem::take(&mut *results.lock().unwrap());
        res.sort_by_key(|x| x.0);
        for (_, r) in res {
            match r {
                Ok(s) => {
                    out.o(&s.o_req);
                    for (q, e) in &s.m_cases {
                        out.m(q, e);
                    }
                    for (k, v) in &s.stats {
                        out.stat_n(k, *v);
                    }
                    out.stat("trace-scenarios");
                    out.sample(&s.sample);
                    out.distinct(&(13u8, s.key));
                }
                Err(e) => out.v("hang", &format!("spawn() child could not be started: {}", e)),
            }
        }
    }
    out.finish();
    std::process::exit(0);
}
