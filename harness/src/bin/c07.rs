//! C07 — implementation side of the correspondence (stub).
use srh::out::*;
fn main() {
    let out = Out::new();
    out.finish();
}
