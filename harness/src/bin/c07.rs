//! C07 — message transport obeys the selected network semantics in every interleaving.
//! (i) the `Network` object alone: `send`/`on_deliver`/`on_drop` are crate-private, so they are driven through
//!     `ActorModel::next_state` with scripted `TableActor`s (a `Timeout(src, code(dst,msg))` action makes `src`
//!     send one envelope; a `Deliver` goes to a handler that leaves the state `Owned`, so it is never a no-op;
//!     `Drop` is passed directly). After every op the network is read through `len`, `iter_all` (guarded by
//!     `take(len + 2)`), `iter_deliverable` and its representation.
//! (ii) all maximal action sequences (depth-bounded) of small send-only systems, the six kind x loss combinations.
use srh::out::*;
use srh::rng::Rng;
use srh::table_actor::*;
use stateright::actor::{ActorModel, ActorModelAction, ActorModelState, Network};
use stateright::Model;
use std::collections::BTreeMap;
use std::panic::{catch_unwind, AssertUnwindSafe};
use std::sync::Arc;

type A = TableActor<TMsg>;
type Act = ActorModelAction<TMsg, TTimer, TRandom>;
type St = ActorModelState<A, Hist>;

const MSGS: u8 = 3;

fn timer_code(dst: usize, msg: u8) -> u8 { (dst as u8) * 4 + msg }

/// actor that sends (dst,msg) on Timeout(code(dst,msg)) and accepts every message with an `Owned` state
fn scripted_table(n: usize) -> Table {
    let mut t = Table::default();
    for dst in 0..=n {
        for m in 0..MSGS {
            t.timeout.insert((0, timer_code(dst, m)), Row { ns: None, cmds: vec![TCmd::Send(dst, m)] });
        }
    }
    for src in 0..=n {
        for m in 0..MSGS {
            t.msg.insert((0, src, m), Row { ns: Some(0), cmds: vec![] });
        }
    }
    t
}

fn observe(net: &Network<TMsg>) -> String {
    let len = net.len();
    let ordered = matches!(net, Network::Ordered(_));
    let mut all: Vec<(usize, usize, u64)> = net.iter_all().take(len + 2).map(|e| (usize::from(e.src), usize::from(e.dst), e.msg.code())).collect();
    let mut del: Vec<(usize, usize, u64)> = net.iter_deliverable().map(|e| (usize::from(e.src), usize::from(e.dst), e.msg.code())).collect();
    if !ordered { all.sort(); del.sort(); }
    let p = |v: &Vec<(usize, usize, u64)>| format!("({})", v.iter().map(|(s, d, m)| format!("({} {} {})", s, d, m)).collect::<Vec<_>>().join(" "));
    format!("{} {} {} {}", net_sx(net), len, p(&all), p(&del))
}

#[derive(Clone, Copy, Debug, PartialEq)]
enum Op { Send(usize, usize, u8), Deliver(usize, usize, u8), Drop(usize, usize, u8) }
impl Op {
    fn sx(&self) -> String {
        match self {
            Op::Send(s, d, m) => format!("(s {} {} {})", s, d, m),
            Op::Deliver(s, d, m) => format!("(d {} {} {})", s, d, m),
            Op::Drop(s, d, m) => format!("(x {} {} {})", s, d, m),
        }
    }
    fn action(&self) -> Act {
        match *self {
            Op::Send(s, d, m) => mk_action(&[2, s as u64, timer_code(d, m) as u64]),
            Op::Deliver(s, d, m) => mk_action(&[0, s as u64, d as u64, m as u64]),
            Op::Drop(s, d, m) => mk_action(&[1, s as u64, d as u64, m as u64]),
        }
    }
}

fn init_spec(r: &mut Rng, kind: NetKind, n: usize) -> SysSpec {
    let n_env = match r.below(3) { 0 => 0, 1 => r.range(1, 2), _ => r.range(3, 5) };
    // few distinct envelopes so that identical copies are common
    let init_envs: Vec<(usize, usize, u8)> = (0..n_env).map(|_| { let w = if r.chance(1, 2) { 1 } else { MSGS as usize }; (r.below(n), r.below(n + 1), r.below(w) as u8) }).collect();
    let last = if kind == NetKind::Dup && r.chance(1, 3) { Some((r.below(n), r.below(n), r.below(MSGS as usize) as u8)) } else { None };
    let tab = Arc::new(scripted_table(n));
    SysSpec { kind, lossy: true, max_crashes: 0, hist: HistCfg { in_mode: 0, out_mode: 0 }, init_envs, last, tables: (0..n).map(|_| tab.clone()).collect() }
}

fn envs_sx(v: &[(usize, usize, u8)]) -> String {
    format!("({})", v.iter().map(|(s, d, m)| format!("({} {} {})", s, d, m)).collect::<Vec<_>>().join(" "))
}
fn last_sx(l: &Option<(usize, usize, u8)>) -> String {
    match l { None => "none".into(), Some((s, d, m)) => format!("(some ({} {} {}))", s, d, m) }
}

/// one op sequence on the network object; `wild` = also ops the model does not offer (error branches, model only)
fn net_sequence(out: &mut Out, r: &mut Rng, kind: NetKind, max_ops: usize, wild: bool, sample: bool) {
    let n = r.range(2, 3);
    let spec = init_spec(r, kind, n);
    let model: ActorModel<A, HistCfg, Hist> = spec.model(spec.table_actors::<TMsg>(None));
    let mut st: St = model.init_states().pop().unwrap();
    let mut ops: Vec<Op> = Vec::new();
    let mut obs: Vec<String> = vec![observe(&st.network)];
    let mut panicked = false;
    let n_ops = r.range(1, max_ops);
    // a narrow alphabet in half of the sequences: many repeats of identical envelopes, long single flows
    let narrow = r.chance(1, 2);
    for _ in 0..n_ops {
        let deliverable: Vec<(usize, usize, u8)> = st.network.iter_deliverable().map(|e| (usize::from(e.src), usize::from(e.dst), e.msg.0)).collect();
        let rand_env = |r: &mut Rng| if narrow { (0usize, r.below(2), r.below(2) as u8) } else { (r.below(n), r.below(n + 1), r.below(MSGS as usize) as u8) };
        let op = if wild && r.chance(1, 6) {
            let (s, d, m) = rand_env(r);
            if r.chance(1, 2) { Op::Drop(s, d, m) } else { Op::Deliver(s, d.min(n - 1), m) }
        } else {
            match r.below(5) {
                0 | 1 => { let (s, d, m) = rand_env(r); Op::Send(s, d, m) }
                2 | 3 => {
                    let dl: Vec<_> = deliverable.iter().filter(|e| e.1 < n).collect();
                    if dl.is_empty() { let (s, d, m) = rand_env(r); Op::Send(s, d, m) } else { let e = **r.pick(&dl); Op::Deliver(e.0, e.1, e.2) }
                }
                _ => {
                    if deliverable.is_empty() { let (s, d, m) = rand_env(r); Op::Send(s, d, m) } else { let e = *r.pick(&deliverable); Op::Drop(e.0, e.1, e.2) }
                }
            }
        };
        ops.push(op);
        out.stat(match op { Op::Send(..) => "op-send", Op::Deliver(..) => "op-deliver", Op::Drop(..) => "op-drop" });
        let res = catch_unwind(AssertUnwindSafe(|| model.next_state(&st, op.action())));
        match res {
            Err(_) => { obs.push("panic".into()); panicked = true; out.stat("op-panicked"); break; }
            Ok(None) => {
                // cannot happen by construction (handlers are never no-ops, recipients exist)
                out.v("net-op-ignored", &format!("op {} returned None in {}", op.sx(), net_sx(&st.network)));
                break;
            }
            Ok(Some(s2)) => { st = s2; obs.push(observe(&st.network)); }
        }
        let len = st.network.len();
        if len >= 2 { out.stat("obs-len>=2"); }
        if let Network::UnorderedNonDuplicating(ms) = &st.network { if ms.values().any(|c| *c > 1) { out.stat("obs-multiset-count>1"); } }
        if let Network::Ordered(fl) = &st.network { if fl.values().any(|q| q.len() > 2) { out.stat("obs-flow-len>2"); } if fl.len() > 1 { out.stat("obs-several-flows"); } }
    }
    let groups = format!("({})", ops.iter().map(|o| format!("({})", o.sx())).collect::<Vec<_>>().join(" "));
    let head = format!("{} {} {}", kind.sx(), envs_sx(&spec.init_envs), last_sx(&spec.last));
    out.m(&format!("net-run {} {}", head, groups), &obs.iter().map(|o| if o == "panic" { o.clone() } else { format!("({})", o) }).collect::<Vec<_>>().join(" "));
    out.stat(&format!("net-seq-{}{}", kind.name(), if wild { "-wild" } else { "" }));
    if !wild && !panicked {
        let mut steps = vec![format!("(() {} -)", obs[0])];
        for (o, ob) in ops.iter().zip(obs.iter().skip(1)) { steps.push(format!("(({}) {} -)", o.sx(), ob)); }
        out.o(&format!("o-net {} {} t {} {} ({})", kind.sx(), n, envs_sx(&spec.init_envs), last_sx(&spec.last), steps.join(" ")));
    }
    if wild && !panicked { out.stat("wild-seq-no-panic"); }
    if ops.len() >= 2 { out.distinct(&(0u8, kind.sx(), spec.init_envs.clone(), groups.clone())); }
    if sample { out.sample(&format!("network {} init {} ops {}", kind.name(), envs_sx(&spec.init_envs), groups)); }
}

/// sends of the handler a transition invoked
fn sends_of(spec: &SysSpec, log: &[Invocation]) -> Vec<Op> {
    let mut v = Vec::new();
    for inv in log {
        let tab = &spec.tables[inv.id];
        let cmds: &[TCmd] = match &inv.ev {
            Ev::Start => &tab.start.1,
            Ev::Msg { state, src, msg } => tab.msg.get(&(*state, *src, *msg as u8)).map(|r| &r.cmds[..]).unwrap_or(&[]),
            Ev::Timeout { state, timer } => tab.timeout.get(&(*state, *timer)).map(|r| &r.cmds[..]).unwrap_or(&[]),
            Ev::Random { state, random } => tab.random.get(&(*state, *random)).map(|r| &r.cmds[..]).unwrap_or(&[]),
        };
        for c in cmds { if let TCmd::Send(d, m) = c { v.push(Op::Send(inv.id, *d, *m)); } }
    }
    v
}

fn acts_sx(model: &ActorModel<A, HistCfg, Hist>, st: &St) -> (Vec<(Vec<u64>, Act)>, String) {
    let mut acts = Vec::new();
    model.actions(st, &mut acts);
    let mut keyed: Vec<(Vec<u64>, Act)> = acts.into_iter().map(|a| (action_key(&a), a)).collect();
    keyed.sort_by(|a, b| a.0.cmp(&b.0));
    let s = format!("({})", keyed.iter().map(|(_, a)| action_sx(a)).collect::<Vec<_>>().join(" "));
    (keyed, s)
}

/// (ii) all maximal action sequences of a small send-only system
fn scenario(out: &mut Out, r: &mut Rng, kind: NetKind, lossy: bool, depth: usize, cap: usize, sample: bool) {
    let p = GenParams { actors: (2, 3), states: (1, 2), msgs: 2, max_cmds: 2, density: 35, use_timers: false, use_random: false,
        ghost_dst: true, max_crashes: (0, 1), ..Default::default() };
    let mut spec = gen_sys(r, &p);
    spec.kind = kind; spec.lossy = lossy; spec.last = None;
    spec.hist = HistCfg { in_mode: 0, out_mode: 0 };
    if spec.init_envs.len() > 2 { spec.init_envs.truncate(2); }
    let log = new_log();
    let model = spec.model(spec.table_actors::<TMsg>(Some(&log)));
    let sx = spec.to_sx(&[]);
    take_log(&log);
    let st0: St = model.init_states().pop().unwrap();
    let init_sends = sends_of(&spec, &take_log(&log));

    // depth-first enumeration of maximal sequences; each with its op groups and observations
    struct Frame { st: St, path: Vec<String>, steps: Vec<String> }
    let mut paths: Vec<Vec<String>> = Vec::new();
    let mut oracle_reqs: Vec<String> = Vec::new();
    let (_, a0) = acts_sx(&model, &st0);
    let first = format!("(({}) {} {})", init_sends.iter().map(|o| o.sx()).collect::<Vec<_>>().join(" "), observe(&st0.network), a0);
    fn go(model: &ActorModel<A, HistCfg, Hist>, spec: &SysSpec, log: &Log, f: Frame, depth: usize, cap: usize,
          paths: &mut Vec<Vec<String>>, oracle: &mut Vec<String>) {
        if paths.len() >= cap { return; }
        let (keyed, _) = acts_sx(model, &f.st);
        let mut nexts = Vec::new();
        if depth > 0 {
            for (k, a) in keyed {
                take_log(log);
                if let Some(s2) = model.next_state(&f.st, a.clone()) {
                    let lg = take_log(log);
                    nexts.push((k, a, s2, lg));
                }
            }
        }
        if nexts.is_empty() {
            paths.push(f.path.clone());
            oracle.push(format!("({})", f.steps.join(" ")));
            return;
        }
        for (k, a, s2, lg) in nexts {
            let mut ops: Vec<Op> = Vec::new();
            match k[0] {
                0 => ops.push(Op::Deliver(k[1] as usize, k[2] as usize, k[3] as u8)),
                1 => ops.push(Op::Drop(k[1] as usize, k[2] as usize, k[3] as u8)),
                _ => {}
            }
            ops.extend(sends_of(spec, &lg));
            let (_, a2) = acts_sx(model, &s2);
            let mut steps = f.steps.clone();
            steps.push(format!("(({}) {} {})", ops.iter().map(|o| o.sx()).collect::<Vec<_>>().join(" "), observe(&s2.network), a2));
            let mut path = f.path.clone();
            path.push(action_sx(&a));
            go(model, spec, log, Frame { st: s2, path, steps }, depth - 1, cap, paths, oracle);
        }
    }
    go(&model, &spec, &log, Frame { st: st0, path: vec![], steps: vec![first] }, depth, cap, &mut paths, &mut oracle_reqs);
    let exp = format!("({})", paths.iter().map(|p| format!("({})", p.join(" "))).collect::<Vec<_>>().join(" "));
    out.m(&format!("traces {} {} {}", sx, depth, cap), &exp);
    let head = format!("o-net {} {} {} {} none", kind.sx(), spec.tables.len(), if lossy { "t" } else { "f" }, envs_sx(&spec.init_envs));
    // every 1st..: all sequences if few, else an evenly spread sample of 40
    let stride = (oracle_reqs.len() / 40).max(1);
    for (i, o) in oracle_reqs.iter().enumerate() { if i % stride == 0 { out.o(&format!("{} {}", head, o)); out.stat("scenario-sequences-to-oracle"); } }
    out.stat(&format!("scenario-{}-{}", kind.name(), if lossy { "lossy" } else { "reliable" }));
    out.stat_n("scenario-sequences", paths.len() as u64);
    if paths.len() >= cap { out.stat("scenario-capped"); }
    let longest = paths.iter().map(|p| p.len()).max().unwrap_or(0);
    out.stat(&format!("scenario-longest-{}", longest));
    if longest >= 2 { out.distinct(&(1u8, sx.clone())); }
    if sample { out.sample(&format!("scenario {} depth {} -> {} maximal sequences", sx, depth, paths.len())); }
    let _ = BTreeMap::<u8, u8>::new();
}

fn main() {
    quiet_panics();
    let mut out = Out::new();
    let mut r = Rng::new(seed());
    let th = thorough();
    let n_seq = arg_u64("--sequences", if th { 100_000 } else { 6_000 }) as usize;
    let n_scen = arg_u64("--scenarios", if th { 1_200 } else { 90 }) as usize;
    for i in 0..n_seq {
        let kind = NetKind::all()[i % 3];
        let wild = i % 5 == 4;
        let mut rr = r.fork();
        net_sequence(&mut out, &mut rr, kind, 30, wild, i < 3);
    }
    for i in 0..n_scen {
        let kind = NetKind::all()[i % 3];
        let lossy = (i / 3) % 2 == 0;
        let mut rr = r.fork();
        scenario(&mut out, &mut rr, kind, lossy, if th { 6 } else { 5 }, 300, i < 2);
    }
    out.finish();
}
