//! C09 — crash faults: every allowed crash point is explored; crashed actors stay silent.
//! Random `TableActor` systems with a crash budget of 1..3 whose handlers hold timers and pending choices are
//! walked through the `Model` trait (as C06); the crash clauses are evaluated on the walk and on the handler
//! invocation log (`o-crash`); when the walk closes, BFS and DFS checkers are run on the same model and their
//! `unique_state_count`, visited states (StateRecorder) and crash-dependent discoveries are compared with the
//! structural reachable set (`reach`).
use srh::out::*;
use srh::rng::Rng;
use srh::table_actor::*;
use stateright::actor::{ActorModel, ActorModelState};
use stateright::{Checker, Expectation, Model, StateRecorder};
use std::collections::{BTreeSet, HashSet};

type A = TableActor<TMsg>;
type M = ActorModel<A, HistCfg, Hist>;
type St = ActorModelState<A, Hist>;

fn budget_exhausted(m: &M, s: &St) -> bool { s.crashed.iter().filter(|c| **c).count() == m.max_crashes }
fn actor0_up(_: &M, s: &St) -> bool { !s.crashed.first().copied().unwrap_or(false) }
fn always_true(_: &M, _: &St) -> bool { true }

fn summarize<C: Checker<M>>(chk: C) -> (usize, bool, bool) {
    let d = chk.discoveries();
    (chk.unique_state_count(), d.contains_key("budget-exhausted"), d.contains_key("actor0-up"))
}

fn run_system(out: &mut Out, spec: &SysSpec, bound: usize, sample: bool) {
    let log = new_log();
    // the crash budget is a setting of the model, whatever the order of the builder calls
    let order = (spec.tables.len() + spec.max_crashes + spec.init_envs.len()) as u8 % 3;
    srh::table_actor::BUILDER_ORDER.store(order, std::sync::atomic::Ordering::Relaxed);
    out.stat(&format!("builder-call-order-{}", order));
    let model: M = spec.model(spec.table_actors::<TMsg>(Some(&log)));
    let sx = spec.to_sx(&[]);
    let g = explore(&model, bound, &tstate_sx, Some(&log));
    out.m(&format!("graph {} {}", sx, bound), &g.to_sx());
    out.o(&format!("o-crash {} {}", sx, g.to_sx_with_log()));
    out.stat(&format!("net-{}", spec.kind.name()));
    out.stat(&format!("max-crashes-{}", spec.max_crashes));
    out.stat(&format!("actors-{}", spec.tables.len()));
    out.stat_n("states-discovered", g.states.len() as u64);
    out.stat_n("transitions", g.transitions() as u64);

    // identity: the crate's Eq / fingerprint against structural identity on everything discovered
    let fps: HashSet<u64> = g.raw.iter().map(stateright::verif::fingerprint).collect();
    if fps.len() != g.states.len() {
        out.v("identity", &format!("system {}: {} structurally distinct states but {} distinct fingerprints", sx, g.states.len(), fps.len()));
    }
    let mut crash_steps = 0u64;
    let mut max_down = 0usize;
    for (i, rec) in g.records.iter().enumerate() {
        let st = &g.raw[i];
        let down = st.crashed.iter().filter(|c| **c).count();
        max_down = max_down.max(down);
        for t in rec {
            if t.action_key[0] == 3 {
                crash_steps += 1;
                if !st.timers_set[t.action_key[1] as usize].iter().next().is_none() { out.stat("crash-discards-timers"); }
                if !st.random_choices[t.action_key[1] as usize].map.is_empty() { out.stat("crash-discards-choices"); }
                if st.timers_set[t.action_key[1] as usize].iter().next().is_none() && st.random_choices[t.action_key[1] as usize].map.is_empty() { out.stat("crash-of-idle-actor"); }
                if let Res::To(j) = t.res {
                    let s2 = &g.raw[j];
                    if s2 == st { out.v("crash-not-distinct", &format!("system {} state {}: Crash({}) yields an equal state (PartialEq)", sx, g.states[i], t.action_key[1])); }
                    if stateright::verif::fingerprint(s2) == stateright::verif::fingerprint(st) {
                        out.v("crash-not-distinct", &format!("system {} state {}: Crash({}) yields the same fingerprint", sx, g.states[i], t.action_key[1]));
                    }
                }
            }
            if t.action_key[0] == 0 && st.crashed.get(t.action_key[2] as usize).copied().unwrap_or(false) { out.stat("delivery-to-crashed-offered"); }
        }
    }
    out.stat_n("crash-steps", crash_steps);
    out.stat(&format!("max-simultaneously-crashed-{}", max_down));
    if crash_steps > 0 { out.distinct(&sx); }

    if g.closed() {
        out.stat("graph-closed");
        let mine: BTreeSet<String> = g.states.iter().cloned().collect();
        for dfs in [false, true] {
            let (rec, acc) = StateRecorder::new_with_accessor();
            let m2 = spec.model(spec.table_actors::<TMsg>(None))
                .property(Expectation::Always, "true", always_true)
                .property(Expectation::Sometimes, "budget-exhausted", budget_exhausted)
                .property(Expectation::Always, "actor0-up", actor0_up);
            let b = m2.checker().visitor(rec);
            let (uniq, d_full, d_zero) = if dfs { summarize(b.spawn_dfs().join()) } else { summarize(b.spawn_bfs().join()) };
            let name = if dfs { "dfs" } else { "bfs" };
            let visited_list: Vec<String> = acc().iter().map(|s| state_sx(s, &tstate_sx)).collect();
            out.o(&format!("o-reach {} {} ({})", sx, bound, visited_list.join(" ")));
            let visited: BTreeSet<String> = visited_list.iter().cloned().collect();
            if visited != mine {
                let missing: Vec<&String> = mine.difference(&visited).take(2).collect();
                let extra: Vec<&String> = visited.difference(&mine).take(2).collect();
                out.v("explored", &format!("system {}: {} checker visited {} states, structural reachable set has {}; missing {:?} extra {:?}", sx, name, visited.len(), mine.len(), missing, extra));
            }
            let vecs: BTreeSet<Vec<u8>> = acc().iter().map(|s| s.crashed.iter().map(|c| *c as u8).collect()).collect();
            let vs = format!("({})", vecs.iter().map(|v| srh::sx::nums(v.iter())).collect::<Vec<_>>().join(" "));
            out.m(&format!("reach {} {}", sx, bound), &format!("closed {} {} {} {}", uniq, vs, srh::sx::b(d_full), srh::sx::b(d_zero)));
            out.stat(&format!("checker-run-{}", name));
            out.stat(&format!("crashed-vectors-seen-{}", vecs.len().min(8)));
        }
    } else {
        out.stat("graph-cut-by-bound");
    }
    if sample { out.sample(&format!("system {} -> {} states, {} crash steps, closed={}", sx, g.states.len(), crash_steps, g.closed())); }
}

fn main() {
    quiet_panics();
    let mut out = Out::new();
    let mut r = Rng::new(seed());
    let th = thorough();
    let n_sys = arg_u64("--systems", if th { 2800 } else { 280 }) as usize;
    let bound = arg_u64("--bound", if th { 400 } else { 250 }) as usize;
    for i in 0..n_sys {
        let mut rr = r.fork();
        let mut p = GenParams { max_crashes: (1, 3), ..Default::default() };
        match i % 3 {
            0 => { p.actors = (2, 3); p.density = 25; p.max_cmds = 2; p.states = (2, 2); }   // small: closes often
            1 => { p.actors = (2, 4); p.density = 35; }
            _ => { p.actors = (3, 4); }
        }
        let mut spec = gen_sys(&mut rr, &p);
        // unbounded logs never close; keep the windowed / off modes for two thirds of the systems
        if i % 3 != 2 {
            if spec.hist.in_mode == 1 || spec.hist.in_mode == 2 { spec.hist.in_mode = 3; }
            if spec.hist.out_mode == 1 || spec.hist.out_mode == 2 { spec.hist.out_mode = 3; }
        }
        run_system(&mut out, &spec, bound, i < 3);
    }
    // BIG systems (66-72 actors, more than a machine word has bits): which actor is down, whose timers and choices are
    // discarded and the crash budget must not depend on the actor's index modulo anything; sparse tables, small bound
    for _ in 0..(if th { 6 } else { 2 }) {
        let mut rr = r.fork();
        let p = GenParams { actors: (66, 72), density: 6, max_cmds: 1, states: (2, 2), max_crashes: (2, 3), ghost_dst: false, ..Default::default() };
        let mut spec = gen_sys(&mut rr, &p);
        spec.hist.in_mode = 0; spec.hist.out_mode = 0;
        spec.init_envs.truncate(2);
        out.stat("big-systems-66-to-72-actors");
        run_system(&mut out, &spec, 50, false);
    }
    out.finish();
}
