//! utilobs — coverage-gap closing harness (see the worker task); implementation side.
//!
//! A. `DenseNatMap`: len / Default / Index / IndexMut / owned IntoIterator / iter / values / From<Vec>
//!    (model `dnx-*`, oracles `o-dnx-view`, `o-dnx-set`).
//! B. `RewritePlan::new`, `Debug`, `From<DenseNatMap>` / `From<&DenseNatMap>` (model `plan-*`, oracles `o-plan-*`).
//! C. `HashableHashSet` / `HashableHashMap`: new / with_capacity / default, hash-based `Ord`, `&set` iteration,
//!    serde round trip (model `hh-*`, `json-*`, oracles `o-hh-*`, direct laws).
//! D. defaults: `VectorClock::new`, `Timers::default`, tester `Default`s, `RandomChoices::default` (direct laws;
//!    `vc-*` commands of the C20 model for the empty clock).
use serde::de::DeserializeOwned;
use serde::Serialize;
use srh::out::*;
use srh::rec::{record, Tok};
use srh::rng::Rng;
use srh::sem_util::{drive, gen_history, lin_summary, sc_summary, Wire};
use srh::sx;
use stateright::actor::{Id, RandomChoices, Timers};
use stateright::semantics::register::Register;
use stateright::semantics::write_once_register::WORegister;
use stateright::semantics::{ConsistencyTester, LinearizabilityTester, SequentialConsistencyTester};
use stateright::util::{DenseNatMap, HashableHashMap, HashableHashSet, VectorClock};
use stateright::RewritePlan;
use std::cmp::Ordering;
use std::collections::hash_map::DefaultHasher;
use std::collections::{BTreeMap, BTreeSet, HashMap, VecDeque};
use std::fmt::Debug;
use std::hash::{Hash, Hasher};
use std::panic::{catch_unwind, AssertUnwindSafe};

fn ord(o: Option<Ordering>) -> &'static str {
    match o {
        None => "none",
        Some(Ordering::Less) => "lt",
        Some(Ordering::Equal) => "eq",
        Some(Ordering::Greater) => "gt",
    }
}
fn opt_u32(x: &Option<u32>) -> String {
    sx::opt(x, |v| v.to_string())
}
fn opts(xs: &[Option<u32>]) -> String {
    sx::list(xs.iter().map(opt_u32))
}
/// `panic` or the value
fn idx_s<T: ToString>(x: &Option<T>) -> String {
    match x {
        None => "panic".into(),
        Some(v) => v.to_string(),
    }
}
fn pairs_s(ps: &[(usize, u32)]) -> String {
    sx::list(ps.iter().map(|(k, v)| format!("({} {})", k, v)))
}

// ------------------------------------------------------------------------------------------------
// A. DenseNatMap
// ------------------------------------------------------------------------------------------------
/// a second key type: the map's code is generic in `K`
#[derive(Clone, Copy, Debug, PartialEq, Eq, Hash)]
struct Slot(usize);
impl From<usize> for Slot {
    fn from(u: usize) -> Self {
        Slot(u)
    }
}
impl From<Slot> for usize {
    fn from(s: Slot) -> usize {
        s.0
    }
}

const BUILDS: usize = 5;
fn build<K>(vs: &[u32], how: usize) -> DenseNatMap<K, u32>
where
    K: From<usize>,
    usize: From<K>,
{
    match how {
        0 => DenseNatMap::from(vs.to_vec()),
        1 => vs.iter().cloned().collect(),
        2 => {
            let mut m = DenseNatMap::new();
            for (k, v) in vs.iter().enumerate() {
                m.insert(K::from(k), *v);
            }
            m
        }
        3 => {
            let mut m = DenseNatMap::default();
            for (k, v) in vs.iter().enumerate() {
                m.insert(K::from(k), *v);
            }
            m
        }
        _ => vs.iter().enumerate().rev().map(|(k, v)| (K::from(k), *v)).collect(),
    }
}

fn gets_of<K>(m: &DenseNatMap<K, u32>, n: usize) -> Vec<Option<u32>>
where
    K: From<usize>,
    usize: From<K>,
{
    (0..n).map(|k| m.get(K::from(k)).copied()).collect()
}

fn dnm_view<K>(out: &mut Out, vs: &[u32], how: usize, tag: &str)
where
    K: From<usize> + Copy + Debug + PartialEq,
    usize: From<K>,
{
    let m: DenseNatMap<K, u32> = build(vs, how);
    let n = m.len();
    let gets = gets_of(&m, n + 3);
    let idxs: Vec<Option<u32>> = (0..n + 3).map(|k| catch_unwind(AssertUnwindSafe(|| m[K::from(k)])).ok()).collect();
    let into: Vec<(usize, u32)> = m.clone().into_iter().map(|(k, v)| (usize::from(k), v)).collect();
    let it: Vec<(usize, u32)> = m.iter().map(|(k, v)| (usize::from(k), *v)).collect();
    let vals: Vec<u32> = m.values().copied().collect();
    let svs = sx::nums(vs);
    out.m(&format!("dnx-view {}", svs), &format!("{} {} {} {}", n, pairs_s(&into), pairs_s(&it), sx::nums(&vals)));
    out.o(&format!(
        "o-dnx-view {} {} {} {} {} {}",
        n,
        opts(&gets),
        sx::list(idxs.iter().map(idx_s)),
        pairs_s(&into),
        pairs_s(&it),
        sx::nums(&vals)
    ));
    // all constructions of the same contents are equal
    let m0: DenseNatMap<K, u32> = DenseNatMap::from(vs.to_vec());
    if m != m0 {
        out.v("dnm-build", &format!("construction {} of {} differs from From<Vec>: {:?} vs {:?}", how, svs, m, m0));
    }
    out.stat(&format!("dnm-view-{}-build{}", tag, how));
    out.stat(&format!("dnm-len-{}", n.min(6)));
    out.distinct(&(10u8, vs.to_vec()));
}

#[derive(Clone, Debug)]
enum Op {
    Ins(usize, u32),
    Set(usize, u32),
    Idx(usize),
    Get(usize),
    Len,
}
fn op_s(o: &Op) -> String {
    match o {
        Op::Ins(k, v) => format!("(ins {} {})", k, v),
        Op::Set(k, v) => format!("(set {} {})", k, v),
        Op::Idx(k) => format!("(idx {})", k),
        Op::Get(k) => format!("(get {})", k),
        Op::Len => "(len)".into(),
    }
}

fn dnm_run<K>(out: &mut Out, r: &mut Rng, sample: bool)
where
    K: From<usize> + Copy + Debug + PartialEq,
    usize: From<K>,
{
    let vs: Vec<u32> = (0..r.below(5)).map(|_| r.below(50) as u32).collect();
    let nops = r.below(9);
    let mut m: DenseNatMap<K, u32> = build(&vs, r.below(BUILDS));
    let mut ops = Vec::new();
    let mut obs: Vec<String> = Vec::new();
    let mut panicked = false;
    let mut cur_len = vs.len();
    for _ in 0..nops {
        // keys mostly valid for the current length; sometimes beyond
        let k_valid = if cur_len > 0 { r.below(cur_len) } else { 0 };
        let k_any = r.below(cur_len + 3);
        let v = r.below(50) as u32;
        let op = match r.below(10) {
            0 | 1 => Op::Ins(cur_len, v),
            2 => Op::Ins(if r.chance(4, 5) { k_valid } else { k_any }, v),
            3 | 4 => Op::Set(if r.chance(5, 6) { k_valid } else { k_any }, v),
            5 | 6 => Op::Idx(if r.chance(5, 6) { k_valid } else { k_any }),
            7 | 8 => Op::Get(k_any),
            _ => Op::Len,
        };
        ops.push(op.clone());
        if panicked {
            continue;
        }
        let res = catch_unwind(AssertUnwindSafe(|| match &op {
            Op::Ins(k, v) => format!("(prev {})", opt_u32(&m.insert(K::from(*k), *v))),
            Op::Set(k, v) => {
                m[K::from(*k)] = *v;
                "unit".to_string()
            }
            Op::Idx(k) => m[K::from(*k)].to_string(),
            Op::Get(k) => opt_u32(&m.get(K::from(*k)).copied()),
            Op::Len => format!("(len {})", m.len()),
        }));
        match res {
            Ok(s) => {
                obs.push(s);
                cur_len = m.len();
                out.stat(match op {
                    Op::Ins(..) => "run-ins-ok",
                    Op::Set(..) => "run-set-ok",
                    Op::Idx(..) => "run-idx-ok",
                    Op::Get(..) => "run-get",
                    Op::Len => "run-len",
                });
            }
            Err(_) => {
                panicked = true;
                out.stat(match op {
                    Op::Ins(..) => "run-ins-panic",
                    Op::Set(..) => "run-set-panic",
                    _ => "run-idx-panic",
                });
            }
        }
    }
    let fin = if panicked { "panic".to_string() } else { sx::nums(m.values()) };
    let req = format!("dnx-run {} {}", sx::nums(&vs), sx::list(ops.iter().map(op_s)));
    out.m(&req, &format!("({}) {}", obs.join(" "), fin));
    if sample {
        out.sample(&format!("{} => ({}) {}", req, obs.join(" "), fin));
    }
    out.distinct(&(11u8, vs, ops.iter().map(op_s).collect::<Vec<_>>()));
}

fn dnm_set<K>(out: &mut Out, r: &mut Rng)
where
    K: From<usize> + Copy + Debug + PartialEq,
    usize: From<K>,
{
    let vs: Vec<u32> = (0..r.below(7)).map(|_| r.below(50) as u32).collect();
    let n = vs.len();
    let k = if n > 0 && r.chance(3, 4) { r.below(n) } else { r.below(n + 3) };
    let v = 50 + r.below(50) as u32;
    let mut m: DenseNatMap<K, u32> = build(&vs, r.below(BUILDS));
    let before = gets_of(&m, n + 3);
    let res = catch_unwind(AssertUnwindSafe(|| {
        *(&mut m[K::from(k)]) = v;
        // read back through Index right away
        m[K::from(k)]
    }));
    let after = match res {
        Ok(back) => {
            if back != v {
                out.v("dnm-index-mut", &format!("m={} m[{}]={} then m[{}] reads {}", sx::nums(&vs), k, v, k, back));
            }
            if m.len() != n {
                out.v("dnm-index-mut-len", &format!("m={} m[{}]={} changed len to {}", sx::nums(&vs), k, v, m.len()));
            }
            out.stat("set-ok");
            opts(&gets_of(&m, n + 3))
        }
        Err(_) => {
            out.stat("set-panic");
            "panic".to_string()
        }
    };
    out.o(&format!("o-dnx-set {} {} {} {}", opts(&before), k, v, after));
    out.distinct(&(12u8, vs, k));
}

fn section_dnm(out: &mut Out, r: &mut Rng, th: bool) {
    // Default / new: empty, equal
    let d: DenseNatMap<Id, u32> = DenseNatMap::default();
    out.m("dnx-default", &format!("{} {}", d.len(), sx::nums(d.values())));
    if d != DenseNatMap::new() || d.len() != 0 || d.get(Id::from(0)).is_some() || d.iter().next().is_some() {
        out.v("dnm-default", &format!("default() is not the empty map: {:?}", d));
    }
    let n = if th { 40_000 } else { 4_000 };
    for c in 0..n {
        let len = if r.chance(1, 20) { 0 } else { 1 + r.below(7) };
        let vs: Vec<u32> = (0..len).map(|_| r.below(50) as u32).collect();
        let how = r.below(BUILDS);
        if c % 2 == 0 {
            dnm_view::<Id>(out, &vs, how, "id");
        } else {
            dnm_view::<Slot>(out, &vs, how, "slot");
        }
        let fv: DenseNatMap<Id, u32> = DenseNatMap::from(vs.clone());
        out.m(&format!("dnx-from-vec {}", sx::nums(&vs)), &format!("{} {}", fv.len(), sx::nums(fv.values())));
        if c % 2 == 0 {
            dnm_run::<Id>(out, r, c < 2);
            dnm_set::<Slot>(out, r);
        } else {
            dnm_run::<Slot>(out, r, false);
            dnm_set::<Id>(out, r);
        }
    }
}

// ------------------------------------------------------------------------------------------------
// B. plans
// ------------------------------------------------------------------------------------------------
type IdPlan = RewritePlan<Id, DenseNatMap<Id, Id>>;
fn plan_list(p: &IdPlan) -> Vec<usize> {
    p.get_state().values().map(|id| usize::from(*id)).collect()
}
fn lookup(x: &Id, s: &DenseNatMap<Id, Id>) -> Id {
    *s.get(*x).unwrap()
}

/// reindex a collection of plain numbers / of ids under `plan`; model + oracle lines
fn reindex_case(out: &mut Out, r: &mut Rng, plan: &IdPlan, tag: &str) {
    let pl = plan_list(plan);
    let plen = pl.len();
    let xlen = match r.below(8) {
        0 => r.below(plen + 1),
        1 => plen + 1 + r.below(2),
        _ => plen,
    };
    let spl = sx::nums(&pl);
    if r.chance(1, 2) {
        let xs: Vec<u32> = (0..xlen).map(|_| r.below(50) as u32).collect();
        let resp = if r.chance(1, 3) {
            let dq: VecDeque<u32> = xs.iter().cloned().collect();
            match catch_unwind(AssertUnwindSafe(|| plan.reindex(&dq))) {
                Ok(ys) => sx::nums(ys.iter()),
                Err(_) => "panic".into(),
            }
        } else {
            match catch_unwind(AssertUnwindSafe(|| plan.reindex(&xs))) {
                Ok(ys) => sx::nums(ys.iter()),
                Err(_) => "panic".into(),
            }
        };
        out.stat(&format!("reindex-{}-n-{}", tag, if resp == "panic" { "panic" } else { "ok" }));
        out.m(&format!("plan-reindex {} {} n", spl, sx::nums(&xs)), &resp);
        out.o(&format!("o-plan-reindex {} {} n {}", spl, sx::nums(&xs), resp));
        out.distinct(&(21u8, pl.clone(), xs));
    } else {
        let xs: Vec<usize> = (0..xlen).map(|_| { let extra = if r.chance(1, 10) { 2 } else { 0 }; r.below(plen.max(1) + extra) }).collect();
        let ids: Vec<Id> = xs.iter().map(|x| Id::from(*x)).collect();
        let resp = match catch_unwind(AssertUnwindSafe(|| plan.reindex(&ids))) {
            Ok(ys) => sx::nums(ys.iter().map(|id| usize::from(*id))),
            Err(_) => "panic".into(),
        };
        out.stat(&format!("reindex-{}-id-{}", tag, if resp == "panic" { "panic" } else { "ok" }));
        out.m(&format!("plan-reindex {} {} id", spl, sx::nums(&xs)), &resp);
        out.o(&format!("o-plan-reindex {} {} id {}", spl, sx::nums(&xs), resp));
        out.distinct(&(22u8, pl.clone(), xs));
    }
}

fn section_plans(out: &mut Out, r: &mut Rng, th: bool) {
    let n = if th { 40_000 } else { 4_000 };
    for c in 0..n {
        // ---- From<DenseNatMap<R, V>> / From<&DenseNatMap<R, V>>
        let plen = if r.chance(1, 15) { 0 } else { r.below(9) };
        let nv = 1 + r.below(6);
        let vals: Vec<u32> = (0..plen).map(|_| r.below(nv) as u32).collect();
        let dm: DenseNatMap<Id, u32> = build(&vals, r.below(BUILDS));
        let p_ref: IdPlan = RewritePlan::from(&dm);
        let p_own: IdPlan = RewritePlan::from(dm.clone());
        let p_sort: IdPlan = RewritePlan::from_values_to_sort(&vals);
        let pl = plan_list(&p_own);
        let svals = sx::nums(&vals);
        if plan_list(&p_ref) != pl || plan_list(&p_sort) != pl {
            out.v(
                "plan-from",
                &format!("values {}: from(owned)={:?} from(&)={:?} from_values_to_sort={:?}", svals, pl, plan_list(&p_ref), plan_list(&p_sort)),
            );
        }
        out.m(&format!("plan-from-dnm {}", svals), &sx::nums(&pl));
        out.m(&format!("plan-from-dnm {}", svals), &sx::nums(plan_list(&p_ref)));
        // the plan built from the plan's own state
        let again: IdPlan = if r.chance(1, 2) { RewritePlan::from(p_own.get_state()) } else { RewritePlan::from(p_own.get_state().clone()) };
        let rws: Vec<Option<usize>> = (0..plen + 2)
            .map(|k| catch_unwind(AssertUnwindSafe(|| usize::from(p_own.rewrite(&Id::from(k))))).ok())
            .collect();
        out.o(&format!("o-plan-from-dnm {} {} {} {}", svals, sx::nums(&pl), sx::nums(plan_list(&again)), sx::list(rws.iter().map(idx_s))));
        let k = r.below(plen + 2);
        out.m(&format!("plan-rewrite {} {}", sx::nums(&pl), k), &idx_s(&rws[k]));
        out.stat(&format!("plan-from-len-{}", plen));
        if pl.iter().enumerate().all(|(i, p)| i == *p) { out.stat("plan-identity"); } else { out.stat("plan-nontrivial"); }
        out.distinct(&(20u8, vals.clone()));
        if c < 2 {
            out.sample(&format!("plan from dense map {} = {:?}; Debug: {:?}", svals, pl, p_own));
        }
        reindex_case(out, r, &p_ref, "from");

        // ---- Debug: exactly `RewritePlan { S: <Debug of the state>, .. }`
        let dbg = format!("{:?}", p_own);
        let want = format!("RewritePlan {{ S: {:?}, .. }}", p_own.get_state());
        if dbg != want {
            out.v("plan-debug", &format!("Debug gives `{}`, documented pieces give `{}`", dbg, want));
        }

        // ---- RewritePlan::new with a DenseNatMap state of its own choosing (any list, not only permutations)
        let slen = r.below(7);
        let perm = r.chance(1, 2);
        let mut st: Vec<usize> = if perm { (0..slen).collect() } else { (0..slen).map(|_| r.below(slen.max(1))).collect() };
        if perm { r.shuffle(&mut st); }
        let state: DenseNatMap<Id, Id> = st.iter().map(|x| Id::from(*x)).collect::<Vec<Id>>().into();
        let p_new: IdPlan = RewritePlan::new(state.clone(), lookup);
        if p_new.get_state() != &state {
            out.v("plan-new-state", &format!("new({:?}, f).get_state() = {:?}", state, p_new.get_state()));
        }
        let k = r.below(slen + 2);
        let rw = catch_unwind(AssertUnwindSafe(|| usize::from(p_new.rewrite(&Id::from(k))))).ok();
        out.m(&format!("plan-rewrite {} {}", sx::nums(&st), k), &idx_s(&rw));
        out.stat(if perm { "plan-new-perm-state" } else { "plan-new-arbitrary-state" });
        reindex_case(out, r, &p_new, if perm { "new-perm" } else { "new-any" });

        // ---- RewritePlan::new with another state type: rewrite(x) = f(x, s), get_state() = s
        let s2: Vec<u32> = (0..r.below(5)).map(|_| r.below(100) as u32).collect();
        let fs: [fn(&u32, &Vec<u32>) -> u32; 3] = [
            |x, s| s.get(*x as usize).copied().unwrap_or(*x),
            |x, s| x.wrapping_add(s.len() as u32),
            |x, s| s.iter().fold(*x, |a, b| a ^ b),
        ];
        let fi = r.below(3);
        let p2: RewritePlan<u32, Vec<u32>> = RewritePlan::new(s2.clone(), fs[fi]);
        let x = r.below(8) as u32;
        if p2.rewrite(&x) != fs[fi](&x, &s2) || p2.get_state() != &s2 {
            out.v("plan-new", &format!("new({:?}, f{}).rewrite({}) = {} but f gives {}", s2, fi, x, p2.rewrite(&x), fs[fi](&x, &s2)));
        }
        let want = format!("RewritePlan {{ S: {:?}, .. }}", s2);
        let wantp = format!("RewritePlan {{\n    S: {},\n    ..\n}}", format!("{:#?}", s2).replace('\n', "\n    "));
        if format!("{:?}", p2) != want || format!("{:#?}", p2) != wantp {
            out.v("plan-debug", &format!("Debug `{:?}` / `{:#?}` vs `{}` / `{}`", p2, p2, want, wantp));
        }
        out.stat(&format!("plan-new-f{}", fi));
    }
}

// ------------------------------------------------------------------------------------------------
// C. HashableHashSet / HashableHashMap
// ------------------------------------------------------------------------------------------------
fn dkey<T: Hash>(t: &T) -> u64 {
    let mut s = DefaultHasher::new();
    t.hash(&mut s);
    s.finish()
}

trait El: Hash + Eq + Ord + Clone + Debug + Serialize + DeserializeOwned + 'static {
    fn gen(r: &mut Rng) -> Self;
    fn name() -> &'static str;
    /// for integer-like types: the number serde_json prints
    fn as_nat(&self) -> Option<u64>;
    /// the text of this value as a JSON object key
    fn key_text(&self) -> String;
}
impl El for u8 {
    fn gen(r: &mut Rng) -> u8 {
        if r.chance(1, 8) { r.below(256) as u8 } else { r.below(10) as u8 }
    }
    fn name() -> &'static str { "u8" }
    fn as_nat(&self) -> Option<u64> { Some(*self as u64) }
    fn key_text(&self) -> String { self.to_string() }
}
impl El for u32 {
    fn gen(r: &mut Rng) -> u32 {
        if r.chance(1, 8) { r.next() as u32 } else { r.below(6) as u32 }
    }
    fn name() -> &'static str { "u32" }
    fn as_nat(&self) -> Option<u64> { Some(*self as u64) }
    fn key_text(&self) -> String { self.to_string() }
}
impl El for Id {
    fn gen(r: &mut Rng) -> Id {
        Id::from(if r.chance(1, 10) { r.below(1 << 20) } else { r.below(8) })
    }
    fn name() -> &'static str { "id" }
    fn as_nat(&self) -> Option<u64> { Some(usize::from(*self) as u64) }
    fn key_text(&self) -> String { usize::from(*self).to_string() }
}
impl El for String {
    fn gen(r: &mut Rng) -> String {
        const WORDS: [&str; 8] = ["", "a", "b", "ab", "ba", "key", "k\"q", "back\\slash"];
        if r.chance(3, 4) {
            WORDS[r.below(WORDS.len())].to_string()
        } else {
            const CH: [char; 10] = ['a', 'b', ' ', '"', '\\', '\n', 'é', '\u{1F600}', '0', '/'];
            (0..r.below(5)).map(|_| CH[r.below(CH.len())]).collect()
        }
    }
    fn name() -> &'static str { "string" }
    fn as_nat(&self) -> Option<u64> { None }
    fn key_text(&self) -> String { self.clone() }
}

const CAPS: [usize; 6] = [0, 1, 3, 16, 100, 1000];

/// the same set built another way (insertion order, capacity, constructor, insert-then-remove)
fn build_set<T: El>(out: &mut Out, r: &mut Rng, xs: &[T], how: usize) -> HashableHashSet<T> {
    let mut order: Vec<T> = xs.to_vec();
    match how {
        0 => {
            let mut s = HashableHashSet::new();
            for x in order { s.insert(x); }
            s
        }
        1 => {
            r.shuffle(&mut order);
            let cap = CAPS[r.below(CAPS.len())];
            let mut s = HashableHashSet::with_capacity(cap);
            if s.capacity() < cap || !s.is_empty() {
                out.v("hh-with-capacity", &format!("set with_capacity({}) gives capacity {} len {}", cap, s.capacity(), s.len()));
            }
            out.stat(&format!("with-capacity-{}", cap));
            for x in order { s.insert(x); }
            s
        }
        2 => {
            order.reverse();
            let mut s: HashableHashSet<T> = Default::default();
            let extra: Vec<T> = (0..r.below(4)).map(|_| T::gen(r)).filter(|e| !xs.contains(e)).collect();
            for e in &extra { s.insert(e.clone()); }
            for x in order { s.insert(x); }
            for e in &extra { s.remove(e); }
            s
        }
        _ => {
            r.shuffle(&mut order);
            order.into_iter().collect()
        }
    }
}
fn build_map<K: El, V: El>(out: &mut Out, r: &mut Rng, ps: &[(K, V)], how: usize) -> HashableHashMap<K, V> {
    // `ps` has distinct keys
    let mut order: Vec<(K, V)> = ps.to_vec();
    match how {
        0 => {
            let mut m = HashableHashMap::new();
            for (k, v) in order { m.insert(k, v); }
            m
        }
        1 => {
            r.shuffle(&mut order);
            let cap = CAPS[r.below(CAPS.len())];
            let mut m = HashableHashMap::with_capacity(cap);
            if m.capacity() < cap || !m.is_empty() {
                out.v("hh-with-capacity", &format!("map with_capacity({}) gives capacity {} len {}", cap, m.capacity(), m.len()));
            }
            out.stat(&format!("with-capacity-{}", cap));
            for (k, v) in order { m.insert(k, v); }
            m
        }
        2 => {
            order.reverse();
            let mut m: HashableHashMap<K, V> = Default::default();
            // overwritten values and removed keys leave no trace
            for (k, _) in ps.iter() { if r.chance(1, 2) { m.insert(k.clone(), V::gen(r)); } }
            let extra: Vec<K> = (0..r.below(3)).map(|_| K::gen(r)).filter(|e| !ps.iter().any(|p| &p.0 == e)).collect();
            for e in &extra { m.insert(e.clone(), V::gen(r)); }
            for (k, v) in order { m.insert(k, v); }
            for e in &extra { m.remove(e); }
            m
        }
        _ => {
            r.shuffle(&mut order);
            order.into_iter().collect()
        }
    }
}

fn dedup<T: El>(xs: Vec<T>) -> Vec<T> {
    let mut o: Vec<T> = Vec::new();
    for x in xs { if !o.contains(&x) { o.push(x); } }
    o
}
fn gen_elems<T: El>(r: &mut Rng) -> Vec<T> {
    let n = if r.chance(1, 20) { 0 } else { 1 + r.below(6) };
    dedup((0..n).map(|_| T::gen(r)).collect())
}
/// a list related to `xs`: same contents in another order, one element more / fewer / replaced, or fresh
fn near_elems<T: El>(r: &mut Rng, xs: &[T]) -> Vec<T> {
    let mut b = xs.to_vec();
    match r.below(6) {
        0 => { r.shuffle(&mut b); }
        1 => { b.push(T::gen(r)); }
        2 => { if !b.is_empty() { let i = r.below(b.len()); b.remove(i); } }
        3 => { if !b.is_empty() { let i = r.below(b.len()); b[i] = T::gen(r); } }
        4 => { b.reverse(); }
        _ => { return gen_elems(r); }
    }
    dedup(b)
}
fn gen_pairs<K: El, V: El>(r: &mut Rng) -> Vec<(K, V)> {
    gen_elems::<K>(r).into_iter().map(|k| (k, V::gen(r))).collect()
}
fn near_pairs<K: El, V: El>(r: &mut Rng, ps: &[(K, V)]) -> Vec<(K, V)> {
    let mut b = ps.to_vec();
    match r.below(7) {
        0 => { r.shuffle(&mut b); }
        1 => { b.push((K::gen(r), V::gen(r))); }
        2 => { if !b.is_empty() { let i = r.below(b.len()); b.remove(i); } }
        3 => { if !b.is_empty() { let i = r.below(b.len()); b[i].1 = V::gen(r); } }
        4 => { if !b.is_empty() { let i = r.below(b.len()); b[i].0 = K::gen(r); } }
        5 => { b.reverse(); }
        _ => { return gen_pairs(r); }
    }
    let mut o: Vec<(K, V)> = Vec::new();
    for p in b { if !o.iter().any(|q| q.0 == p.0) { o.push(p); } }
    o
}

/// pair / triple lines common to sets and maps: `ha`, `hb` = inner stable hashes in iteration order
#[allow(clippy::too_many_arguments)]
fn order_lines<C: Ord + Hash + Debug>(out: &mut Out, tag: &str, a: &C, b: &C, c: &C, ha: &[u64], hb: &[u64], sample: bool) {
    let (ka, kb) = (dkey(a), dkey(b));
    let cab = ord(Some(a.cmp(b)));
    let cba = ord(Some(b.cmp(a)));
    let pab = ord(a.partial_cmp(b));
    let pba = ord(b.partial_cmp(a));
    let eab = a == b;
    out.m(&format!("hh-key {}", sx::nums(ha)), &ka.to_string());
    out.m(&format!("hh-cmp {} {}", sx::nums(ha), sx::nums(hb)), &format!("{} {}", cab, pab));
    out.o(&format!("o-hh-pair {} {} {} {} {} {} {}", ka, kb, cab, cba, pab, pba, sx::b(eab)));
    out.o(&format!("o-hh-trans {} {} {}", cab, ord(Some(b.cmp(c))), ord(Some(a.cmp(c)))));
    // the comparison operators derived from partial_cmp agree with cmp
    if (a < b) != (cab == "lt") || (a <= b) != (cab != "gt") || (a > b) != (cab == "gt") || (a >= b) != (cab != "lt") {
        out.v("hh-operators", &format!("{}: {:?} vs {:?}: operators disagree with cmp={}", tag, a, b, cab));
    }
    if a.cmp(a) != Ordering::Equal {
        out.v("hh-refl", &format!("{}: cmp({:?}, itself) is not Equal", tag, a));
    }
    out.stat(&format!("{}-cmp-{}", tag, cab));
    out.stat(&format!("{}-{}", tag, if eab { "pair-equal" } else { "pair-different" }));
    if !eab && cab == "eq" {
        // reported, not a failure: two different collections with the same 64-bit DefaultHasher hash
        out.stat("genuine-64-bit-collision");
        out.sample(&format!("64-bit collision: {:?} and {:?} both hash to {}", a, b, ka));
    }
    if sample {
        out.sample(&format!("{}: a={:?} b={:?} cmp={} keys {} {}", tag, a, b, cab, ka, kb));
    }
}

fn set_cases<T: El>(out: &mut Out, r: &mut Rng, n: usize) {
    let tag = format!("set-{}", T::name());
    let mut pool: Vec<HashableHashSet<T>> = Vec::new();
    for c in 0..n {
        let xa: Vec<T> = gen_elems(r);
        let xb: Vec<T> = if r.chance(3, 4) { near_elems(r, &xa) } else { gen_elems(r) };
        let xc: Vec<T> = if r.chance(3, 4) { near_elems(r, &xb) } else { gen_elems(r) };
        // every construction of the same contents: equal, cmp Equal, same key
        let how_a = r.below(4);
        let a = build_set(out, r, &xa, how_a);
        for how in 0..4 {
            if how == how_a { continue; }
            let a2 = build_set(out, r, &xa, how);
            if a2 != a || a2.cmp(&a) != Ordering::Equal || a.partial_cmp(&a2) != Some(Ordering::Equal) || dkey(&a2) != dkey(&a) || a2.len() != xa.len() {
                out.v("hh-construction", &format!("{}: {:?} built as {} and as {}: eq={} cmp={:?} keys {} {}", tag, xa, how_a, how, a2 == a, a2.cmp(&a), dkey(&a2), dkey(&a)));
            }
            out.stat(&format!("{}-variant-{}", tag, how));
        }
        let (how_b, how_c) = (r.below(4), r.below(4));
        let b = build_set(out, r, &xb, how_b);
        let cc = build_set(out, r, &xc, how_c);
        // the inner hashes of the elements the REAL objects hold (checked against the generated lists), listed in
        // generation order: the iteration order of a randomly keyed table differs from run to run, the cases file must not
        for (s, xs) in [(&a, &xa), (&b, &xb)] {
            let mut got: Vec<T> = s.iter().cloned().collect(); got.sort();
            let mut want = xs.clone(); want.sort();
            if got != want { out.v("hh-contents", &format!("{}: built from {:?}, holds {:?}", tag, xs, s)); }
        }
        let ha: Vec<u64> = xa.iter().map(stateright::verif::stable_hash).collect();
        let hb: Vec<u64> = xb.iter().map(stateright::verif::stable_hash).collect();
        order_lines(out, &tag, &a, &b, &cc, &ha, &hb, c < 1);
        out.stat(&format!("{}-len-{}", tag, a.len()));
        let mut sa = xa.clone(); sa.sort();
        let mut sb = xb.clone(); sb.sort();
        out.distinct(&(30u8, T::name(), sa, sb));

        // `for x in &set`: every element exactly once
        let mut seen: Vec<T> = Vec::new();
        for x in &a { seen.push(x.clone()); }
        let mut s2 = seen.clone(); s2.sort();
        let mut want = xa.clone(); want.sort();
        if s2 != want {
            out.v("hh-iter", &format!("{}: `for x in &set` yields {:?} for the set {:?}", tag, seen, xa));
        }
        // new / default are empty
        if c == 0 {
            let e: HashableHashSet<T> = HashableHashSet::new();
            let d: HashableHashSet<T> = Default::default();
            if !e.is_empty() || !d.is_empty() || e != d || e.cmp(&d) != Ordering::Equal || e.capacity() != 0 {
                out.v("hh-new", &format!("{}: new()/default() not the empty set", tag));
            }
        }

        // serde: the JSON is the array of the elements in iteration order; round trip
        let text = serde_json::to_string(&a).unwrap();
        let want_text = serde_json::to_string(&seen).unwrap();
        if text != want_text {
            out.v("hh-json", &format!("{}: JSON `{}` is not the array of the elements in iteration order `{}`", tag, text, want_text));
        }
        match serde_json::from_str::<serde_json::Value>(&text) {
            Ok(serde_json::Value::Array(items)) => {
                let each_once = xa.iter().all(|x| items.iter().filter(|i| **i == serde_json::to_value(x).unwrap()).count() == 1);
                if items.len() != xa.len() || !each_once {
                    out.v("hh-json-array", &format!("{}: JSON `{}` does not hold each element of {:?} once", tag, text, xa));
                }
            }
            other => out.v("hh-json-array", &format!("{}: JSON `{}` is not an array: {:?}", tag, text, other)),
        }
        match serde_json::from_str::<HashableHashSet<T>>(&text) {
            Ok(back) => {
                if back != a || back.cmp(&a) != Ordering::Equal {
                    out.v("hh-json-roundtrip", &format!("{}: from_str(`{}`) = {:?} != {:?}", tag, text, back, a));
                }
            }
            Err(e) => out.v("hh-json-roundtrip", &format!("{}: from_str(`{}`) fails: {}", tag, text, e)),
        }
        // reading the elements in another order (and one of them twice) gives the same set
        let mut other = seen.clone();
        r.shuffle(&mut other);
        if let Some(x) = other.first().cloned() { other.push(x); }
        let text2 = serde_json::to_string(&other).unwrap();
        match serde_json::from_str::<HashableHashSet<T>>(&text2) {
            Ok(back) if back == a => {}
            x => out.v("hh-json-order", &format!("{}: from_str(`{}`) = {:?} != {:?}", tag, text2, x.ok(), a)),
        }
        if let Some(ns) = seen.iter().map(|x| x.as_nat()).collect::<Option<Vec<u64>>>() {
            out.m(&format!("json-set {}", sx::nums(&ns)), &text);
        }
        out.stat(&format!("{}-json", tag));
        if pool.len() < 40 { pool.push(a); } else { let i = r.below(40); pool[i] = a; }

        // sorting with Ord: the result is non-decreasing for Ord itself; a BTreeSet keeps one per distinct value
        // (WHICH total order Ord is - today the order of the DefaultHasher keys - is not part of any property:
        // harmless change sem2-2, DESIGN §12; two distinct values comparing Equal would be a 64-bit collision)
        if c % 50 == 49 {
            let mut v = pool.clone();
            v.sort();
            if !v.windows(2).all(|w| w[0] <= w[1] && w[0].cmp(&w[1]) != Ordering::Greater) {
                out.v("hh-sort", &format!("{}: sort() by Ord is not non-decreasing for Ord", tag));
            }
            let bs: BTreeSet<HashableHashSet<T>> = pool.iter().cloned().collect();
            let mut distinct: Vec<&HashableHashSet<T>> = vec![];
            for x in pool.iter() { if !distinct.iter().any(|y| *y == x) { distinct.push(x); } }
            if bs.len() != distinct.len() {
                out.v("hh-btreeset", &format!("{}: BTreeSet of {} sets keeps {} for {} distinct values", tag, pool.len(), bs.len(), distinct.len()));
            }
            out.stat(&format!("{}-sorted-pools", tag));
        }
    }
}

fn map_cases<K: El, V: El>(out: &mut Out, r: &mut Rng, n: usize) {
    let tag = format!("map-{}-{}", K::name(), V::name());
    for c in 0..n {
        let xa: Vec<(K, V)> = gen_pairs(r);
        let xb: Vec<(K, V)> = if r.chance(3, 4) { near_pairs(r, &xa) } else { gen_pairs(r) };
        let xc: Vec<(K, V)> = if r.chance(3, 4) { near_pairs(r, &xb) } else { gen_pairs(r) };
        let how_a = r.below(4);
        let a = build_map(out, r, &xa, how_a);
        for how in 0..4 {
            if how == how_a { continue; }
            let a2 = build_map(out, r, &xa, how);
            if a2 != a || a2.cmp(&a) != Ordering::Equal || a.partial_cmp(&a2) != Some(Ordering::Equal) || dkey(&a2) != dkey(&a) || a2.len() != xa.len() {
                out.v("hh-construction", &format!("{}: {:?} built as {} and as {}: eq={} cmp={:?} keys {} {}", tag, xa, how_a, how, a2 == a, a2.cmp(&a), dkey(&a2), dkey(&a)));
            }
            out.stat(&format!("{}-variant-{}", tag, how));
        }
        let (how_b, how_c) = (r.below(4), r.below(4));
        let b = build_map(out, r, &xb, how_b);
        let cc = build_map(out, r, &xc, how_c);
        for (m, ps) in [(&a, &xa), (&b, &xb)] {
            let mut got: Vec<(K, V)> = m.iter().map(|(k, v)| (k.clone(), v.clone())).collect(); got.sort();
            let mut want = ps.clone(); want.sort();
            if got != want { out.v("hh-contents", &format!("{}: built from {:?}, holds {:?}", tag, ps, m)); }
        }
        let ha: Vec<u64> = xa.iter().map(|(k, v)| stateright::verif::stable_hash(&(k, v))).collect();
        let hb: Vec<u64> = xb.iter().map(|(k, v)| stateright::verif::stable_hash(&(k, v))).collect();
        order_lines(out, &tag, &a, &b, &cc, &ha, &hb, c < 1);
        out.stat(&format!("{}-len-{}", tag, a.len()));
        let mut sa = xa.clone(); sa.sort();
        let mut sb = xb.clone(); sb.sort();
        out.distinct(&(31u8, K::name(), V::name(), sa, sb));

        if c == 0 {
            let e: HashableHashMap<K, V> = HashableHashMap::new();
            let d: HashableHashMap<K, V> = Default::default();
            if !e.is_empty() || !d.is_empty() || e != d || e.cmp(&d) != Ordering::Equal || e.capacity() != 0 {
                out.v("hh-new", &format!("{}: new()/default() not the empty map", tag));
            }
        }

        // serde (`self.0.serialize`: HashMap → serialize_map): a JSON object with one member per entry, in iteration
        // order, the key printed as a string; reading it back as a HashMap gives the same entries
        // (HashableHashMap itself has no Deserialize impl)
        let text = serde_json::to_string(&a).unwrap();
        let members: Vec<String> = a
            .iter()
            .map(|(k, v)| format!("{}:{}", serde_json::to_string(&k.key_text()).unwrap(), serde_json::to_string(v).unwrap()))
            .collect();
        let want_text = format!("{{{}}}", members.join(","));
        if text != want_text {
            out.v("hh-json", &format!("{}: JSON `{}` is not the object of the entries in iteration order `{}`", tag, text, want_text));
        }
        match serde_json::from_str::<serde_json::Value>(&text) {
            Ok(serde_json::Value::Object(o)) => {
                let all = xa.iter().all(|(k, v)| o.get(&k.key_text()) == Some(&serde_json::to_value(v).unwrap()));
                if o.len() != xa.len() || !all {
                    out.v("hh-json-object", &format!("{}: JSON `{}` does not hold the entries {:?}", tag, text, xa));
                }
            }
            other => out.v("hh-json-object", &format!("{}: JSON `{}` is not an object: {:?}", tag, text, other)),
        }
        match serde_json::from_str::<HashMap<K, V>>(&text) {
            Ok(back) => {
                if back.len() != a.len() || !a.iter().all(|(k, v)| back.get(k) == Some(v)) {
                    out.v("hh-json-roundtrip", &format!("{}: from_str(`{}`) = {:?} != {:?}", tag, text, back, a));
                }
            }
            Err(e) => out.v("hh-json-roundtrip", &format!("{}: from_str(`{}`) fails: {}", tag, text, e)),
        }
        let nat_pairs: Option<Vec<(u64, u64)>> = a.iter().map(|(k, v)| Some((k.as_nat()?, v.as_nat()?))).collect();
        if let Some(ps) = nat_pairs {
            out.m(&format!("json-map {}", sx::list(ps.iter().map(|(k, v)| format!("({} {})", k, v)))), &text);
        }
        out.stat(&format!("{}-json", tag));
    }
}

fn section_hash(out: &mut Out, r: &mut Rng, th: bool) {
    let n = if th { 20_000 } else { 2_000 };
    set_cases::<u8>(out, r, n);
    set_cases::<String>(out, r, n);
    set_cases::<Id>(out, r, n);
    map_cases::<u8, u8>(out, r, n);
    map_cases::<String, u32>(out, r, n);
    map_cases::<Id, u32>(out, r, n);
    map_cases::<u8, String>(out, r, n / 2);
}

// ------------------------------------------------------------------------------------------------
// D. defaults
// ------------------------------------------------------------------------------------------------
/// the clock's components as seen through its hash input (decoded), as in c20.rs
fn hash_input(c: &VectorClock) -> String {
    let toks = record(c);
    match toks.as_slice() {
        [Tok::Usize(0)] => "()".into(),
        [Tok::Usize(n), Tok::Bytes(b)] if b.len() == 4 * n => sx::nums(b.chunks(4).map(|w| u32::from_le_bytes([w[0], w[1], w[2], w[3]]))),
        _ => format!("unexpected-stream:{}", srh::rec::toks_sx(&toks)),
    }
}
fn comps(c: &VectorClock) -> Vec<u32> {
    let s = format!("{}", c);
    let inner = s.trim_start_matches('<').trim_end_matches("...>");
    inner.split(", ").filter(|x| !x.is_empty()).map(|x| x.parse().unwrap()).collect()
}

fn section_vclock(out: &mut Out, r: &mut Rng, th: bool) {
    let e = VectorClock::new();
    if e != VectorClock::default() || e != VectorClock::from(vec![]) || e != VectorClock::from(vec![0, 0]) || record(&e) != record(&VectorClock::default()) {
        out.v("vc-new", "VectorClock::new() is not the default / empty / all-zero clock");
    }
    if format!("{:?}", e) != format!("{:?}", VectorClock::default()) {
        out.v("vc-new-debug", "Debug of new() and default() differ");
    }
    out.m("vc-display ()", &format!("{}", VectorClock::new()));
    out.m("vc-hash ()", &hash_input(&VectorClock::new()));
    let n = if th { 3_000 } else { 300 };
    for _ in 0..n {
        let i = r.below(6);
        let c = VectorClock::new().incremented(i);
        out.m(&format!("vc-incr () {}", i), &sx::nums(comps(&c)));
        let b: Vec<u32> = (0..r.below(5)).map(|_| if r.chance(1, 2) { 0 } else { r.below(4) as u32 }).collect();
        let cb = VectorClock::from(b.clone());
        let sb = sx::nums(&b);
        out.m(&format!("vc-cmp () {}", sb), ord(VectorClock::new().partial_cmp(&cb)));
        out.m(&format!("vc-eq () {}", sb), &sx::b(VectorClock::new() == cb));
        out.m(&format!("vc-merge () {}", sb), &sx::nums(comps(&VectorClock::merge_max(&VectorClock::new(), &cb))));
        // the empty clock is the least element and the unit of merge
        if !matches!(VectorClock::new().partial_cmp(&cb), Some(Ordering::Less) | Some(Ordering::Equal)) || VectorClock::merge_max(&VectorClock::new(), &cb) != cb {
            out.v("vc-new-least", &format!("new() is not below / not the merge unit of {:?}", b));
        }
        out.stat("vclock-new");
        out.distinct(&(40u8, i, b));
    }
}

fn section_timers(out: &mut Out, r: &mut Rng, th: bool) {
    let n = if th { 5_000 } else { 500 };
    for c in 0..n {
        let mut d: Timers<u8> = Timers::default();
        let mut w: Timers<u8> = Timers::new();
        let mut model: BTreeSet<u8> = BTreeSet::new();
        let mut script = Vec::new();
        let check = |d: &Timers<u8>, w: &Timers<u8>, model: &BTreeSet<u8>, out: &mut Out, script: &Vec<String>| {
            let di: Vec<u8> = d.iter().copied().collect();
            let wi: Vec<u8> = w.iter().copied().collect();
            let ds: BTreeSet<u8> = di.iter().copied().collect();
            if d != w || di != wi || format!("{:?}", d) != format!("{:?}", w) || record(d) != record(w) || &ds != model || di.len() != model.len()
                || serde_json::to_string(d).unwrap() != serde_json::to_string(w).unwrap()
            {
                out.v("timers-default", &format!("after {:?}: default() gives {:?} (iter {:?}), new() gives {:?} (iter {:?}), expected contents {:?}", script, d, di, w, wi, model));
            }
        };
        check(&d, &w, &model, out, &script);
        for _ in 0..r.below(8) {
            let t = r.below(6) as u8;
            match r.below(6) {
                0..=2 => {
                    let (a, b, m) = (d.set(t), w.set(t), model.insert(t));
                    script.push(format!("set {}", t));
                    if a != b || a != m { out.v("timers-set", &format!("{:?}: set results {} {} expected {}", script, a, b, m)); }
                    out.stat("timers-set");
                }
                3 | 4 => {
                    let (a, b, m) = (d.cancel(&t), w.cancel(&t), model.remove(&t));
                    script.push(format!("cancel {}", t));
                    if a != b || a != m { out.v("timers-cancel", &format!("{:?}: cancel results {} {} expected {}", script, a, b, m)); }
                    out.stat("timers-cancel");
                }
                _ => {
                    d.cancel_all(); w.cancel_all(); model.clear();
                    script.push("cancel_all".into());
                    out.stat("timers-cancel-all");
                }
            }
            check(&d, &w, &model, out, &script);
        }
        if c < 1 { out.sample(&format!("timers script {:?} => {:?}", script, d)); }
        out.distinct(&(41u8, script));
    }
}

fn tester_defaults<O>(out: &mut Out, r: &mut Rng, n: usize)
where
    O: Wire + Default + Clone + Debug + PartialEq,
    O::Op: Clone + Debug + PartialEq,
    O::Ret: Clone + Debug + PartialEq,
{
    for c in 0..n {
        let init = O::default();
        let calls = gen_history::<O>(r, &init, 3, 6, 1, 3);
        // linearizability
        let mut d: LinearizabilityTester<usize, O> = Default::default();
        let mut w: LinearizabilityTester<usize, O> = LinearizabilityTester::new(O::default());
        let fresh = lin_summary(&d);
        if d != w || fresh.2 != lin_summary(&w).2 || !fresh.0 || fresh.1 != Some(vec![]) || d.len() != 0 {
            out.v("lin-default", &format!("{}: default() = {} ; new(default) = {}", O::kind(), fresh.2, lin_summary(&w).2));
        }
        let (rd, rw) = (drive::<O, _>(&mut d, &calls), drive::<O, _>(&mut w, &calls));
        if rd != rw || d != w || lin_summary(&d).2 != lin_summary(&w).2 {
            out.v("lin-default-run", &format!("{}: after {:?}: results {:?} vs {:?}; {} vs {}", O::kind(), calls, rd, rw, lin_summary(&d).2, lin_summary(&w).2));
        }
        out.stat(&format!("lin-default-{}-{}", O::kind(), if d.is_consistent() { "consistent" } else { "inconsistent" }));
        // sequential consistency
        let mut d: SequentialConsistencyTester<usize, O> = Default::default();
        let mut w: SequentialConsistencyTester<usize, O> = SequentialConsistencyTester::new(O::default());
        let fresh = sc_summary(&d);
        if d != w || fresh.2 != sc_summary(&w).2 || !fresh.0 || fresh.1 != Some(vec![]) || d.len() != 0 {
            out.v("sc-default", &format!("{}: default() = {} ; new(default) = {}", O::kind(), fresh.2, sc_summary(&w).2));
        }
        let (rd, rw) = (drive::<O, _>(&mut d, &calls), drive::<O, _>(&mut w, &calls));
        if rd != rw || d != w || sc_summary(&d).2 != sc_summary(&w).2 {
            out.v("sc-default-run", &format!("{}: after {:?}: results {:?} vs {:?}; {} vs {}", O::kind(), calls, rd, rw, sc_summary(&d).2, sc_summary(&w).2));
        }
        out.stat(&format!("sc-default-{}-{}", O::kind(), if d.is_consistent() { "consistent" } else { "inconsistent" }));
        if c < 1 { out.sample(&format!("tester default {}: {:?} => {}", O::kind(), calls, sc_summary(&d).2)); }
        out.distinct(&(42u8, O::kind(), format!("{:?}", calls)));
    }
}

fn section_choices(out: &mut Out, r: &mut Rng, th: bool) {
    let e: RandomChoices<u8> = RandomChoices::default();
    if !e.map.is_empty() || format!("{:?}", e) != "RandomChoices { map: {} }" || serde_json::to_string(&e).unwrap() != "{\"map\":{}}" {
        out.v("choices-default", &format!("RandomChoices::default() = {:?} / {}", e, serde_json::to_string(&e).unwrap()));
    }
    let n = if th { 5_000 } else { 500 };
    for c in 0..n {
        let mut a: RandomChoices<u8> = RandomChoices::default();
        // a twin with the same history: fixed hasher keys make its iteration order the same (reproducible runs)
        let mut twin: RandomChoices<u8> = RandomChoices::default();
        let mut model: BTreeMap<String, Vec<u8>> = BTreeMap::new();
        let mut script: Vec<String> = Vec::new();
        for _ in 0..r.below(8) {
            let key = ["k", "x", "y", "zz", "q", "w"][r.below(6)].to_string();
            if r.chance(2, 3) {
                let ch: Vec<u8> = (0..r.below(4)).map(|_| r.below(5) as u8).collect();
                a.insert(key.clone(), ch.clone());
                twin.insert(key.clone(), ch.clone());
                model.insert(key.clone(), ch.clone());
                script.push(format!("insert {} {:?}", key, ch));
                out.stat("choices-insert");
            } else {
                let (x, y) = (a.remove(&key), model.remove(&key));
                twin.remove(&key);
                script.push(format!("remove {}", key));
                if x != y { out.v("choices-remove", &format!("{:?}: remove gives {:?} expected {:?}", script, x, y)); }
                out.stat("choices-remove");
            }
        }
        if a.map.keys().collect::<Vec<_>>() != twin.map.keys().collect::<Vec<_>>() || format!("{:?}", a) != format!("{:?}", twin) {
            out.v("choices-default-order", &format!("{:?}: two default() maps with the same history iterate differently: {:?} vs {:?}", script, a, twin));
        }
        let got: BTreeMap<String, Vec<u8>> = a.map.iter().map(|(k, v)| (k.clone(), v.clone())).collect();
        if got != model || a.map.len() != model.len() {
            out.v("choices-contents", &format!("{:?}: contents {:?} expected {:?}", script, got, model));
        }
        // the same contents in a map with another hasher / insertion order: equal hash stream (contents only)
        let mut other: HashableHashMap<String, Vec<u8>> = HashableHashMap::new();
        let mut es: Vec<(String, Vec<u8>)> = model.iter().map(|(k, v)| (k.clone(), v.clone())).collect();
        r.shuffle(&mut es);
        for (k, v) in es.iter().cloned() { other.insert(k, v); }
        if record(&a.map) != record(&other) {
            out.v("choices-hash", &format!("{:?}: hash stream differs from that of an equal map with another hasher", script));
        }
        // a second default() filled in another order: same contents; the iteration order is reported, not required
        let mut b: RandomChoices<u8> = RandomChoices::default();
        for (k, v) in es.iter().cloned() { b.insert(k, v); }
        if a.map != b.map { out.v("choices-eq", &format!("{:?}: refilled default() differs: {:?} vs {:?}", script, a, b)); }
        let (ia, ib): (Vec<&String>, Vec<&String>) = (a.map.keys().collect(), b.map.keys().collect());
        out.stat(if ia == ib { "choices-same-iteration-order" } else { "choices-iteration-order-depends-on-history" });
        if c < 1 { out.sample(&format!("choices script {:?} => {:?}", script, a)); }
        out.distinct(&(43u8, script));
    }
}

fn main() {
    quiet_panics();
    let mut out = Out::new();
    out.max_samples = 14;
    let mut r = Rng::new(seed());
    let th = thorough();
    section_dnm(&mut out, &mut r, th);
    section_plans(&mut out, &mut r, th);
    section_hash(&mut out, &mut r, th);
    section_vclock(&mut out, &mut r, th);
    section_timers(&mut out, &mut r, th);
    let n = if th { 3_000 } else { 300 };
    tester_defaults::<Register<u8>>(&mut out, &mut r, n);
    tester_defaults::<WORegister<u8>>(&mut out, &mut r, n);
    tester_defaults::<Vec<u8>>(&mut out, &mut r, n);
    section_choices(&mut out, &mut r, th);
    out.finish();
}
