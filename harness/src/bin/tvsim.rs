//! Trace validation of the real MULTI-THREADED simulation checker (`spawn_simulation`, 1-4 threads) against the machine
//! lean/SR/Checker/MSim.lean: runs the checker on explicit graphs with the `TR_SIM_*` trace hooks of src/verif.rs on
//! (every read of the shared `discoveries` map / `state_count` that decides something and every write is serialised with
//! its entry, so the order of the entries is the order of the operations), translates fingerprints to state numbers and
//! emits
//!   M  tvsim <k> <graph> <props> <cfg> <rep or none> (<w> <kind> <a> <b>)*     expected: (count N) (disc ((i path) ...))
//! The Lean driver (`drv_tvsim`, SR/Drv/SimTrace.lean) replays the entries as steps of MSim: every entry must be an
//! enabled step with the recorded outcome; the final count and discoveries (with their paths) must be what the checker
//! reports.  Choosers: an LCG per trace, or a script shared by all threads (any chooser works: the trace records what was
//! chosen).  Some runs use `.symmetry_fn(rep)` (a representative table), a depth limit, every `finish_when` variant, and a
//! short `.timeout(..)` with a slow chooser, so that traces are cut by the shutdown flag; in some runs model code panics at
//! one state (the panicking worker raises the flag on its way out).
use srh::gm::*;
use srh::out::*;
use srh::rng::Rng;
use stateright::verif;
use stateright::{Checker, Chooser, HasDiscoveries, Model};
use std::collections::{BTreeSet, HashMap, HashSet};
use std::panic::{catch_unwind, AssertUnwindSafe};
use std::sync::atomic::{AtomicUsize, Ordering};
use std::sync::{Arc, RwLock};
use std::time::{Duration, Instant};

const EXTERNAL: u64 = 99999;

static REP: RwLock<Vec<u16>> = RwLock::new(Vec::new());
fn rep_fn(s: &u16) -> u16 {
    REP.read().unwrap()[*s as usize]
}

#[derive(Clone)]
struct Ch {
    /// answers taken (by whichever thread asks next) before the LCG takes over
    script: Arc<Vec<usize>>,
    pos: Arc<AtomicUsize>,
    /// pause per choice (timeout runs: keeps the trace of a one-second run small)
    slow_us: u64,
}
struct ChState(u64);
impl Ch {
    fn answer(&self, st: &mut ChState, n: usize) -> usize {
        if self.slow_us > 0 {
            std::thread::sleep(Duration::from_micros(self.slow_us));
        }
        let k = self.pos.fetch_add(1, Ordering::Relaxed);
        if k < self.script.len() {
            return self.script[k] % n;
        }
        st.0 = st.0.wrapping_mul(6364136223846793005).wrapping_add(1442695040888963407);
        ((st.0 >> 33) % (n as u64)) as usize
    }
}
impl Chooser<GraphModel> for Ch {
    type State = ChState;
    fn new_state(&self, seed: u64) -> ChState {
        ChState(seed.wrapping_mul(0x9E37_79B9_7F4A_7C15) ^ 0x5851_F42D_4C95_7F2D)
    }
    fn choose_initial_state(&self, st: &mut ChState, initial_states: &[u16]) -> usize {
        self.answer(st, initial_states.len())
    }
    fn choose_action(&self, st: &mut ChState, _cur: &u16, actions: &[u16]) -> usize {
        self.answer(st, actions.len())
    }
}

#[derive(Clone, Debug)]
enum Fin {
    All,
    Any,
    AnyF,
    AllF,
    AllOf(Vec<usize>),
    AnyOf(Vec<usize>),
}
impl Fin {
    fn build(&self) -> HasDiscoveries {
        let set = |s: &Vec<usize>| -> BTreeSet<&'static str> { s.iter().map(|i| NAMES[*i]).collect() };
        match self {
            Fin::All => HasDiscoveries::All,
            Fin::Any => HasDiscoveries::Any,
            Fin::AnyF => HasDiscoveries::AnyFailures,
            Fin::AllF => HasDiscoveries::AllFailures,
            Fin::AllOf(s) => HasDiscoveries::AllOf(set(s)),
            Fin::AnyOf(s) => HasDiscoveries::AnyOf(set(s)),
        }
    }
    fn sx(&self) -> String {
        let nums = |s: &Vec<usize>| s.iter().map(|x| x.to_string()).collect::<Vec<_>>().join(" ");
        match self {
            Fin::All => "all".into(),
            Fin::Any => "any".into(),
            Fin::AnyF => "anyf".into(),
            Fin::AllF => "allf".into(),
            Fin::AllOf(s) => format!("(allof {})", nums(s)),
            Fin::AnyOf(s) => format!("(anyof {})", nums(s)),
        }
    }
    fn tag(&self) -> &'static str {
        match self {
            Fin::All => "all",
            Fin::Any => "any",
            Fin::AnyF => "anyf",
            Fin::AllF => "allf",
            Fin::AllOf(_) => "allof",
            Fin::AnyOf(_) => "anyof",
        }
    }
}

struct Case {
    g: GraphModel,
    k: usize,
    fin: Fin,
    target: Option<usize>,
    max_depth: Option<usize>,
    rep: Option<Vec<u16>>,
    timeout_ms: Option<u64>,
    script: Vec<usize>,
    slow_us: u64,
    seed: u64,
}

fn run(c: &Case) -> Result<(Vec<verif::TraceEntry>, String), String> {
    if let Some(rep) = &c.rep {
        *REP.write().unwrap() = rep.clone();
    }
    let g = c.g.clone();
    let chooser = Ch { script: Arc::new(c.script.clone()), pos: Arc::new(AtomicUsize::new(0)), slow_us: c.slow_us };
    let started = Instant::now();
    verif::trace_start();
    let r = catch_unwind(AssertUnwindSafe(|| {
        let mut b = g.clone().checker().threads(c.k).finish_when(c.fin.build());
        if let Some(t) = c.target {
            b = b.target_state_count(t);
        }
        if let Some(d) = c.max_depth {
            b = b.target_max_depth(d);
        }
        if c.rep.is_some() {
            b = b.symmetry_fn(rep_fn);
        }
        if let Some(ms) = c.timeout_ms {
            b = b.timeout(Duration::from_millis(ms));
        }
        let ch = b.spawn_simulation(c.seed, chooser);
        let ch = if g.panic_at.is_some() {
            // model code may panic in a worker (`join` would re-raise it): wait for the threads to be gone instead
            while !ch.is_done() {
                std::thread::sleep(Duration::from_micros(200));
            }
            ch
        } else {
            ch.join()
        };
        if let Some(ms) = c.timeout_ms {
            // the timeout thread polls once per second and logs when it fires: let it fire inside THIS trace
            let fire = Duration::from_millis(ms + 1300);
            if started.elapsed() < fire {
                std::thread::sleep(fire - started.elapsed());
            }
        }
        let tr = verif::trace_stop();
        let mut discs: Vec<(usize, String)> = ch
            .discoveries()
            .into_iter()
            .map(|(n, p)| {
                let states: Vec<String> = p.into_states().iter().map(|s| s.to_string()).collect();
                (NAMES.iter().position(|x| *x == n).unwrap_or(99), format!("({})", states.join(" ")))
            })
            .collect();
        discs.sort();
        let expected = format!(
            "(count {}) (disc ({}))",
            ch.state_count(),
            discs.iter().map(|(i, p)| format!("({} {})", i, p)).collect::<Vec<_>>().join(" ")
        );
        (tr, expected)
    }));
    match r {
        Ok(x) => Ok(x),
        Err(_) => {
            let _ = verif::trace_stop();
            Err("panic".into())
        }
    }
}

fn gen_fin(r: &mut Rng, n_props: usize) -> Fin {
    let subset = |r: &mut Rng| -> Vec<usize> {
        let mut v: Vec<usize> = (0..n_props).filter(|_| r.chance(1, 2)).collect();
        if v.is_empty() {
            v.push(r.below(n_props));
        }
        v
    };
    match r.below(8) {
        0 | 1 => Fin::All,
        2 => Fin::Any,
        3 => Fin::AnyF,
        4 => Fin::AllF,
        5 => Fin::AllOf(subset(r)),
        6 => Fin::AnyOf(subset(r)),
        _ => Fin::All,
    }
}

fn gen_rep(r: &mut Rng, n: usize) -> Vec<u16> {
    let mut rep: Vec<u16> = vec![0; n];
    for s in 0..n {
        rep[s] = if s == 0 || r.chance(1, 2) { s as u16 } else { rep[r.below(s)] };
    }
    rep
}

/// properties for the bigger graphs: rare witnesses (found late, by several workers at about the same time)
fn props_big(r: &mut Rng, g: &GraphModel, n_props: usize) -> Vec<GProp> {
    let n = g.n;
    (0..n_props)
        .map(|_| {
            let exp = *r.pick(&['a', 's', 's', 'e', 'e']);
            let tbl: Vec<bool> = match (exp, r.below(3)) {
                ('a', 0) => vec![true; n],
                ('s', 0) => vec![false; n],
                ('a', _) => (0..n).map(|_| !r.chance(1, 25)).collect(),
                ('s', _) => (0..n).map(|_| r.chance(1, 25)).collect(),
                (_, 0) => vec![false; n],
                (_, _) => (0..n).map(|_| r.chance(1, 12)).collect(),
            };
            GProp { exp, tbl }
        })
        .collect()
}

fn main() {
    quiet_panics();
    let mut out = Out::new();
    let seed = seed();
    let thorough = thorough();
    let n_cases = arg_u64("--cases", if thorough { 260 } else { 26 }) as usize;
    let mut r = Rng::new(seed ^ 0x7473_696d);
    for ci in 0..n_cases {
        // family: 0 = timeout (cut traces), 1 = bigger graph, 3 = model code panics at one state (the panicking worker
        // raises the shutdown flag, its colleagues are cut), else small graph
        let fam = match ci % 13 { 3 | 9 => 0, 1 | 6 | 11 => 1, 5 => 3, _ => 2 };
        let k = 1 + (ci + ci / 4) % 4;
        let n_props = 1 + r.below(4);
        let mut g = match fam {
            1 => {
                let n = 40 + r.below(260);
                let mut g = GraphModel::big(&mut r, n);
                g.props = props_big(&mut r, &g, n_props);
                g
            }
            _ => {
                let shape = *r.pick(&[Shape::Any, Shape::Any, Shape::Dag, Shape::Forest]);
                gen_graph(&mut r, 12, shape, n_props)
            }
        };
        // a trace from an in-boundary initial state counts at least one state: the target state count ends the run
        let i0 = g.init[0] as usize;
        g.bnd[i0] = true;
        if fam == 0 && g.n >= 2 {
            // an endless walk for the timeout to cut: 0 -> 1 -> 0 plus whatever there is, all inside the boundary
            g.adj[0].push(Some(1));
            g.adj[1].push(Some(0));
            if !g.init.contains(&0) { g.init.push(0); }
            g.bnd[0] = true;
            g.bnd[1] = true;
        }
        if fam == 3 {
            let reach = g.reach();
            g.panic_at = Some(*r.pick(&reach));
        }
        let rep = if r.chance(1, 4) { Some(gen_rep(&mut r, g.n)) } else { None };
        let timeout_ms = if fam == 0 { Some(20 + r.below(400) as u64) } else { None };
        let target = match fam {
            0 => if r.chance(1, 3) { Some(5 + r.below(40)) } else { None },
            1 => Some(150 + r.below(if thorough { 2500 } else { 900 })),
            3 => Some(40 + r.below(300)),
            _ => Some(1 + r.below(160)),
        };
        let fin = if fam == 0 && target.is_none() {
            // nothing but the shutdown may end the run
            Fin::AllOf(vec![5])
        } else {
            gen_fin(&mut r, n_props)
        };
        let script: Vec<usize> = if r.chance(1, 3) { (0..r.below(60)).map(|_| r.below(12)).collect() } else { vec![] };
        let c = Case {
            g,
            k,
            fin,
            target,
            max_depth: if r.chance(1, 4) { Some(1 + r.below(9)) } else { None },
            rep,
            timeout_ms,
            script,
            slow_us: if fam == 0 { 400 + r.below(1200) as u64 } else { 0 },
            seed: r.next() % 1_000_000,
        };
        let fp_to_state: HashMap<u64, u16> = (0..c.g.n).map(|s| (verif::fingerprint(&(s as u16)), s as u16)).collect();
        match run(&c) {
            Err(e) => out.v("tvsim-run-panicked", &format!("case {} k={}: {}", ci, c.k, e)),
            Ok((trace, expected)) => {
                let mut evs = String::new();
                let mut bad = None;
                let (mut traces, mut cuts, mut discs, mut races, mut stale, mut panics) = (0u64, 0u64, 0u64, 0u64, 0u64, 0u64);
                let mut ends = [0u64; 7];
                let mut leaves = [0u64; 4];
                let mut inserted: HashSet<(u64, u64)> = HashSet::new();
                let mut any_inserted: HashSet<u64> = HashSet::new();
                let mut missed: HashSet<(u64, u64)> = HashSet::new();
                for (w, kind, a, b) in &trace {
                    let w = if *w == u64::MAX { EXTERNAL } else { *w };
                    let a2 = match *kind {
                        verif::TR_SIM_START | verif::TR_SIM_ENTER | verif::TR_SIM_NEXT => match fp_to_state.get(a) {
                            Some(s) => *s as u64,
                            None => {
                                bad = Some(format!("fingerprint {} of no state", a));
                                0
                            }
                        },
                        _ => *a,
                    };
                    match *kind {
                        verif::TR_SIM_START => traces += 1,
                        verif::TR_SIM_END => {
                            ends[(*a as usize).min(6)] += 1;
                            if *a == 6 { cuts += 1; }
                        }
                        verif::TR_SIM_LEAVE => leaves[(*a as usize).min(3)] += 1,
                        verif::TR_SIM_SHUTDOWN if *a == 1 => panics += 1,
                        verif::TR_SIM_MISS => { missed.insert((w, *a)); }
                        verif::TR_PROP if *b == 0 => {
                            missed.remove(&(w, *a));
                            if !inserted.contains(&(w, *a)) { races += 1; }
                        }
                        verif::TR_PROP if *b == 1 => {
                            // an insert over an entry that appeared between this worker's read and its insert
                            if missed.remove(&(w, *a)) && any_inserted.contains(a) && !inserted.contains(&(w, *a)) { stale += 1; }
                            discs += 1;
                            inserted.insert((w, *a));
                            any_inserted.insert(*a);
                        }
                        verif::TR_PROP => { missed.remove(&(w, *a)); }
                        verif::TR_RECORD => {
                            discs += 1;
                            inserted.insert((w, *a));
                            any_inserted.insert(*a);
                        }
                        _ => {}
                    }
                    evs.push_str(&format!(" ({} {} {} {})", w, kind, a2, b));
                }
                if let Some(b) = bad {
                    out.v("tvsim-trace-malformed", &b);
                    continue;
                }
                let cfg = format!(
                    "(cfg {} {} {} {})",
                    c.max_depth.map(|d| d.to_string()).unwrap_or("none".into()),
                    c.target.map(|d| d.to_string()).unwrap_or("none".into()),
                    c.fin.sx(),
                    if c.timeout_ms.is_some() { "t" } else { "f" }
                );
                let rep_sx = match &c.rep {
                    Some(rep) => format!("({})", rep.iter().map(|x| x.to_string()).collect::<Vec<_>>().join(" ")),
                    None => "none".into(),
                };
                out.m(&format!("tvsim {} {} {} {} {}{}", c.k, c.g.graph_sx(), c.g.props_sx(), cfg, rep_sx, evs), &expected);
                out.distinct(&(c.g.graph_sx(), c.g.props_sx(), c.k, c.seed, cfg.clone()));
                out.stat(&format!("tvsim-threads-{}", c.k));
                out.stat(&format!("tvsim-finish-{}", c.fin.tag()));
                out.stat_n("tvsim-trace-entries", trace.len() as u64);
                out.stat_n("tvsim-traces", traces);
                out.stat_n("tvsim-cut-traces", cuts);
                out.stat_n("tvsim-discoveries-inserted", discs);
                out.stat_n("tvsim-races-skipped-for-a-colleagues-discovery", races);
                out.stat_n("tvsim-races-insert-after-stale-read", stale);
                out.stat_n("tvsim-end-loop-found", ends[1]);
                out.stat_n("tvsim-end-no-action-left", ends[2]);
                out.stat_n("tvsim-end-depth-limit", ends[3]);
                out.stat_n("tvsim-end-initial-state-outside-boundary", ends[4]);
                out.stat_n("tvsim-end-everything-discovered", ends[5]);
                out.stat_n("tvsim-leave-finish-when", leaves[1]);
                out.stat_n("tvsim-leave-target", leaves[2]);
                out.stat_n("tvsim-leave-shutdown", leaves[3]);
                if c.max_depth.is_some() { out.stat("tvsim-with-depth-limit"); }
                if c.rep.is_some() { out.stat("tvsim-with-symmetry"); }
                if c.timeout_ms.is_some() { out.stat("tvsim-with-timeout"); }
                if c.g.panic_at.is_some() { out.stat("tvsim-with-panicking-state"); }
                out.stat_n("tvsim-panics-in-model-code", panics);
                if !c.script.is_empty() { out.stat("tvsim-scripted-chooser"); }
                out.sample(&format!(
                    "tvsim k={} n={} props={} finish={} target={:?} depth={:?} sym={} timeout={:?} entries={} -> {}",
                    c.k, c.g.n, c.g.props.len(), c.fin.sx(), c.target, c.max_depth, c.rep.is_some(), c.timeout_ms, trace.len(), expected
                ));
            }
        }
    }
    out.finish();
}
