//! C16 — ordered reliable link: implementation side of the correspondence + oracle inputs.
//!
//! Real `ActorWrapper<Scr>` actors run under the real `ActorModel` (duplicating / non-duplicating / ordered
//! network, lossy or not). The harness walks the reachable state graph itself through the public `Model`
//! trait (`init_states`, `actions`, `next_state`), bounded by `within_boundary` (network.len() < B) and a
//! per-scenario state cap, and at every reachable (state, action) records
//!   * the successor the implementation computed (or `ignored` / `panic`)       -> `orl-succ` (model: `implNext`)
//!   * what the wrapper's handler itself returned (Cow borrowed/owned, commands) -> `orl-h`   (model: `onMsg`/`onTimeout`)
//!   * the state with the ghost logs                                             -> `o-orl`   (oracle)
//! The wrapper's private fields are read from the `Debug` rendering of the state. The ghost logs (what the
//! wrapped actor was handed, what it sent) come from a tap inside the wrapped actor `Scr`, so they also see
//! messages the wrapped actor ignores (no-op).
use srh::out::*;
use srh::rng::Rng;
use stateright::actor::ordered_reliable_link::{ActorWrapper, MsgWrapper, TimerWrapper};
use stateright::actor::{
    model_timeout, Actor, ActorModel, ActorModelAction, ActorModelState, Command, Id, LossyNetwork,
    Network, Out as AOut,
};
use stateright::Model;
use std::borrow::Cow;
use std::cell::RefCell;
use std::collections::{BTreeMap, HashSet, VecDeque};
use std::fmt;
use std::panic::{catch_unwind, AssertUnwindSafe};
use std::sync::atomic::{AtomicUsize, Ordering};
use std::sync::Mutex;

// ------------------------------------------------------------------------------------------------
// the wrapped actor: a scripted sender / logging receiver
// ------------------------------------------------------------------------------------------------

#[derive(Clone, PartialEq, Eq, Hash, PartialOrd, Ord)]
struct M(u8);
impl fmt::Debug for M {
    fn fmt(&self, f: &mut fmt::Formatter<'_>) -> fmt::Result {
        write!(f, "{}", self.0)
    }
}
/// what the wrapped actor logged (only for messages it does not ignore)
#[derive(Clone, PartialEq, Eq, Hash)]
struct Log(Vec<(usize, u8)>);
impl fmt::Debug for Log {
    fn fmt(&self, f: &mut fmt::Formatter<'_>) -> fmt::Result {
        write!(f, "[")?;
        for (s, m) in &self.0 {
            write!(f, " {} {}", s, m)?;
        }
        write!(f, " ]")
    }
}
#[derive(Clone, Debug, PartialEq, Eq, Hash)]
enum Cmd {
    Send(usize, u8),
    /// 0 SetTimer, 1 CancelTimer, 2 ChooseRandom: `todo!()` in the link
    Unsupported(u8),
}
#[derive(Clone, Debug, PartialEq, Eq, Hash)]
struct Rule {
    on: u8,
    from: Option<usize>,
    /// true: append to the log (`to_mut`); false: leave the state borrowed (with no cmds this is the no-op)
    log: bool,
    cmds: Vec<Cmd>,
}
#[derive(Clone, Debug, PartialEq, Eq, Hash, Default)]
struct Scr {
    start: Vec<Cmd>,
    rules: Vec<Rule>,
}

#[derive(Clone, Debug)]
enum Ev {
    Handed(usize, usize, u8),
    Sent(usize, usize, u8),
}
thread_local! { static TAP: RefCell<Vec<Ev>> = RefCell::new(Vec::new()); }
fn tap(e: Ev) {
    TAP.with(|t| t.borrow_mut().push(e));
}
fn tap_take() -> Vec<Ev> {
    TAP.with(|t| std::mem::take(&mut *t.borrow_mut()))
}

fn emit(cmds: &[Cmd], id: Id, o: &mut AOut<Scr>) {
    for c in cmds {
        match c {
            Cmd::Send(d, m) => {
                tap(Ev::Sent(usize::from(id), *d, *m));
                o.send(Id::from(*d), M(*m));
            }
            Cmd::Unsupported(0) => o.set_timer(0, model_timeout()),
            Cmd::Unsupported(1) => o.cancel_timer(0),
            Cmd::Unsupported(_) => o.choose_random("k", vec![0]),
        }
    }
}

impl Actor for Scr {
    type Msg = M;
    type State = Log;
    type Timer = u8;
    type Random = u8;
    fn on_start(&self, id: Id, o: &mut AOut<Self>) -> Log {
        emit(&self.start, id, o);
        Log(Vec::new())
    }
    fn on_msg(&self, id: Id, state: &mut Cow<Log>, src: Id, msg: M, o: &mut AOut<Self>) {
        tap(Ev::Handed(usize::from(id), usize::from(src), msg.0));
        let rule = self.rules.iter().find(|r| r.on == msg.0 && r.from.map_or(true, |f| f == usize::from(src)));
        match rule {
            Some(r) => {
                if r.log {
                    state.to_mut().0.push((usize::from(src), msg.0));
                }
                emit(&r.cmds, id, o);
            }
            None => state.to_mut().0.push((usize::from(src), msg.0)),
        }
    }
}

// ------------------------------------------------------------------------------------------------
// scenarios
// ------------------------------------------------------------------------------------------------

#[derive(Clone, Copy, Debug, PartialEq, Eq, Hash)]
enum Kind {
    Dup,
    NonDup,
    Ord,
}
#[derive(Clone, Debug, Hash)]
struct Scn {
    kind: Kind,
    lossy: bool,
    actors: Vec<Scr>,
    bound: usize,
}
type W = ActorWrapper<Scr>;
type St = ActorModelState<W, ()>;
type Act = ActorModelAction<MsgWrapper<M>, TimerWrapper<u8>, u8>;

fn cmds_sx(cs: &[Cmd]) -> String {
    let v: Vec<String> = cs
        .iter()
        .map(|c| match c {
            Cmd::Send(d, m) => format!("(s {} {})", d, m),
            Cmd::Unsupported(_) => "u".to_string(),
        })
        .collect();
    format!("({})", v.join(" "))
}
impl Scn {
    fn sx(&self) -> String {
        let k = match self.kind {
            Kind::Dup => "dup",
            Kind::NonDup => "nondup",
            Kind::Ord => "ord",
        };
        let actors: Vec<String> = self
            .actors
            .iter()
            .map(|a| {
                let rules: Vec<String> = a
                    .rules
                    .iter()
                    .map(|r| {
                        format!(
                            "({} {} {} {})",
                            r.on,
                            r.from.map_or("any".to_string(), |f| f.to_string()),
                            if r.log { "t" } else { "f" },
                            cmds_sx(&r.cmds)
                        )
                    })
                    .collect();
                format!("({} ({}))", cmds_sx(&a.start), rules.join(" "))
            })
            .collect();
        format!("({} {} {} ({}))", k, if self.lossy { "t" } else { "f" }, self.actors.len(), actors.join(" "))
    }
    fn model(&self) -> ActorModel<W, usize, ()> {
        let net = match self.kind {
            Kind::Dup => Network::new_unordered_duplicating([]),
            Kind::NonDup => Network::new_unordered_nonduplicating([]),
            Kind::Ord => Network::new_ordered([]),
        };
        ActorModel::new(self.bound, ())
            .actors(self.actors.iter().cloned().map(ActorWrapper::with_default_timeout))
            .init_network(net)
            .lossy_network(if self.lossy { LossyNetwork::Yes } else { LossyNetwork::No })
            .within_boundary(|b, s| s.network.len() < *b)
    }
}

// ------------------------------------------------------------------------------------------------
// reading the implementation state
// ------------------------------------------------------------------------------------------------

#[derive(Clone, Debug, Default, PartialEq, Eq, Hash)]
struct Ghost {
    handed: Vec<(usize, u64, u8)>,
    sent: Vec<(usize, u8)>,
}

/// all unsigned numbers in `s`
fn nums(s: &str) -> Vec<u64> {
    let mut v = Vec::new();
    let mut cur: Option<u64> = None;
    for c in s.chars() {
        if let Some(d) = c.to_digit(10) {
            cur = Some(cur.unwrap_or(0) * 10 + d as u64);
        } else if let Some(x) = cur.take() {
            v.push(x);
        }
    }
    if let Some(x) = cur {
        v.push(x);
    }
    v
}
/// text of the `{...}` that follows `name: ` (maps print without nested braces for our message type)
fn section<'a>(dbg: &'a str, name: &str) -> &'a str {
    let key = format!("{}: {{", name);
    let i = dbg.find(&key).unwrap_or_else(|| panic!("field {} not found in {}", name, dbg)) + key.len();
    let j = dbg[i..].find('}').expect("closing brace") + i;
    &dbg[i..j]
}
fn sorted_list(mut items: Vec<String>) -> String {
    items.sort();
    format!("({})", items.join(" "))
}
fn plain_list(items: Vec<String>) -> String {
    format!("({})", items.join(" "))
}
/// canonical text of one wrapper state (from its Debug rendering) + ghost logs
fn node_sx<S: fmt::Debug>(state: &S, g: &Ghost) -> String {
    let dbg = format!("{:?}", state);
    let ns = nums(section(&dbg, "next_send_seqs"));
    let pa = nums(section(&dbg, "msgs_pending_ack"));
    let ld = nums(section(&dbg, "last_delivered_seqs"));
    let wi = dbg.find("wrapped_state: ").expect("wrapped_state") + "wrapped_state: ".len();
    let ws = nums(&dbg[wi..]);
    assert!(ns.len() % 2 == 0 && pa.len() % 3 == 0 && ld.len() % 2 == 0 && ws.len() % 2 == 0, "unexpected Debug shape: {}", dbg);
    format!(
        "({} {} {} {} {} {})",
        sorted_list(ns.chunks(2).map(|c| format!("({} {})", c[0], c[1])).collect()),
        sorted_list(pa.chunks(3).map(|c| format!("({} {} {})", c[0], c[1], c[2])).collect()),
        sorted_list(ld.chunks(2).map(|c| format!("({} {})", c[0], c[1])).collect()),
        plain_list(ws.chunks(2).map(|c| format!("({} {})", c[0], c[1])).collect()),
        plain_list(g.handed.iter().map(|(s, q, m)| format!("({} {} {})", s, q, m)).collect()),
        plain_list(g.sent.iter().map(|(d, m)| format!("({} {})", d, m)).collect()),
    )
}
fn env_sx(m: &MsgWrapper<M>) -> String {
    match m {
        MsgWrapper::Deliver(q, m) => format!("D {} {}", q, m.0),
        MsgWrapper::Ack(q) => format!("A {}", q),
    }
}
fn packet_sx(src: Id, dst: Id, m: &MsgWrapper<M>) -> String {
    format!("({} {} {})", usize::from(src), usize::from(dst), env_sx(m))
}
/// all in-flight envelopes in the implementation's own iteration order
fn net_items(net: &Network<MsgWrapper<M>>) -> Vec<String> {
    net.iter_all().map(|e| packet_sx(e.src, e.dst, e.msg)).collect()
}
/// what the harness explores: implementation state + ghost logs per actor
#[derive(Clone)]
struct XS {
    st: St,
    ghost: Vec<Ghost>,
}
impl XS {
    /// canonical text sent to the model (network as a sorted multiset)
    fn sx(&self) -> String {
        let nodes: Vec<String> = self.st.actor_states.iter().zip(&self.ghost).map(|(s, g)| node_sx(&**s, g)).collect();
        format!("(({}) {})", nodes.join(" "), sorted_list(net_items(&self.st.network)))
    }
    /// identity for the harness's own visited set: additionally the per-flow order of an ordered network
    fn key(&self) -> String {
        match &self.st.network {
            Network::Ordered(_) => format!("{} {}", self.sx(), net_items(&self.st.network).join(" ")),
            _ => self.sx(),
        }
    }
}
fn action_sx(a: &Act) -> String {
    match a {
        ActorModelAction::Deliver { src, dst, msg } => format!("(dl {})", packet_sx(*src, *dst, msg)),
        ActorModelAction::Drop(e) => format!("(dr {})", packet_sx(e.src, e.dst, &e.msg)),
        ActorModelAction::Timeout(id, TimerWrapper::Network) => format!("(to {})", usize::from(*id)),
        ActorModelAction::Timeout(id, TimerWrapper::User(t)) => format!("(user-timeout {} {})", usize::from(*id), t),
        ActorModelAction::Crash(id) => format!("(crash {})", usize::from(*id)),
        ActorModelAction::SelectRandom { actor, .. } => format!("(random {})", usize::from(*actor)),
    }
}
fn apply_tap(ghost: &mut [Ghost], evs: Vec<Ev>, seq: Option<u64>) {
    for e in evs {
        match e {
            Ev::Handed(id, src, m) => ghost[id].handed.push((src, seq.expect("handed outside a Deliver"), m)),
            Ev::Sent(id, dst, m) => ghost[id].sent.push((dst, m)),
        }
    }
}
fn ocmds_sx(out: &AOut<W>, sort_sends: bool) -> String {
    let mut timers = Vec::new();
    let mut sends = Vec::new();
    for c in out.iter() {
        match c {
            Command::SetTimer(TimerWrapper::Network, _) => timers.push("T".to_string()),
            Command::Send(dst, m) => sends.push(format!("({} {})", usize::from(*dst), env_sx(m))),
            other => sends.push(format!("unexpected:{:?}", other).replace(' ', "_")),
        }
    }
    // SetTimer always comes first in the wrapper's handlers; check that instead of assuming it
    let first_ok = out.iter().position(|c| matches!(c, Command::SetTimer(..))).map_or(true, |i| i == 0);
    if !first_ok {
        timers.push("timer-not-first".into());
    }
    if sort_sends {
        sends.sort();
    }
    timers.extend(sends);
    format!("({})", timers.join(" "))
}

// ------------------------------------------------------------------------------------------------
// exploring one scenario
// ------------------------------------------------------------------------------------------------

#[derive(Default)]
struct Res {
    m: Vec<(String, String)>,
    o: Vec<String>,
    v: Vec<(String, String)>,
    stats: BTreeMap<String, u64>,
    distinct: Vec<u64>,
    sample: Option<String>,
}
impl Res {
    fn stat(&mut self, k: &str) {
        *self.stats.entry(k.to_string()).or_insert(0) += 1;
    }
    fn stat_n(&mut self, k: &str, n: u64) {
        *self.stats.entry(k.to_string()).or_insert(0) += n;
    }
}

fn hash_str(s: &str) -> u64 {
    use std::hash::{Hash, Hasher};
    let mut h = std::collections::hash_map::DefaultHasher::new();
    s.hash(&mut h);
    h.finish()
}

fn heads_sx(scn: &Scn, st: &St) -> String {
    match scn.kind {
        Kind::Ord => plain_list(st.network.iter_deliverable().map(|e| packet_sx(e.src, e.dst, e.msg)).collect()),
        _ => "-".to_string(),
    }
}

fn explore(scn: &Scn, cap: usize) -> Res {
    let mut res = Res::default();
    let ssx = scn.sx();
    let model = scn.model();
    let n = scn.actors.len();
    tap_take();
    let init = catch_unwind(AssertUnwindSafe(|| model.init_states()));
    let evs = tap_take();
    let init = match init {
        Err(_) => {
            res.m.push((format!("orl-init {}", ssx), "panic".into()));
            res.stat("init-panic (unsupported command in on_start)");
            return res;
        }
        Ok(v) => v,
    };
    assert_eq!(init.len(), 1);
    let mut ghost = vec![Ghost::default(); n];
    apply_tap(&mut ghost, evs, None);
    let x0 = XS { st: init.into_iter().next().unwrap(), ghost };
    res.m.push((format!("orl-init {}", ssx), x0.sx()));
    // the network timer must be set for every actor, and nothing else
    let mut seen: HashSet<String> = HashSet::new();
    let mut seen_h: HashSet<String> = HashSet::new();
    let mut seen_oob: HashSet<String> = HashSet::new();
    let mut queue: VecDeque<XS> = VecDeque::new();
    let in_b = |x: &XS| Model::within_boundary(&model, &x.st);
    let mut flags: HashSet<&'static str> = HashSet::new();
    if in_b(&x0) {
        seen.insert(x0.key());
        queue.push_back(x0);
    } else {
        res.stat("init-out-of-boundary");
        res.o.push(format!("o-orl {}", x0.sx()));
    }
    let mut capped = false;
    while let Some(x) = queue.pop_front() {
        let xsx = x.sx();
        res.stat("states");
        res.o.push(format!("o-orl {}", xsx));
        if x.ghost.iter().any(|g| !g.sent.is_empty()) {
            res.distinct.push(hash_str(&x.key()));
        }
        let mut acts: Vec<Act> = Vec::new();
        model.actions(&x.st, &mut acts);
        let mut acts: Vec<(String, Act)> = acts.into_iter().map(|a| (action_sx(&a), a)).collect();
        acts.sort_by(|a, b| a.0.cmp(&b.0));
        let mut outs: Vec<String> = Vec::new();
        for (asx, a) in acts {
            res.stat("transitions");
            // ---- the wrapper's handler, called directly -----------------------------------------
            let (id, ev_sx, seq): (usize, String, Option<u64>) = match &a {
                ActorModelAction::Deliver { src, dst, msg } => (
                    usize::from(*dst),
                    format!("(m {} ({}))", usize::from(*src), env_sx(msg)),
                    match msg {
                        MsgWrapper::Deliver(q, _) => Some(*q),
                        _ => None,
                    },
                ),
                ActorModelAction::Timeout(id, _) => (usize::from(*id), "t".to_string(), None),
                _ => (usize::MAX, String::new(), None),
            };
            if id != usize::MAX {
                let before = node_sx(&*x.st.actor_states[id], &x.ghost[id]);
                let hreq = format!("orl-h {} {} {} {}", ssx, id, before, ev_sx);
                if seen_h.insert(hreq.clone()) {
                    let actor = &model.actors[id];
                    let last = &*x.st.actor_states[id];
                    tap_take();
                    let r = catch_unwind(AssertUnwindSafe(|| {
                        let mut cow = Cow::Borrowed(last);
                        let mut o = AOut::new();
                        match &a {
                            ActorModelAction::Deliver { src, msg, .. } => actor.on_msg(Id::from(id), &mut cow, *src, msg.clone(), &mut o),
                            ActorModelAction::Timeout(_, t) => actor.on_timeout(Id::from(id), &mut cow, t, &mut o),
                            _ => unreachable!(),
                        }
                        let owned = match cow {
                            Cow::Borrowed(_) => None,
                            Cow::Owned(s) => Some(s),
                        };
                        (owned, o)
                    }));
                    let evs = tap_take();
                    let exp = match r {
                        Err(_) => "panic".to_string(),
                        Ok((owned, o)) => {
                            let mut gs = x.ghost.clone();
                            apply_tap(&mut gs, evs, seq);
                            let is_timeout = matches!(a, ActorModelAction::Timeout(..));
                            match owned {
                                None => {
                                    if gs[id] != x.ghost[id] {
                                        // wrapped actor was called although the wrapper left its state borrowed
                                        res.v.push(("borrowed-but-handed".into(), hreq.clone()));
                                    }
                                    format!("(b {})", ocmds_sx(&o, is_timeout))
                                }
                                Some(s) => format!("(o {} {})", node_sx(&s, &gs[id]), ocmds_sx(&o, is_timeout)),
                            }
                        }
                    };
                    res.m.push((hreq, exp));
                    res.stat("handler-calls (distinct node state x event)");
                }
            }
            // ---- the transition through ActorModel ----------------------------------------------
            classify(scn, &x, &a, &mut res, &mut flags);
            tap_take();
            let r = catch_unwind(AssertUnwindSafe(|| model.next_state(&x.st, a.clone())));
            let evs = tap_take();
            let out = match r {
                Err(_) => {
                    res.stat("next-panic (unsupported command from the wrapped actor)");
                    flags.insert("panic");
                    "panic".to_string()
                }
                Ok(None) => {
                    res.stat("next-ignored (no-op)");
                    if evs.iter().any(|e| matches!(e, Ev::Handed(..))) {
                        res.v.push(("ignored-but-handed".into(), format!("{} {} {}", ssx, xsx, asx)));
                    }
                    "ignored".to_string()
                }
                Ok(Some(st2)) => {
                    let mut ghost = x.ghost.clone();
                    apply_tap(&mut ghost, evs, seq);
                    let y = XS { st: st2, ghost };
                    // direct law: only the acting actor's state may change
                    for j in 0..n {
                        if j != id && *y.st.actor_states[j] != *x.st.actor_states[j] {
                            res.v.push(("bystander-changed".into(), format!("{} {} {}", ssx, xsx, asx)));
                        }
                    }
                    let ysx = y.sx();
                    if in_b(&y) {
                        let k = y.key();
                        if !seen.contains(&k) {
                            if seen.len() < cap {
                                seen.insert(k);
                                queue.push_back(y);
                            } else {
                                capped = true;
                            }
                        }
                    } else {
                        res.stat("successors-out-of-boundary (compared, oracle run, not expanded)");
                        if seen_oob.insert(ysx.clone()) {
                            res.o.push(format!("o-orl {}", ysx));
                        }
                    }
                    ysx
                }
            };
            outs.push(format!("({} {})", asx, out));
        }
        res.m.push((format!("orl-succ {} {} {}", ssx, xsx, heads_sx(scn, &x.st)), format!("({})", outs.join(" "))));
    }
    if capped {
        res.stat("scenarios-capped");
    }
    res.stat("scenarios");
    res.stat(&format!("scenarios-kind-{:?}{}", scn.kind, if scn.lossy { "-lossy" } else { "" }));
    res.stat(&format!("scenarios-actors-{}", n));
    if scn.actors.iter().any(|a| {
        let mut peers: Vec<usize> = a.start.iter().filter_map(|c| if let Cmd::Send(d, _) = c { Some(*d) } else { None }).collect();
        peers.sort();
        peers.dedup();
        peers.len() >= 2
    }) {
        res.stat("scenarios-with-a-sender-to-2-peers");
    }
    let nstart: usize = scn.actors.iter().map(|a| a.start.len()).sum();
    res.stat(&format!("scenarios-start-messages-{}", nstart));
    for f in &flags {
        res.stat(&format!("scenarios-exercising-{}", f));
    }
    let nstates = seen.len();
    res.stat_n("states-max-per-scenario-sum", nstates as u64);
    res.sample = Some(format!("{} bound<{} -> {} states", ssx, scn.bound, nstates));
    res
}

/// input-distribution counters: which protocol situations a transition exercises
fn classify(scn: &Scn, x: &XS, a: &Act, res: &mut Res, flags: &mut HashSet<&'static str>) {
    let mut hit = |res: &mut Res, k: &'static str| {
        res.stat(&format!("transitions-{}", k));
        flags.insert(k);
    };
    match a {
        ActorModelAction::Deliver { src, dst, msg } => {
            let d = usize::from(*dst);
            let s = usize::from(*src);
            match msg {
                MsgWrapper::Deliver(q, m) => {
                    let last = x.ghost[d].handed.iter().filter(|h| h.0 == s).count() as u64;
                    if *q == last + 1 {
                        if let Some(r) = scn.actors[d].rules.iter().find(|r| r.on == m.0 && r.from.map_or(true, |f| f == s)) {
                            if !r.log && r.cmds.is_empty() {
                                hit(res, "handed-but-ignored-by-the-wrapped-actor (no-op; still ack'ed and counted)");
                            } else if !r.log {
                                hit(res, "wrapped-state-borrowed-but-commands-emitted");
                            }
                            if r.cmds.iter().any(|c| matches!(c, Cmd::Send(..))) {
                                hit(res, "wrapped-actor-sends-in-reaction");
                            }
                        }
                    }
                    if *q > last + 1 {
                        hit(res, "reordering (Deliver overtook an earlier one: seq > last+1)");
                    } else if *q <= last {
                        hit(res, "duplicate-delivery (seq <= last: ack'ed again, not handed)");
                    } else {
                        hit(res, "in-order-delivery (handed over)");
                    }
                }
                MsgWrapper::Ack(q) => {
                    let dbg = format!("{:?}", &*x.st.actor_states[d]);
                    let pa = nums(section(&dbg, "msgs_pending_ack"));
                    if pa.chunks(3).any(|c| c[0] as usize == s && c[1] == *q) {
                        hit(res, "ack (clears a pending message)");
                    } else {
                        hit(res, "duplicate-ack (nothing pending)");
                    }
                }
            }
        }
        ActorModelAction::Drop(e) => match e.msg {
            MsgWrapper::Deliver(..) => hit(res, "loss-of-Deliver"),
            MsgWrapper::Ack(..) => hit(res, "loss-of-Ack"),
        },
        ActorModelAction::Timeout(..) => hit(res, "resend-timer"),
        _ => hit(res, "other"),
    }
}

// ------------------------------------------------------------------------------------------------
// scenario generation
// ------------------------------------------------------------------------------------------------

fn s(d: usize, m: u8) -> Cmd {
    Cmd::Send(d, m)
}
fn actor(start: Vec<Cmd>, rules: Vec<Rule>) -> Scr {
    Scr { start, rules }
}
fn rule(on: u8, from: Option<usize>, log: bool, cmds: Vec<Cmd>) -> Rule {
    Rule { on, from, log, cmds }
}

fn fixed_scenarios() -> Vec<Scn> {
    let mut v = Vec::new();
    let recv = || actor(vec![], vec![]);
    // the module's own test scenario, on every network
    for (kind, lossy) in [(Kind::Dup, true), (Kind::NonDup, true), (Kind::NonDup, false), (Kind::Ord, false), (Kind::Ord, true), (Kind::Dup, false)] {
        v.push(Scn { kind, lossy, actors: vec![actor(vec![s(1, 42), s(1, 43)], vec![]), recv()], bound: 4 });
    }
    // three messages, reordering + duplication + loss
    v.push(Scn { kind: Kind::Dup, lossy: true, actors: vec![actor(vec![s(1, 7), s(1, 8), s(1, 9)], vec![]), recv()], bound: 4 });
    v.push(Scn { kind: Kind::NonDup, lossy: true, actors: vec![actor(vec![s(1, 7), s(1, 8), s(1, 9)], vec![]), recv()], bound: 5 });
    // equal payloads
    v.push(Scn { kind: Kind::Dup, lossy: true, actors: vec![actor(vec![s(1, 7), s(1, 7), s(1, 7)], vec![]), recv()], bound: 4 });
    // the receiver ignores one message (no-op of the wrapped actor)
    v.push(Scn { kind: Kind::Dup, lossy: true, actors: vec![actor(vec![s(1, 42), s(1, 43)], vec![]), actor(vec![], vec![rule(42, None, false, vec![])])], bound: 4 });
    v.push(Scn { kind: Kind::NonDup, lossy: true, actors: vec![actor(vec![s(1, 42), s(1, 43), s(1, 44)], vec![]), actor(vec![], vec![rule(43, Some(0), false, vec![])])], bound: 4 });
    v.push(Scn { kind: Kind::Ord, lossy: true, actors: vec![actor(vec![s(1, 42), s(1, 43)], vec![]), actor(vec![], vec![rule(43, None, false, vec![]), rule(42, Some(5), false, vec![])])], bound: 4 });
    // replies: state left borrowed but commands emitted; and logged replies
    v.push(Scn { kind: Kind::Dup, lossy: true, actors: vec![actor(vec![s(1, 1), s(1, 2)], vec![]), actor(vec![], vec![rule(1, None, false, vec![s(0, 11)]), rule(2, None, true, vec![s(0, 12)])])], bound: 4 });
    v.push(Scn { kind: Kind::NonDup, lossy: false, actors: vec![actor(vec![s(1, 1)], vec![rule(11, None, true, vec![s(1, 21)])]), actor(vec![], vec![rule(1, None, true, vec![s(0, 11), s(0, 12)])])], bound: 5 });
    // two peers, both directions
    v.push(Scn { kind: Kind::Dup, lossy: true, actors: vec![actor(vec![s(1, 1), s(2, 2), s(1, 3)], vec![]), recv(), recv()], bound: 4 });
    v.push(Scn { kind: Kind::NonDup, lossy: true, actors: vec![actor(vec![s(1, 1), s(2, 2)], vec![]), actor(vec![s(0, 3)], vec![]), actor(vec![s(0, 4), s(1, 5)], vec![])], bound: 4 });
    v.push(Scn { kind: Kind::Dup, lossy: true, actors: vec![actor(vec![s(1, 1), s(1, 2)], vec![]), actor(vec![s(0, 3), s(0, 4)], vec![])], bound: 4 });
    // a message to itself, a message to an actor that does not exist
    v.push(Scn { kind: Kind::Dup, lossy: true, actors: vec![actor(vec![s(0, 5), s(1, 6), s(0, 7)], vec![]), recv()], bound: 4 });
    v.push(Scn { kind: Kind::NonDup, lossy: true, actors: vec![actor(vec![s(3, 5), s(1, 6)], vec![]), recv()], bound: 4 });
    // unsupported commands of the wrapped actor (todo!() in the link)
    v.push(Scn { kind: Kind::Dup, lossy: true, actors: vec![actor(vec![s(1, 1), s(1, 2)], vec![]), actor(vec![], vec![rule(2, None, true, vec![s(0, 11), Cmd::Unsupported(0)])])], bound: 4 });
    v.push(Scn { kind: Kind::NonDup, lossy: false, actors: vec![actor(vec![s(1, 1), Cmd::Unsupported(1)], vec![]), recv()], bound: 4 });
    v.push(Scn { kind: Kind::Ord, lossy: false, actors: vec![actor(vec![s(1, 1)], vec![]), actor(vec![], vec![rule(1, None, false, vec![Cmd::Unsupported(2)])])], bound: 4 });
    // four messages on the ordered network (resend order inside a flow is the hash map's)
    v.push(Scn { kind: Kind::Ord, lossy: true, actors: vec![actor(vec![s(1, 1), s(1, 2), s(1, 3), s(1, 4)], vec![]), recv()], bound: 5 });
    v
}

fn random_scenario(r: &mut Rng) -> Scn {
    let n = if r.chance(3, 5) { 2 } else { 3 };
    let kind = *r.pick(&[Kind::Dup, Kind::Dup, Kind::NonDup, Kind::NonDup, Kind::Ord]);
    let lossy = r.chance(3, 4);
    let mut actors: Vec<Scr> = (0..n).map(|_| Scr::default()).collect();
    // 1..=4 start messages in total; actor 0 is always a sender
    let total = 1 + r.below(4);
    let peer = |r: &mut Rng, me: usize| -> usize {
        match r.below(20) {
            0 => me,    // to itself
            1 => n + 1, // nobody there
            _ => {
                let mut p = r.below(n - 1);
                if p >= me {
                    p += 1;
                }
                p
            }
        }
    };
    let mut start_vals: Vec<u8> = Vec::new();
    for k in 0..total {
        let who = if k == 0 || r.chance(2, 3) { 0 } else { r.below(n) };
        let m = if !start_vals.is_empty() && r.chance(1, 8) { *r.pick(&start_vals) } else { 1 + r.below(9) as u8 };
        start_vals.push(m);
        let d = peer(r, who);
        actors[who].start.push(s(d, m));
    }
    if r.chance(1, 40) {
        let who = r.below(n);
        let at = r.below(actors[who].start.len() + 1);
        actors[who].start.insert(at, Cmd::Unsupported(r.below(3) as u8));
    }
    // reactions: level 0 (start values) -> level 1 (10..19) -> level 2 (20..29) -> nothing; always terminates
    let mut lvl1: Vec<u8> = Vec::new();
    for i in 0..n {
        let nrules = r.below(3);
        for _ in 0..nrules {
            let on = *r.pick(&start_vals);
            let from = if r.chance(1, 4) { Some(r.below(n)) } else { None };
            let log = r.chance(2, 3);
            let mut cmds = Vec::new();
            if r.chance(1, 2) {
                for _ in 0..(1 + r.below(2)) {
                    let m = 10 + r.below(10) as u8;
                    lvl1.push(m);
                    let d = if r.chance(1, 2) { r.below(n) } else { peer(r, i) };
                    cmds.push(s(d, m));
                }
            }
            if r.chance(1, 30) {
                cmds.push(Cmd::Unsupported(r.below(3) as u8));
            }
            actors[i].rules.push(rule(on, from, log, cmds));
        }
    }
    if !lvl1.is_empty() {
        for i in 0..n {
            if r.chance(1, 3) {
                let on = *r.pick(&lvl1);
                let log = r.chance(1, 2);
                let cmds = if r.chance(1, 3) { vec![s(peer(r, i), 20 + r.below(10) as u8)] } else { vec![] };
                actors[i].rules.push(rule(on, None, log, cmds));
            }
        }
    }
    let bound = match r.below(6) {
        0 => 3,
        1 | 2 => 5,
        _ => 4,
    };
    // the initial network must be inside the boundary, or nothing is explored
    let init_len: usize = actors.iter().map(|a| a.start.iter().filter(|c| matches!(c, Cmd::Send(..))).count()).sum();
    Scn { kind, lossy, actors, bound: bound.max(init_len + 1) }
}

fn main() {
    quiet_panics();
    let mut out = Out::new();
    let th = thorough();
    let mut r = Rng::new(seed());
    let n_random = arg_u64("--scenarios", if th { 1480 } else { 40 }) as usize;
    let cap = arg_u64("--cap", if th { 1200 } else { 1500 }) as usize;
    let mut scns = fixed_scenarios();
    for _ in 0..n_random {
        scns.push(random_scenario(&mut r));
    }
    // the initial network must be inside the boundary, or nothing is explored
    for s in scns.iter_mut() {
        let init_len: usize = s.actors.iter().map(|a| a.start.iter().filter(|c| matches!(c, Cmd::Send(..))).count()).sum();
        s.bound = s.bound.max(init_len + 1);
    }
    // equal scenario texts would only repeat the same requests
    let mut seen_scn: HashSet<String> = HashSet::new();
    scns.retain(|s| seen_scn.insert(format!("{} {}", s.sx(), s.bound)));
    let results: Vec<Mutex<Option<Res>>> = scns.iter().map(|_| Mutex::new(None)).collect();
    let next = AtomicUsize::new(0);
    let threads = std::thread::available_parallelism().map(|x| x.get()).unwrap_or(4).min(16);
    std::thread::scope(|sc| {
        for _ in 0..threads {
            sc.spawn(|| loop {
                let i = next.fetch_add(1, Ordering::SeqCst);
                if i >= scns.len() {
                    break;
                }
                let res = catch_unwind(AssertUnwindSafe(|| explore(&scns[i], cap)));
                let res = match res {
                    Ok(r) => r,
                    Err(e) => {
                        let mut r = Res::default();
                        let msg = e.downcast_ref::<String>().cloned().or_else(|| e.downcast_ref::<&str>().map(|s| s.to_string())).unwrap_or_default();
                        r.v.push(("harness-panic".into(), format!("{} : {}", scns[i].sx(), msg)));
                        r
                    }
                };
                *results[i].lock().unwrap() = Some(res);
            });
        }
    });
    out.max_samples = 10;
    for (i, cell) in results.iter().enumerate() {
        let res = cell.lock().unwrap().take().expect("scenario result");
        for (req, exp) in res.m {
            out.m(&req, &exp);
        }
        for o in res.o {
            out.o(&o);
        }
        for (k, t) in res.v {
            out.v(&k, &t);
        }
        for (k, n) in res.stats {
            out.stat_n(&k, n);
        }
        for d in res.distinct {
            out.distinct(&(i, d));
        }
        if let Some(sm) = res.sample {
            if i < 3 || i % 7 == 0 {
                out.sample(&sm);
            }
        }
    }
    out.finish();
}
