//! actobs — actor-model presentation and glue (coverage-gap closing, DESIGN §13c); implementation side.
//!
//! Sections (every input is generated from `Rng::new(seed())`):
//! 1. `ActorModel::format_action`, `format_step`, `as_svg` on random `TableActor` systems (timers, random choices,
//!    lossy networks, crash budgets, named actors): the text is EXACTLY what the handler table gives (V-laws), plus
//!    structural laws of the SVG and the relation to `next_state`.
//! 2. `Serialize for ActorModelState`: a struct `ActorModelState` with the fields `actor_states`, `network`,
//!    `is_timer_set`, `random_choices`, `history` (in this order, `crashed` is not serialised), each serialised by
//!    its own impl.
//! 3. `Network::names` / `FromStr` (model `net-names`, `net-parse`; oracle `o-net-names`).
//! 4. actor.rs glue: default handlers, `name()` of `Choice`, `()`, `Vec<..>`, `Id::vec_from`, `majority`,
//!    `peer_ids`, `model_peers`, `model_timeout`, `Out` helpers, `Timers::default`.
//! 5. register / write-once-register client arms (`client-start` model + oracle; `name()`; no-op arms).
//! 6. ordered-reliable-link `TimerWrapper::User` on states built through `on_start` / `on_msg`.
use choice::{Choice, Never};
use serde::ser::{Impossible, SerializeStruct};
use serde::Serialize;
use serde_json::Value;
use srh::out::*;
use srh::rng::Rng;
use srh::sx;
use srh::table_actor::*;
use stateright::actor::ordered_reliable_link::{ActorWrapper, MsgWrapper, TimerWrapper};
use stateright::actor::register::{RegisterActor, RegisterActorState, RegisterMsg};
use stateright::actor::write_once_register::{WORegisterActor, WORegisterActorState, WORegisterMsg};
use stateright::actor::{
    majority, model_peers, model_timeout, peer_ids, Actor, ActorModel, ActorModelAction, ActorModelState, Command,
    Id, Network, Out as AOut, Timers,
};
use stateright::{Model, Path};
use std::borrow::Cow;
use std::collections::{BTreeMap, HashMap};
use std::fmt::Display;
use std::panic::{catch_unwind, AssertUnwindSafe};
use std::sync::Arc;
use std::time::Duration;

type Act = ActorModelAction<TMsg, TTimer, TRandom>;
type RM = RegisterMsg<u64, char, u8>;
type WM = WORegisterMsg<u64, char, u8>;

// ---------------------------------------------------------------------------------------------------------
// a table actor with a chosen name (`TableActor::name()` is fixed)

#[derive(Clone, Debug)]
struct Named<M> {
    inner: TableActor<M>,
    name: String,
}
impl<M: Code> Actor for Named<M> {
    type Msg = M;
    type State = TState;
    type Timer = TTimer;
    type Random = TRandom;
    fn on_start(&self, id: Id, o: &mut AOut<Self>) -> TState {
        let mut oo = AOut::<TableActor<M>>::new();
        let s = self.inner.on_start(id, &mut oo);
        o.append(&mut oo);
        s
    }
    fn on_msg(&self, id: Id, state: &mut Cow<TState>, src: Id, msg: M, o: &mut AOut<Self>) {
        let mut oo = AOut::<TableActor<M>>::new();
        self.inner.on_msg(id, state, src, msg, &mut oo);
        o.append(&mut oo);
    }
    fn on_timeout(&self, id: Id, state: &mut Cow<TState>, timer: &TTimer, o: &mut AOut<Self>) {
        let mut oo = AOut::<TableActor<M>>::new();
        self.inner.on_timeout(id, state, timer, &mut oo);
        o.append(&mut oo);
    }
    fn on_random(&self, id: Id, state: &mut Cow<TState>, random: &TRandom, o: &mut AOut<Self>) {
        let mut oo = AOut::<TableActor<M>>::new();
        self.inner.on_random(id, state, random, &mut oo);
        o.append(&mut oo);
    }
    fn name(&self) -> String {
        self.name.clone()
    }
}
const NAMES: [&str; 5] = ["", "table", "n", "Server", "a-rather-long-actor-name-xyz"];
fn gen_name(r: &mut Rng) -> String {
    NAMES[r.below(NAMES.len())].to_string()
}

/// an actor that overrides nothing but `on_start`
#[derive(Clone, Debug)]
struct Inert(u8);
impl Actor for Inert {
    type Msg = TMsg;
    type State = TState;
    type Timer = TTimer;
    type Random = TRandom;
    fn on_start(&self, _: Id, _: &mut AOut<Self>) -> TState {
        TState(self.0)
    }
}

// ---------------------------------------------------------------------------------------------------------
// the documented pieces of the texts

fn cmd_dbg(c: &TCmd) -> String {
    match c {
        TCmd::Send(d, m) => format!("Send(Id({}), TMsg({}))", d, m),
        TCmd::SetTimer(t) => format!("SetTimer(TTimer({}), 0ns..0ns)", t),
        TCmd::CancelTimer(t) => format!("CancelTimer(TTimer({}))", t),
        TCmd::ChooseRandom(k, cs) => format!(
            "ChooseRandom(\"k{}\", [{}])",
            k,
            cs.iter().map(|c| format!("TRandom({})", c)).collect::<Vec<_>>().join(", ")
        ),
    }
}
fn out_dbg(cmds: &[TCmd]) -> String {
    format!("[{}]", cmds.iter().map(cmd_dbg).collect::<Vec<_>>().join(", "))
}
fn pretty_state(s: u8) -> String {
    format!("TState(\n    {},\n)", s)
}
/// `ActorStep`'s `Display`: OUT line, blank line, then NEXT_STATE/PREV_STATE or UNCHANGED
fn step_text(prev: u8, row: Option<&Row>) -> String {
    let (ns, cmds): (Option<u8>, &[TCmd]) = match row {
        None => (None, &[]),
        Some(r) => (r.ns, &r.cmds),
    };
    match ns {
        Some(n) => format!("OUT: {}\n\nNEXT_STATE: {}\n\nPREV_STATE: {}\n", out_dbg(cmds), pretty_state(n), pretty_state(prev)),
        None => format!("OUT: {}\n\nUNCHANGED: {}\n", out_dbg(cmds), pretty_state(prev)),
    }
}
fn row_for<'a>(tab: &'a Table, st: u8, a: &Act) -> Option<&'a Row> {
    match a {
        ActorModelAction::Deliver { src, msg, .. } => tab.msg.get(&(st, usize::from(*src), msg.0)),
        ActorModelAction::Timeout(_, t) => tab.timeout.get(&(st, t.0)),
        ActorModelAction::SelectRandom { random, .. } => tab.random.get(&(st, random.0)),
        _ => None,
    }
}
fn acting(a: &Act) -> Option<usize> {
    match a {
        ActorModelAction::Deliver { dst, .. } => Some(usize::from(*dst)),
        ActorModelAction::Timeout(id, _) | ActorModelAction::Crash(id) => Some(usize::from(*id)),
        ActorModelAction::SelectRandom { actor, .. } => Some(usize::from(*actor)),
        ActorModelAction::Drop(_) => None,
    }
}
fn kind_name(a: &Act) -> &'static str {
    match a {
        ActorModelAction::Deliver { .. } => "deliver",
        ActorModelAction::Drop(_) => "drop",
        ActorModelAction::Timeout(..) => "timeout",
        ActorModelAction::Crash(_) => "crash",
        ActorModelAction::SelectRandom { .. } => "select-random",
    }
}
fn expected_format_action(a: &Act) -> String {
    match a {
        ActorModelAction::Deliver { src, dst, msg } => {
            format!("Id({}) → TMsg({}) → Id({})", usize::from(*src), msg.0, usize::from(*dst))
        }
        ActorModelAction::SelectRandom { actor, random, .. } => {
            format!("Id({}) select random TRandom({})", usize::from(*actor), random.0)
        }
        ActorModelAction::Drop(e) => format!(
            "Drop(Envelope {{ src: Id({}), dst: Id({}), msg: TMsg({}) }})",
            usize::from(e.src), usize::from(e.dst), e.msg.0
        ),
        ActorModelAction::Timeout(id, t) => format!("Timeout(Id({}), TTimer({}))", usize::from(*id), t.0),
        ActorModelAction::Crash(id) => format!("Crash(Id({}))", usize::from(*id)),
    }
}
/// `format_step` as the code documents it, from the handler table alone
fn expected_format_step(tables: &[Arc<Table>], st: &ActorModelState<Named<TMsg>, Hist>, a: &Act) -> Option<String> {
    match a {
        ActorModelAction::Drop(e) => Some(format!(
            "DROP: Envelope {{ src: Id({}), dst: Id({}), msg: TMsg({}) }}",
            usize::from(e.src), usize::from(e.dst), e.msg.0
        )),
        _ => {
            let i = acting(a).unwrap();
            let prev = st.actor_states.get(i)?.0;
            match a {
                ActorModelAction::Crash(_) => Some(step_text(prev, None)),
                _ => Some(step_text(prev, row_for(&tables[i], prev, a))),
            }
        }
    }
}

struct StepInfo {
    a: Act,
    /// sends of the handler that ran (table order)
    sends: Vec<(usize, u8)>,
}
/// the sequence diagram as the code documents it
fn expected_svg(names: &[String], n_states: usize, steps: &[StepInfo]) -> String {
    let labels: Vec<String> = names.iter().enumerate().map(|(i, n)| if n.is_empty() { i.to_string() } else { format!("{} {}", i, n) }).collect();
    let spacing = std::cmp::max(100, labels.iter().map(|l| l.len() as u64).max().unwrap_or(0) * 10);
    let plot = |x: usize, y: usize| (x as u64 * spacing, y as u64 * 30);
    let plen = steps.len() + 1;
    let (w, h) = plot(n_states, plen);
    let w = w + 300;
    let mut s = format!(
        "<svg version='1.1' baseProfile='full' width='{}' height='{}' viewbox='-20 -20 {} {}' xmlns='http://www.w3.org/2000/svg'>",
        w, h, w + 20, h + 20
    );
    s.push_str("<defs><marker class='svg-event-shape' id='arrow' markerWidth='12' markerHeight='10' refX='12' refY='5' orient='auto'><polygon points='0 0, 12 5, 0 10' /></marker></defs>");
    for (i, l) in labels.iter().enumerate() {
        let (x1, y1) = plot(i, 0);
        let (x2, y2) = plot(i, plen);
        s.push_str(&format!("<line x1='{}' y1='{}' x2='{}' y2='{}' class='svg-actor-timeline' />\n", x1, y1, x2, y2));
        s.push_str(&format!("<text x='{}' y='{}' class='svg-actor-label'>{}</text>\n", x1, y1, l));
    }
    let mut send_time: HashMap<(usize, usize, u8), usize> = HashMap::new();
    for (k, st) in steps.iter().enumerate() {
        let time = k + 1;
        match &st.a {
            ActorModelAction::Deliver { src, dst, msg } => {
                let (src, dst) = (usize::from(*src), usize::from(*dst));
                let t0 = *send_time.get(&(src, dst, msg.0)).unwrap_or(&0);
                let (x1, y1) = plot(src, t0);
                let (x2, y2) = plot(dst, time);
                s.push_str(&format!("<line x1='{}' x2='{}' y1='{}' y2='{}' marker-end='url(#arrow)' class='svg-event-line' />\n", x1, x2, y1, y2));
                for (d, m) in &st.sends { send_time.insert((dst, *d, *m), time); }
            }
            ActorModelAction::Drop(_) => {}
            other => {
                let i = acting(other).unwrap();
                let (x, y) = plot(i, time);
                s.push_str(&format!("<circle cx='{}' cy='{}' r='10' class='svg-event-shape' />\n", x, y));
                for (d, m) in &st.sends { send_time.insert((i, *d, *m), time); }
            }
        }
    }
    for (k, st) in steps.iter().enumerate() {
        let time = k + 1;
        let (i, text) = match &st.a {
            ActorModelAction::Deliver { dst, msg, .. } => (usize::from(*dst), format!("TMsg({})", msg.0)),
            ActorModelAction::Timeout(id, t) => (usize::from(*id), format!("Timeout(TTimer({}))", t.0)),
            ActorModelAction::Crash(id) => (usize::from(*id), "Crash".to_string()),
            ActorModelAction::SelectRandom { actor, random, .. } => (usize::from(*actor), format!("Random(TRandom({}))", random.0)),
            ActorModelAction::Drop(_) => continue,
        };
        let (x, y) = plot(i, time);
        s.push_str(&format!("<text x='{}' y='{}' class='svg-event-label'>{}</text>\n", x, y, text));
    }
    s.push_str("</svg>\n");
    s
}
fn count(hay: &str, needle: &str) -> usize {
    hay.matches(needle).count()
}
fn first_diff(a: &str, b: &str) -> String {
    let i = a.bytes().zip(b.bytes()).position(|(x, y)| x != y).unwrap_or(a.len().min(b.len()));
    let cut = |s: &str| { let lo = i.saturating_sub(30); let lo = (0..=lo).rev().find(|k| s.is_char_boundary(*k)).unwrap_or(0);
        let hi = (i + 50).min(s.len()); let hi = (hi..=s.len()).find(|k| s.is_char_boundary(*k)).unwrap_or(s.len()); s[lo..hi].to_string() };
    format!("at byte {}: got ...{}... expected ...{}...", i, cut(a), cut(b))
}

// ---------------------------------------------------------------------------------------------------------
// section 1 + 2: presentation of random systems

fn present_system(out: &mut Out, r: &mut Rng, spec: &SysSpec, bound: usize, max_pairs: usize, n_paths: usize, sample: bool) {
    let names: Vec<String> = spec.tables.iter().map(|_| gen_name(r)).collect();
    let actors: Vec<Named<TMsg>> = spec.tables.iter().zip(&names).map(|(t, n)| Named { inner: TableActor::new(t.clone(), None), name: n.clone() }).collect();
    let model = spec.model(actors);
    let sxs = format!("{} names {:?}", spec.to_sx(&[]), names);
    let g = explore(&model, bound, &tstate_sx, None);
    out.stat(&format!("net-{}", spec.kind.name()));
    out.stat(if spec.lossy { "lossy-yes" } else { "lossy-no" });
    out.stat(&format!("max-crashes-{}", spec.max_crashes));
    out.stat(&format!("actors-{}", spec.tables.len()));
    if sample { out.sample(&format!("system {} -> {} states, {} transitions", sxs, g.states.len(), g.transitions())); }
    let n = spec.tables.len();

    // (state, action) pairs: enabled ones of the walk + wild ones (ids out of range, actions that are not enabled)
    let mut pairs: Vec<(usize, Act, bool)> = Vec::new();
    for (i, rec) in g.records.iter().enumerate() {
        for t in rec { pairs.push((i, mk_action(&t.action_key), true)); }
    }
    r.shuffle(&mut pairs);
    pairs.truncate(max_pairs);
    let n_wild = (pairs.len() / 6).max(4);
    for _ in 0..n_wild {
        if g.records.is_empty() { break; }
        let i = r.below(g.records.len());
        let k: Vec<u64> = match r.below(5) {
            0 => vec![0, r.below(n + 1) as u64, r.below(n + 2) as u64, r.below(3) as u64],
            1 => vec![1, r.below(n + 1) as u64, r.below(n + 2) as u64, r.below(3) as u64],
            2 => vec![2, r.below(n + 2) as u64, r.below(3) as u64],
            3 => vec![3, r.below(n + 2) as u64],
            _ => vec![4, r.below(n + 2) as u64, r.below(2) as u64, r.below(3) as u64],
        };
        pairs.push((i, mk_action(&k), false));
    }
    let mut nontrivial = false;
    for (i, a, enabled) in &pairs {
        let st = &g.raw[*i];
        let kind = kind_name(a);
        let tag = if *enabled { "" } else { "wild-" };
        // format_action
        let fa = catch_unwind(AssertUnwindSafe(|| model.format_action(a)));
        let efa = expected_format_action(a);
        match fa {
            Ok(t) if t == efa => out.stat(&format!("format-action-{}{}", tag, kind)),
            Ok(t) => out.v("format-action", &format!("system {} action {}: got {:?} expected {:?}", sxs, action_sx(a), t, efa)),
            Err(_) => out.v("format-action-panic", &format!("system {} action {}", sxs, action_sx(a))),
        }
        // format_step
        let fs = catch_unwind(AssertUnwindSafe(|| model.format_step(st, a.clone())));
        let efs = expected_format_step(&spec.tables, st, a);
        let fs = match fs {
            Ok(x) => x,
            Err(_) => { out.v("format-step-panic", &format!("system {} state {} action {}", sxs, g.states[*i], action_sx(a))); continue; }
        };
        if fs != efs {
            out.v("format-step", &format!("system {} state {} action {}: got {:?} expected {:?}", sxs, g.states[*i], action_sx(a), fs, efs));
        }
        if let Some(t) = &fs {
            if t.contains("NEXT_STATE") { out.stat(&format!("format-step-{}{}-next-state", tag, kind)); nontrivial = true; }
            else if t.starts_with("DROP") { out.stat(&format!("format-step-{}{}", tag, kind)); }
            else { out.stat(&format!("format-step-{}{}-unchanged", tag, kind)); }
            if t.contains("Send(") { out.stat("format-step-with-sends"); }
        } else {
            out.stat(&format!("format-step-{}{}-none", tag, kind));
        }
        // relation to next_state
        let ns = catch_unwind(AssertUnwindSafe(|| model.next_state(st, a.clone())));
        match (&ns, &fs) {
            (Ok(Some(s2)), Some(t)) => {
                out.stat("next-some-step-some");
                // the text's NEXT_STATE / UNCHANGED is the successor's state of the acting actor; nobody else moved
                let who = acting(a);
                for j in 0..st.actor_states.len() {
                    let (before, after) = (st.actor_states[j].0, s2.actor_states[j].0);
                    if Some(j) == who {
                        let want = if t.contains("NEXT_STATE") { format!("NEXT_STATE: {}\n", pretty_state(after)) } else { format!("UNCHANGED: {}\n", pretty_state(after)) };
                        if !t.contains(&want) || (!t.contains("NEXT_STATE") && before != after) {
                            out.v("format-step-vs-next-state", &format!("system {} state {} action {}: text {:?} but successor actor state {}", sxs, g.states[*i], action_sx(a), t, after));
                        }
                    } else if before != after {
                        out.v("format-step-vs-next-state", &format!("system {} state {} action {}: actor {} moved", sxs, g.states[*i], action_sx(a), j));
                    }
                }
            }
            (Ok(Some(_)), None) => out.v("format-step-none-but-step-exists", &format!("system {} state {} action {}", sxs, g.states[*i], action_sx(a))),
            (Ok(None), Some(_)) => out.stat(&format!("next-none-step-some-{}{}", tag, kind)),
            (Ok(None), None) => out.stat(&format!("next-none-step-none-{}{}", tag, kind)),
            (Err(_), Some(_)) => out.stat(&format!("next-panic-step-some-{}{}", tag, kind)),
            (Err(_), None) => out.stat(&format!("next-panic-step-none-{}{}", tag, kind)),
        }
        // `None` exactly for an acting actor that does not exist
        let exists = acting(a).map_or(true, |j| j < st.actor_states.len());
        if fs.is_some() != exists {
            out.v("format-step-some-iff-actor-exists", &format!("system {} state {} action {}: Some={} exists={}", sxs, g.states[*i], action_sx(a), fs.is_some(), exists));
        }
    }
    if nontrivial { out.distinct(&("present", &sxs)); }

    // serialisation of reachable states (section 2)
    let mut idx: Vec<usize> = (0..g.raw.len()).collect();
    r.shuffle(&mut idx);
    for i in idx.into_iter().take(6) { serialize_case(out, &sxs, &g.states[i], &g.raw[i]); }

    // random paths -> as_svg
    let inits = model.init_states();
    for p in 0..n_paths {
        let want_len = if p == 0 { 0 } else { 1 + r.below(if thorough() { 30 } else { 14 }) };
        let mut cur = inits[0].clone();
        let mut steps: Vec<StepInfo> = Vec::new();
        let mut seen: Vec<&'static str> = Vec::new();
        for _ in 0..want_len {
            let mut acts = Vec::new();
            model.actions(&cur, &mut acts);
            let mut cands: Vec<(Act, ActorModelState<Named<TMsg>, Hist>)> = acts.into_iter()
                .filter_map(|a| catch_unwind(AssertUnwindSafe(|| model.next_state(&cur, a.clone()))).ok().flatten().map(|s| (a, s))).collect();
            if cands.is_empty() { break; }
            // prefer a kind this path has not shown yet
            let fresh: Vec<usize> = (0..cands.len()).filter(|k| !seen.contains(&kind_name(&cands[*k].0))).collect();
            let k = if !fresh.is_empty() && r.chance(3, 4) { *r.pick(&fresh) } else { r.below(cands.len()) };
            let (a, s2) = cands.swap_remove(k);
            if !seen.contains(&kind_name(&a)) { seen.push(kind_name(&a)); }
            let sends = match acting(&a) {
                Some(i) if !matches!(a, ActorModelAction::Crash(_)) => row_for(&spec.tables[i], cur.actor_states[i].0, &a)
                    .map(|row| row.cmds.iter().filter_map(|c| if let TCmd::Send(d, m) = c { Some((*d, *m)) } else { None }).collect()).unwrap_or_default(),
                _ => Vec::new(),
            };
            steps.push(StepInfo { a, sends });
            cur = s2;
        }
        let actions: Vec<Act> = steps.iter().map(|s| s.a.clone()).collect();
        let path = catch_unwind(AssertUnwindSafe(|| Path::from_actions(&model, inits[0].clone(), actions.iter())));
        let path = match path {
            Ok(Some(p)) => p,
            _ => { out.v("path-from-actions", &format!("system {} actions {}: a walked path could not be rebuilt", sxs, sx::list(actions.iter().map(action_sx)))); continue; }
        };
        let svg = catch_unwind(AssertUnwindSafe(|| model.as_svg(path)));
        let ptxt = sx::list(actions.iter().map(action_sx));
        let svg = match svg {
            Ok(Some(s)) => s,
            Ok(None) => { out.v("as-svg-none", &format!("system {} path {}", sxs, ptxt)); continue; }
            Err(_) => { out.v("as-svg-panic", &format!("system {} path {}", sxs, ptxt)); continue; }
        };
        out.stat("svg-paths");
        out.stat(&format!("svg-path-kinds-{}", seen.len()));
        if steps.is_empty() { out.stat("svg-path-length-0"); }
        out.stat_n("svg-path-steps", steps.len() as u64);
        let cnt = |k: &str| steps.iter().filter(|s| kind_name(&s.a) == k).count();
        let (nd, nx, nt, nc, nr) = (cnt("deliver"), cnt("drop"), cnt("timeout"), cnt("crash"), cnt("select-random"));
        // structural laws
        let mut bad = Vec::new();
        if !(svg.starts_with("<svg ") && svg.ends_with("</svg>\n") && count(&svg, "<svg") == 1 && count(&svg, "</svg>") == 1) { bad.push("not one balanced <svg>..</svg>".to_string()); }
        if count(&svg, "class='svg-actor-label'") != n || count(&svg, "class='svg-actor-timeline'") != n { bad.push("not one lifeline and label per actor".into()); }
        for (i, nm) in names.iter().enumerate() {
            let l = if nm.is_empty() { format!("class='svg-actor-label'>{}</text>", i) } else { format!("class='svg-actor-label'>{} {}</text>", i, nm) };
            if count(&svg, &l) != 1 { bad.push(format!("label of actor {} missing", i)); }
        }
        if count(&svg, "class='svg-event-line'") != nd { bad.push(format!("{} arrows for {} deliveries", count(&svg, "class='svg-event-line'"), nd)); }
        if count(&svg, "<circle") != nt + nc + nr { bad.push(format!("{} markers for {} timeout/crash/random steps", count(&svg, "<circle"), nt + nc + nr)); }
        if count(&svg, "class='svg-event-label'") != nd + nt + nc + nr { bad.push("not one event label per non-drop step".into()); }
        if count(&svg, ">Crash</text>") != nc || count(&svg, ">Timeout(") != nt || count(&svg, ">Random(") != nr { bad.push("labels per kind".into()); }
        if !svg.contains(&format!(" height='{}' ", 30 * (steps.len() + 1))) { bad.push("height is not 30 per row".into()); }
        if count(&svg, "<text") != count(&svg, "</text>") || count(&svg, "<defs>") != 1 || count(&svg, "</defs>") != 1 { bad.push("unbalanced text/defs".into()); }
        if !bad.is_empty() { out.v("as-svg-structure", &format!("system {} path {}: {}", sxs, ptxt, bad.join("; "))); }
        let _ = nx;
        // exact law
        let exp = expected_svg(&names, cur.actor_states.len(), &steps);
        if svg != exp { out.v("as-svg-text", &format!("system {} path {}: {}", sxs, ptxt, first_diff(&svg, &exp))); }
        // an arrow that starts at the send row of its message
        if svg.contains("marker-end") && steps.iter().any(|s| !s.sends.is_empty()) { out.stat("svg-paths-with-tracked-sends"); }
        if steps.len() >= 3 { out.distinct(&("svg", &sxs, &ptxt)); }
        if sample && p == 1 { out.sample(&format!("svg path {} ({} bytes)", ptxt, svg.len())); }
    }
}

// ---------------------------------------------------------------------------------------------------------
// section 2: a top-level serializer that records the struct shape and serialises every field on its own

#[derive(Debug)]
struct SerErr(String);
impl Display for SerErr {
    fn fmt(&self, f: &mut std::fmt::Formatter<'_>) -> std::fmt::Result { write!(f, "{}", self.0) }
}
impl std::error::Error for SerErr {}
impl serde::ser::Error for SerErr {
    fn custom<T: Display>(m: T) -> Self { SerErr(m.to_string()) }
}
#[derive(Default)]
struct TopRec {
    name: String,
    declared_len: usize,
    fields: Vec<(String, Result<Value, String>)>,
    ended: bool,
}
struct Top<'a>(&'a mut TopRec);
struct TopStruct<'a>(&'a mut TopRec);
impl<'a> SerializeStruct for TopStruct<'a> {
    type Ok = ();
    type Error = SerErr;
    fn serialize_field<T: ?Sized + Serialize>(&mut self, key: &'static str, value: &T) -> Result<(), SerErr> {
        self.0.fields.push((key.to_string(), serde_json::to_value(value).map_err(|e| e.to_string())));
        Ok(())
    }
    fn end(self) -> Result<(), SerErr> { self.0.ended = true; Ok(()) }
}
fn not_struct<T>() -> Result<T, SerErr> { Err(SerErr("top level is not a struct".into())) }
impl<'a> serde::Serializer for Top<'a> {
    type Ok = ();
    type Error = SerErr;
    type SerializeSeq = Impossible<(), SerErr>;
    type SerializeTuple = Impossible<(), SerErr>;
    type SerializeTupleStruct = Impossible<(), SerErr>;
    type SerializeTupleVariant = Impossible<(), SerErr>;
    type SerializeMap = Impossible<(), SerErr>;
    type SerializeStruct = TopStruct<'a>;
    type SerializeStructVariant = Impossible<(), SerErr>;
    fn serialize_bool(self, _: bool) -> Result<(), SerErr> { not_struct() }
    fn serialize_i8(self, _: i8) -> Result<(), SerErr> { not_struct() }
    fn serialize_i16(self, _: i16) -> Result<(), SerErr> { not_struct() }
    fn serialize_i32(self, _: i32) -> Result<(), SerErr> { not_struct() }
    fn serialize_i64(self, _: i64) -> Result<(), SerErr> { not_struct() }
    fn serialize_u8(self, _: u8) -> Result<(), SerErr> { not_struct() }
    fn serialize_u16(self, _: u16) -> Result<(), SerErr> { not_struct() }
    fn serialize_u32(self, _: u32) -> Result<(), SerErr> { not_struct() }
    fn serialize_u64(self, _: u64) -> Result<(), SerErr> { not_struct() }
    fn serialize_f32(self, _: f32) -> Result<(), SerErr> { not_struct() }
    fn serialize_f64(self, _: f64) -> Result<(), SerErr> { not_struct() }
    fn serialize_char(self, _: char) -> Result<(), SerErr> { not_struct() }
    fn serialize_str(self, _: &str) -> Result<(), SerErr> { not_struct() }
    fn serialize_bytes(self, _: &[u8]) -> Result<(), SerErr> { not_struct() }
    fn serialize_none(self) -> Result<(), SerErr> { not_struct() }
    fn serialize_some<T: ?Sized + Serialize>(self, _: &T) -> Result<(), SerErr> { not_struct() }
    fn serialize_unit(self) -> Result<(), SerErr> { not_struct() }
    fn serialize_unit_struct(self, _: &'static str) -> Result<(), SerErr> { not_struct() }
    fn serialize_unit_variant(self, _: &'static str, _: u32, _: &'static str) -> Result<(), SerErr> { not_struct() }
    fn serialize_newtype_struct<T: ?Sized + Serialize>(self, _: &'static str, _: &T) -> Result<(), SerErr> { not_struct() }
    fn serialize_newtype_variant<T: ?Sized + Serialize>(self, _: &'static str, _: u32, _: &'static str, _: &T) -> Result<(), SerErr> { not_struct() }
    fn serialize_seq(self, _: Option<usize>) -> Result<Self::SerializeSeq, SerErr> { not_struct() }
    fn serialize_tuple(self, _: usize) -> Result<Self::SerializeTuple, SerErr> { not_struct() }
    fn serialize_tuple_struct(self, _: &'static str, _: usize) -> Result<Self::SerializeTupleStruct, SerErr> { not_struct() }
    fn serialize_tuple_variant(self, _: &'static str, _: u32, _: &'static str, _: usize) -> Result<Self::SerializeTupleVariant, SerErr> { not_struct() }
    fn serialize_map(self, _: Option<usize>) -> Result<Self::SerializeMap, SerErr> { not_struct() }
    fn serialize_struct(self, name: &'static str, len: usize) -> Result<TopStruct<'a>, SerErr> {
        self.0.name = name.to_string();
        self.0.declared_len = len;
        Ok(TopStruct(self.0))
    }
    fn serialize_struct_variant(self, _: &'static str, _: u32, _: &'static str, _: usize) -> Result<Self::SerializeStructVariant, SerErr> { not_struct() }
}
fn jv<T: Serialize>(x: &T) -> Result<Value, String> {
    serde_json::to_value(x).map_err(|e| e.to_string())
}
fn sorted_nums(v: &Value) -> Option<Vec<u64>> {
    let mut o: Vec<u64> = v.as_array()?.iter().map(|x| x.as_u64()).collect::<Option<Vec<_>>>()?;
    o.sort();
    Some(o)
}
fn serialize_case(out: &mut Out, sxs: &str, stx: &str, st: &ActorModelState<Named<TMsg>, Hist>) {
    let mut rec = TopRec::default();
    let r = catch_unwind(AssertUnwindSafe(|| st.serialize(Top(&mut rec))));
    let ctx = format!("system {} state {}", sxs, stx);
    match r {
        Ok(Ok(())) => {}
        Ok(Err(e)) => { out.v("serialize-shape", &format!("{}: {}", ctx, e)); return; }
        Err(_) => { out.v("serialize-panic", &ctx); return; }
    }
    out.stat("serialize-states");
    // law: the struct `ActorModelState` with these fields in this order, each serialised by its own impl
    let want: Vec<(&str, Result<Value, String>)> = vec![
        ("actor_states", jv(&st.actor_states)),
        ("network", jv(&st.network)),
        ("is_timer_set", jv(&st.timers_set)),
        ("random_choices", jv(&st.random_choices)),
        ("history", jv(&st.history)),
    ];
    let got: Vec<(&str, &Result<Value, String>)> = rec.fields.iter().map(|(k, v)| (k.as_str(), v)).collect();
    let same = rec.name == "ActorModelState" && rec.ended && got.len() == want.len()
        && got.iter().zip(&want).all(|((k1, v1), (k2, v2))| k1 == k2 && *v1 == v2);
    if !same {
        out.v("serialize-fields", &format!("{}: struct {:?} ended={} fields {:?}, expected the fields {:?} serialised by their own impls",
            ctx, rec.name, rec.ended, rec.fields.iter().map(|(k, v)| format!("{}={}", k, match v { Ok(x) => x.to_string(), Err(e) => format!("ERR {}", e) })).collect::<Vec<_>>(),
            want.iter().map(|(k, _)| *k).collect::<Vec<_>>()));
    }
    // the pieces, read independently of the serialisers where the wire form is plain
    let f = |k: &str| rec.fields.iter().find(|(n, _)| n == k).and_then(|(_, v)| v.as_ref().ok());
    let states: Vec<u64> = st.actor_states.iter().map(|s| s.0 as u64).collect();
    if f("actor_states").and_then(|v| v.as_array()).map(|a| a.iter().map(|x| x.as_u64()).collect::<Option<Vec<_>>>()) != Some(Some(states)) {
        out.v("serialize-actor-states", &format!("{}: {:?}", ctx, f("actor_states")));
    }
    if f("history").and_then(|v| v.as_array()).map(|a| a.iter().map(|x| x.as_u64()).collect::<Option<Vec<_>>>()) != Some(Some(st.history.iter().map(|x| *x as u64).collect())) {
        out.v("serialize-history", &format!("{}: {:?}", ctx, f("history")));
    }
    let timers_ok = f("is_timer_set").and_then(|v| v.as_array()).map_or(false, |a| a.len() == st.timers_set.len() && a.iter().zip(&st.timers_set).all(|(j, ts)| {
        let mut w: Vec<u64> = ts.iter().map(|t| t.0 as u64).collect(); w.sort(); sorted_nums(j) == Some(w) }));
    if !timers_ok { out.v("serialize-timers", &format!("{}: {:?}", ctx, f("is_timer_set"))); }
    let random_ok = f("random_choices").and_then(|v| v.as_array()).map_or(false, |a| a.len() == st.random_choices.len() && a.iter().zip(&st.random_choices).all(|(j, rc)| {
        let m = match j.as_object().and_then(|o| if o.len() == 1 { o.get("map") } else { None }).and_then(|m| m.as_object()) { Some(m) => m, None => return false };
        m.len() == rc.map.len() && rc.map.iter().all(|(k, cs)| m.get(k).and_then(|v| v.as_array()).map(|v| v.iter().map(|x| x.as_u64()).collect::<Option<Vec<_>>>()) == Some(Some(cs.iter().map(|c| c.0 as u64).collect())))
    }));
    if !random_ok { out.v("serialize-random", &format!("{}: {:?}", ctx, f("random_choices"))); }
    // whole-value JSON: an object of exactly these pieces, or an error exactly when a piece has none
    let whole = jv(st);
    let all_ok = want.iter().all(|(_, v)| v.is_ok());
    match (&whole, all_ok) {
        (Ok(Value::Object(o)), true) => {
            out.stat("serialize-json-ok");
            let keys: Vec<&String> = o.keys().collect();
            if keys.len() != 5 || o.contains_key("crashed") || !want.iter().all(|(k, v)| o.get(*k) == v.as_ref().ok()) {
                out.v("serialize-json", &format!("{}: {}", ctx, whole.as_ref().unwrap()));
            }
        }
        (Err(e), false) => {
            out.stat("serialize-json-error-from-network-with-non-string-keys");
            let first = want.iter().find_map(|(_, v)| v.as_ref().err()).unwrap();
            if e != first { out.v("serialize-json-error", &format!("{}: {} vs first failing piece {}", ctx, e, first)); }
        }
        _ => out.v("serialize-json", &format!("{}: whole {:?} pieces-ok {}", ctx, whole.as_ref().map(|v| v.to_string()), all_ok)),
    }
    match &st.network {
        Network::UnorderedDuplicating(set, last) => {
            let ok = f("network").and_then(|v| v.get("UnorderedDuplicating")).and_then(|v| v.as_array()).map_or(false, |a| a.len() == 2
                && a[0].as_array().map_or(false, |es| {
                    let mut got: Vec<(u64, u64, u64)> = es.iter().filter_map(|e| Some((e.get("src")?.as_u64()?, e.get("dst")?.as_u64()?, e.get("msg")?.as_u64()?))).collect();
                    got.sort();
                    let mut w: Vec<(u64, u64, u64)> = set.iter().map(|e| (usize::from(e.src) as u64, usize::from(e.dst) as u64, e.msg.0 as u64)).collect();
                    w.sort();
                    es.len() == w.len() && got == w })
                && a[1].is_null() == last.is_none());
            if !ok { out.v("serialize-network", &format!("{}: {:?}", ctx, f("network"))); }
            out.stat("serialize-net-duplicating");
        }
        n => out.stat(if n.len() == 0 { "serialize-net-keyed-empty" } else { "serialize-net-keyed-nonempty" }),
    }
}

// ---------------------------------------------------------------------------------------------------------
// section 3: network names

fn net_tag(n: &Result<Network<TMsg>, String>) -> &'static str {
    match n {
        Ok(Network::Ordered(_)) => "ordered",
        Ok(Network::UnorderedDuplicating(..)) => "dup",
        Ok(Network::UnorderedNonDuplicating(_)) => "nondup",
        Err(_) => "err",
    }
}
fn network_names(out: &mut Out, r: &mut Rng, n_rand: usize) {
    let names = match catch_unwind(|| Network::<TMsg>::names()) {
        Ok(n) => n,
        Err(_) => { out.v("net-names-panic", "Network::names()"); return; }
    };
    out.m("net-names", &sx::list(names.iter().map(|s| s.to_string())));
    let parsed: Vec<Result<Network<TMsg>, String>> = names.iter().map(|s| s.parse::<Network<TMsg>>()).collect();
    out.o(&format!("o-net-names {} {}", sx::list(names.iter().map(|s| s.to_string())), sx::list(parsed.iter().map(|p| net_tag(p).to_string()))));
    // the same listing for other message types
    if Network::<u8>::names() != names || Network::<RM>::names() != names { out.v("net-names-generic", "names() depends on the message type"); }
    let mut cands: Vec<String> = names.iter().map(|s| s.to_string()).collect();
    for k in NetKind::all() { cands.push(k.name().to_string()); } // hyphenated spellings: not names
    let alphabet: Vec<char> = "abcdefghijklmnopqrstuvwxyzABCDEFGHIJKLMNOPQRSTUVWXYZ0123456789_-".chars().collect();
    for _ in 0..n_rand {
        let base = names[r.below(names.len())].to_string();
        let mut cs: Vec<char> = base.chars().collect();
        match r.below(8) {
            0 => { let i = r.below(cs.len()); cs[i] = cs[i].to_ascii_uppercase(); }
            1 => { let i = r.below(cs.len()); cs.remove(i); }
            2 => { let i = r.below(cs.len() + 1); cs.insert(i, *r.pick(&alphabet)); }
            3 => { let i = r.below(cs.len()); cs[i] = *r.pick(&alphabet); }
            4 => { cs.truncate(r.below(cs.len()).max(1)); }
            5 => { cs = (0..1 + r.below(12)).map(|_| *r.pick(&alphabet)).collect(); }
            6 => { cs = cs.iter().map(|c| if *c == '_' { '-' } else { *c }).collect(); }
            _ => {}
        }
        cands.push(cs.into_iter().collect());
    }
    for s in &cands {
        let p = s.parse::<Network<TMsg>>();
        let tag = net_tag(&p);
        out.m(&format!("net-parse {}", s), tag);
        out.stat(&format!("net-parse-{}", tag));
        out.distinct(&("net", s));
        match (&p, tag) {
            (Err(e), _) => if *e != format!("unable to parse network name: {}", s) { out.v("net-parse-error-text", &format!("{:?}: {:?}", s, e)); },
            (Ok(n), "ordered") => if *n != Network::new_ordered([]) { out.v("net-parse-not-empty", s); },
            (Ok(n), "dup") => if *n != Network::new_unordered_duplicating([]) { out.v("net-parse-not-empty", s); },
            (Ok(n), _) => if *n != Network::new_unordered_nonduplicating([]) { out.v("net-parse-not-empty", s); },
        }
        if let Ok(n) = &p {
            if n.len() != 0 || n.iter_all().next().is_some() || n.iter_deliverable().next().is_some() { out.v("net-parse-not-empty", s); }
        }
    }
    // strings that are not atoms of the wire format: harness-side law only
    for s in ["", " ordered", "ordered ", "ordered\n", "unordered duplicating", "(ordered)"] {
        match s.parse::<Network<TMsg>>() {
            Err(e) if e == format!("unable to parse network name: {}", s) => out.stat("net-parse-err-non-atom"),
            other => out.v("net-parse-non-atom", &format!("{:?}: {:?}", s, other.map(|n| net_tag(&Ok(n))))),
        }
    }
}

// ---------------------------------------------------------------------------------------------------------
// section 4: actor.rs glue

fn tcmd_to_command(c: &TCmd) -> Command<TMsg, TTimer, TRandom> {
    match c {
        TCmd::Send(d, m) => Command::Send(Id::from(*d), TMsg(*m)),
        TCmd::SetTimer(t) => Command::SetTimer(TTimer(*t), model_timeout()),
        TCmd::CancelTimer(t) => Command::CancelTimer(TTimer(*t)),
        TCmd::ChooseRandom(k, cs) => Command::ChooseRandom(key_name(*k), cs.iter().map(|c| TRandom(*c)).collect()),
    }
}
fn glue(out: &mut Out, r: &mut Rng, n: usize) {
    // defaults of the trait: an actor that overrides nothing is a no-op
    for _ in 0..n {
        let a = Inert(r.below(5) as u8);
        let id = Id::from(r.below(6));
        let st = TState(r.below(5) as u8);
        let mut cow = Cow::Borrowed(&st);
        let mut o = AOut::<Inert>::new();
        let which = r.below(3);
        match which {
            0 => a.on_msg(id, &mut cow, Id::from(r.below(6)), TMsg(r.below(4) as u8), &mut o),
            1 => a.on_timeout(id, &mut cow, &TTimer(r.below(4) as u8), &mut o),
            _ => a.on_random(id, &mut cow, &TRandom(r.below(4) as u8), &mut o),
        }
        if !matches!(cow, Cow::Borrowed(_)) || !o.is_empty() || *cow != st { out.v("default-handler-not-noop", &format!("handler {} state {:?} out {:?}", which, cow, o)); }
        if a.name() != "" { out.v("default-name", &a.name()); }
        out.stat(["default-on-msg", "default-on-timeout", "default-on-random"][which]);
    }
    // ... and through the model: deliveries to inert actors change nothing (no step on unordered networks, the
    // message is consumed on ordered ones), format_step says UNCHANGED with no output, labels are bare indices
    for _ in 0..(n / 8).max(3) {
        let na = 1 + r.below(3);
        let envs: Vec<(usize, usize, u8)> = (0..1 + r.below(3)).map(|_| (r.below(na), r.below(na), r.below(3) as u8)).collect();
        let kind = *r.pick(&NetKind::all());
        let spec = SysSpec { kind, lossy: false, max_crashes: 0, hist: HistCfg { in_mode: 0, out_mode: 0 }, init_envs: envs.clone(), last: None, tables: vec![] };
        let actors: Vec<Inert> = (0..na).map(|_| Inert(r.below(4) as u8)).collect();
        let model: ActorModel<Inert, (), ()> = ActorModel::new((), ()).actors(actors.clone()).init_network(spec.network::<TMsg>());
        let st = model.init_states().remove(0);
        let mut acts = Vec::new();
        model.actions(&st, &mut acts);
        let ordered = kind == NetKind::Ordered;
        let mut taken = Vec::new();
        for a in acts {
            if let ActorModelAction::Deliver { dst, .. } = &a {
                let d = usize::from(*dst);
                let ns = model.next_state(&st, a.clone());
                if ns.is_some() != ordered { out.v("inert-deliver", &format!("{:?} network {}: next_state is_some={}", a, kind.name(), ns.is_some())); }
                if let Some(s2) = &ns { if s2.actor_states != st.actor_states || s2.network.len() + 1 != st.network.len() { out.v("inert-deliver", &format!("{:?}: more than the message changed", a)); } }
                let want = Some(format!("OUT: []\n\nUNCHANGED: {}\n", pretty_state(actors[d].0)));
                if model.format_step(&st, a.clone()) != want { out.v("inert-format-step", &format!("{:?}", a)); }
                out.stat("inert-deliveries");
                if ordered && taken.is_empty() { taken.push(a); }
            }
        }
        if let Some(p) = Path::from_actions(&model, st.clone(), taken.iter()) {
            let svg = model.as_svg(p).unwrap_or_default();
            for i in 0..na { if count(&svg, &format!("class='svg-actor-label'>{}</text>", i)) != 1 { out.v("inert-svg-label", &format!("actor {} of {}", i, na)); } }
            if count(&svg, "class='svg-event-line'") != taken.len() { out.v("inert-svg-arrows", &svg); }
            out.stat("inert-svg");
        } else { out.v("inert-path", "a one-step path could not be built"); }
    }
    // `()` and `Vec<(Id, Msg)>` actors
    {
        let mut o = AOut::<()>::new();
        ().on_start(Id::from(0), &mut o);
        let mut cow = Cow::Borrowed(&());
        ().on_msg(Id::from(0), &mut cow, Id::from(1), (), &mut o);
        ().on_timeout(Id::from(0), &mut cow, &(), &mut o);
        ().on_random(Id::from(0), &mut cow, &(), &mut o);
        if !o.is_empty() || !matches!(cow, Cow::Borrowed(_)) || ().name() != "" { out.v("unit-actor", "the () actor is not inert / named"); }
        let m: ActorModel<(), (), ()> = ActorModel::new((), ()).actor(()).actor(());
        let st = m.init_states().remove(0);
        let mut acts = Vec::new();
        m.actions(&st, &mut acts);
        if !acts.is_empty() || st.actor_states.len() != 2 { out.v("unit-actor", "a system of () actors has actions"); }
        match Path::from_actions(&m, st, Vec::new().iter()).and_then(|p| m.as_svg(p)) {
            Some(svg) if count(&svg, "class='svg-actor-label'>0</text>") == 1 && count(&svg, "class='svg-actor-label'>1</text>") == 1 && svg.ends_with("</svg>\n") => out.stat("unit-actor-svg"),
            other => out.v("unit-actor-svg", &format!("{:?}", other)),
        }
    }
    for _ in 0..n {
        let script: Vec<(Id, u8)> = (0..r.below(4)).map(|_| (Id::from(r.below(4)), r.below(9) as u8)).collect();
        if Actor::name(&script) != "" { out.v("vec-actor-name", &Actor::name(&script)); }
        let mut o = AOut::<Vec<(Id, u8)>>::new();
        let s0 = script.on_start(Id::from(0), &mut o);
        let want = script.first().map(|(d, m)| format!("[Send({:?}, {})]", d, m)).unwrap_or("[]".into());
        if format!("{:?}", o) != want || s0 != script.len().min(1) { out.v("vec-actor-start", &format!("{:?} -> {} {:?}", script, s0, o)); }
        // timeouts / random choices are the trait defaults
        let mut cow = Cow::Borrowed(&s0);
        let mut o2 = AOut::<Vec<(Id, u8)>>::new();
        script.on_timeout(Id::from(0), &mut cow, &(), &mut o2);
        script.on_random(Id::from(0), &mut cow, &(), &mut o2);
        if !o2.is_empty() || !matches!(cow, Cow::Borrowed(_)) { out.v("vec-actor-defaults", &format!("{:?}", script)); }
        out.stat("vec-actor");
    }
    // names through Choice in every position
    for _ in 0..n {
        let nm = gen_name(r);
        let t = Arc::new(Table::default());
        let mk = |name: &str| Named::<TMsg> { inner: TableActor::new(t.clone(), None), name: name.to_string() };
        let other = "other";
        let got: Vec<(String, &str)> = vec![
            (Choice::<Named<TMsg>, Never>::new(mk(&nm)).name(), "O"),
            (Choice::<Named<TMsg>, Named<TMsg>>::L(mk(&nm)).name(), "L"),
            (Choice::<Named<TMsg>, Named<TMsg>>::R(mk(&nm)).name(), "R"),
            (Choice::<Named<TMsg>, Choice<Named<TMsg>, Choice<Named<TMsg>, Never>>>::R(Choice::L(mk(&nm))).name(), "RL"),
            (Choice::<Named<TMsg>, Choice<Named<TMsg>, Choice<Named<TMsg>, Never>>>::R(Choice::R(Choice::new(mk(&nm)))).name(), "RRO"),
            (Choice::<Choice<Named<TMsg>, Never>, Named<TMsg>>::L(Choice::new(mk(&nm))).name(), "LO"),
            (TableActor::<TMsg>::new(t.clone(), None).name(), "table"),
        ];
        for (g, pos) in &got {
            let want = if *pos == "table" { "table" } else { nm.as_str() };
            if g != want { out.v("choice-name", &format!("position {}: {:?} expected {:?}", pos, g, want)); }
            out.stat(&format!("choice-name-{}", pos));
        }
        let _ = other;
        out.distinct(&("name", &nm));
    }
    // Id::vec_from
    for _ in 0..n {
        let v: Vec<usize> = (0..r.below(8)).map(|_| if r.chance(1, 6) { r.next() as usize } else { r.below(10) }).collect();
        let want: Vec<Id> = v.iter().map(|x| Id::from(*x)).collect();
        if Id::vec_from(v.clone()) != want || Id::vec_from(want.clone()) != want { out.v("id-vec-from", &format!("{:?}", v)); }
        let k = r.below(7);
        if Id::vec_from(0..k) != (0..k).map(Id::from).collect::<Vec<_>>() { out.v("id-vec-from-range", &k.to_string()); }
        if Id::vec_from(want.iter().copied()).iter().map(|i| usize::from(*i)).collect::<Vec<_>>() != v { out.v("id-vec-from-roundtrip", &format!("{:?}", v)); }
        out.stat("id-vec-from");
    }
    // majority / peer_ids / model_peers
    for c in 0..n * 4 {
        let k = match r.below(10) { 0 => usize::MAX - r.below(3), 1 => r.next() as usize, 2 => r.below(1 << 20), _ => r.below(40) };
        let k = if c < 40 { c } else { k };
        match catch_unwind(|| majority(k)) {
            Ok(m) => { out.m(&format!("majority {}", k), &m.to_string()); out.o(&format!("o-majority {} {}", k, m)); }
            Err(_) => out.m(&format!("majority {}", k), "panic"),
        }
        out.stat(if k % 2 == 0 { "majority-even" } else { "majority-odd" });
        out.distinct(&("maj", k));
    }
    for c in 0..n * 4 {
        let len = r.below(9);
        let span = 1 + r.below(6);
        let ids: Vec<usize> = (0..len).map(|_| r.below(span)).collect();
        let s = r.below(span + 1);
        let idv: Vec<Id> = ids.iter().map(|x| Id::from(*x)).collect();
        let res: Vec<usize> = peer_ids(Id::from(s), &idv).map(|i| usize::from(*i)).collect();
        out.m(&format!("peer-ids {} {}", s, sx::nums(&ids)), &sx::nums(&res));
        out.o(&format!("o-peer-ids {} {} {}", s, sx::nums(&ids), sx::nums(&res)));
        // the same helper on another id type
        let res2: Vec<usize> = peer_ids(s, &ids).copied().collect();
        if res2 != res { out.v("peer-ids-generic", &format!("{} {:?}", s, ids)); }
        out.stat(match ids.iter().filter(|x| **x == s).count() { 0 => "peer-ids-self-absent", 1 => "peer-ids-self-once", _ => "peer-ids-self-repeated" });
        out.distinct(&("peer", s, &ids));
        if c < 2 { out.sample(&format!("peer_ids self={} ids={:?} -> {:?}", s, ids, res)); }
    }
    for _ in 0..n * 2 {
        let k = r.below(13);
        let i = r.below(k + 3);
        let res: Vec<usize> = model_peers(i, k).into_iter().map(usize::from).collect();
        out.m(&format!("model-peers {} {}", i, k), &sx::nums(&res));
        out.o(&format!("o-model-peers {} {} {}", i, k, sx::nums(&res)));
        out.stat(if i < k { "model-peers-member" } else { "model-peers-outsider" });
        out.distinct(&("mpeers", i, k));
    }
    // model_timeout: the documented arbitrary (empty, zero) range
    let mt = model_timeout();
    if mt != (Duration::from_micros(0)..Duration::from_micros(0)) || !mt.is_empty() || mt.start != Duration::ZERO { out.v("model-timeout", &format!("{:?}", mt)); }
    // Out helpers
    let p = GenParams::default();
    for _ in 0..n {
        let cmds: Vec<TCmd> = (0..r.below(6)).map(|_| gen_cmd(r, &p, 3)).collect();
        let want = out_dbg(&cmds);
        // through the recording methods
        let mut a = AOut::<TableActor<TMsg>>::default();
        if !a.is_empty() || format!("{:?}", a) != "[]" { out.v("out-default", &format!("{:?}", a)); }
        for c in &cmds {
            match c {
                TCmd::Send(d, m) => a.send(Id::from(*d), TMsg(*m)),
                TCmd::SetTimer(t) => a.set_timer(TTimer(*t), model_timeout()),
                TCmd::CancelTimer(t) => a.cancel_timer(TTimer(*t)),
                TCmd::ChooseRandom(k, cs) if cs.is_empty() => a.remove_random(key_name(*k)),
                TCmd::ChooseRandom(k, cs) => a.choose_random(key_name(*k), cs.iter().map(|c| TRandom(*c)).collect()),
            }
        }
        // through FromIterator
        let b: AOut<TableActor<TMsg>> = cmds.iter().map(tcmd_to_command).collect();
        if format!("{:?}", a) != want || format!("{:?}", b) != want || a.len() != cmds.len() || b.len() != cmds.len() {
            out.v("out-from-iter", &format!("cmds {} recorded {:?} collected {:?}", cmds_sx(&cmds), a, b));
        }
        // append moves everything, in order, behind what is there; into_iter gives the commands back in order
        let mut c = AOut::<Named<TMsg>>::new();
        c.send(Id::from(9), TMsg(9));
        let mut b = b;
        c.append(&mut b);
        let want2 = format!("[{}]", std::iter::once("Send(Id(9), TMsg(9))".to_string()).chain(cmds.iter().map(cmd_dbg)).collect::<Vec<_>>().join(", "));
        let back: Vec<String> = c.into_iter().map(|x| format!("{:?}", x)).collect();
        if !b.is_empty() || format!("[{}]", back.join(", ")) != want2 { out.v("out-append", &format!("cmds {}", cmds_sx(&cmds))); }
        // broadcast = one send per recipient, in order
        let ids: Vec<Id> = (0..r.below(4)).map(|_| Id::from(r.below(5))).collect();
        let mut d = AOut::<TableActor<TMsg>>::new();
        d.broadcast(&ids, &TMsg(7));
        if format!("{:?}", d) != format!("[{}]", ids.iter().map(|i| format!("Send({:?}, TMsg(7))", i)).collect::<Vec<_>>().join(", ")) { out.v("out-broadcast", &format!("{:?}", ids)); }
        out.stat("out-helpers");
        out.stat_n("out-helper-commands", cmds.len() as u64);
    }
    // Timers::default
    let td: Timers<TTimer> = Timers::default();
    if td != Timers::new() || td.iter().next().is_some() { out.v("timers-default", "Timers::default() is not the empty set"); }
}

// ---------------------------------------------------------------------------------------------------------
// section 5: register harness clients

fn client_sx(awaiting: Option<u64>, op_count: u64, sends: Vec<String>) -> String {
    format!("({} {} ({}))", sx::opt(&awaiting, |x| x.to_string()), op_count, sends.join(" "))
}
fn register_clients(out: &mut Out, r: &mut Rng, n: usize) {
    let t = Arc::new(Table::default());
    for c in 0..n * 3 {
        let p = r.below(4);
        let sc = match r.below(8) { 0 => 0, _ => 1 + r.below(5) };
        let idx = match r.below(10) {
            0..=2 => r.below(sc.max(1)),               // before the servers
            3 => sc + 180 + r.below(90),               // value near / beyond u8
            4 => sc + 256 * (1 + r.below(3)) + r.below(200),
            5 => (1usize << 40) + r.below(1000),
            _ => sc + r.below(6),
        };
        // register
        let res_r = catch_unwind(|| {
            let a: RegisterActor<Named<RM>> = RegisterActor::Client { put_count: p, server_count: sc };
            let mut o = AOut::new();
            let s = a.on_start(Id::from(idx), &mut o);
            let sends: Vec<String> = o.iter().map(|c| match c {
                Command::Send(d, RegisterMsg::Put(q, v)) => format!("({} {} {})", usize::from(*d), q, *v as u32),
                other => format!("unexpected:{:?}", other).replace(' ', "_"),
            }).collect();
            match s {
                RegisterActorState::Client { awaiting, op_count } => client_sx(awaiting, op_count, sends),
                RegisterActorState::Server(_) => "server-state".into(),
            }
        }).unwrap_or_else(|_| "panic".into());
        let res_w = catch_unwind(|| {
            let a: WORegisterActor<Named<WM>> = WORegisterActor::Client { put_count: p, server_count: sc };
            let mut o = AOut::new();
            let s = a.on_start(Id::from(idx), &mut o);
            let sends: Vec<String> = o.iter().map(|c| match c {
                Command::Send(d, WORegisterMsg::Put(q, v)) => format!("({} {} {})", usize::from(*d), q, *v as u32),
                other => format!("unexpected:{:?}", other).replace(' ', "_"),
            }).collect();
            match s {
                WORegisterActorState::Client { awaiting, op_count } => client_sx(awaiting, op_count, sends),
                WORegisterActorState::Server(_) => "server-state".into(),
            }
        }).unwrap_or_else(|_| "panic".into());
        out.m(&format!("client-start r {} {} {}", p, sc, idx), &res_r);
        out.m(&format!("client-start w {} {} {}", p, sc, idx), &res_w);
        out.o(&format!("o-client-start {} {} {} {}", p, sc, idx, res_r));
        out.o(&format!("o-client-start {} {} {} {}", p, sc, idx, res_w));
        out.stat(if res_r == "panic" { if idx < sc { "client-start-panic-before-servers" } else { "client-start-panic-other" } } else if p == 0 { "client-start-idle" } else { "client-start-put" });
        out.distinct(&("client", p, sc, idx));
        if c < 2 { out.sample(&format!("client put_count={} server_count={} index={} -> {}", p, sc, idx, res_r)); }
    }
    // whole models: start-up panics exactly when some client sits before a server
    for _ in 0..n {
        let sc = 1 + r.below(3);
        let total = sc + 1 + r.below(2);
        let mut slots: Vec<bool> = (0..total).map(|i| i < sc).collect(); // true = server
        if r.chance(1, 2) { r.shuffle(&mut slots); }
        let expect_panic = slots.iter().enumerate().any(|(i, s)| !*s && i < sc);
        let actors: Vec<RegisterActor<Named<RM>>> = slots.iter().map(|s| if *s { RegisterActor::Server(Named { inner: TableActor::new(t.clone(), None), name: String::new() }) } else { RegisterActor::Client { put_count: 1, server_count: sc } }).collect();
        let model: ActorModel<RegisterActor<Named<RM>>, (), ()> = ActorModel::new((), ()).actors(actors);
        let res = catch_unwind(AssertUnwindSafe(|| model.init_states()));
        if res.is_err() != expect_panic { out.v("register-model-start", &format!("slots {:?} (true=server), server_count {}: panicked={} expected={}", slots, sc, res.is_err(), expect_panic)); }
        out.stat(if expect_panic { "register-model-start-panics" } else { "register-model-starts" });
        // labels of the diagram: "i Server" (nameless server) / "i Client"
        if let Ok(mut sts) = res {
            let st = sts.remove(0);
            if let Some(svg) = Path::from_actions(&model, st, Vec::new().iter()).and_then(|p| model.as_svg(p)) {
                for (i, s) in slots.iter().enumerate() {
                    if count(&svg, &format!("class='svg-actor-label'>{} {}</text>", i, if *s { "Server" } else { "Client" })) != 1 { out.v("register-svg-label", &format!("actor {} of {:?}", i, slots)); }
                }
                out.stat("register-svg");
            } else { out.v("register-svg", "no svg for the initial path"); }
        }
    }
    // names
    for _ in 0..n {
        let nm = gen_name(r);
        let inner = |name: &str| Named::<RM> { inner: TableActor::new(t.clone(), None), name: name.to_string() };
        let innerw = |name: &str| Named::<WM> { inner: TableActor::new(t.clone(), None), name: name.to_string() };
        let (p, sc) = (r.below(3), r.below(4));
        let checks: Vec<(String, String, &str)> = vec![
            (RegisterActor::<Named<RM>>::Client { put_count: p, server_count: sc }.name(), "Client".into(), "register-client"),
            (RegisterActor::Server(inner(&nm)).name(), if nm.is_empty() { "Server".into() } else { nm.clone() }, "register-server"),
            (WORegisterActor::<Named<WM>>::Client { put_count: p, server_count: sc }.name(), "Client".into(), "wo-client"),
            (WORegisterActor::Server(innerw(&nm)).name(), nm.clone(), "wo-server"),
            (ActorWrapper::with_default_timeout(inner(&nm)).name(), nm.clone(), "orl-wrapper"),
        ];
        for (g, w, k) in checks {
            if g != w { out.v("adapter-name", &format!("{}: {:?} expected {:?}", k, g, w)); }
            out.stat(&format!("name-{}{}", k, if nm.is_empty() { "-nameless" } else { "" }));
        }
    }
    // timeouts and random choices never concern a client; an actor handed a state of the other variant ignores it
    for _ in 0..n * 2 {
        let log = new_log();
        let srv = Named::<RM> { inner: TableActor::new(Arc::new(gen_table(r, &GenParams::default(), 2)), Some(log.clone())), name: String::new() };
        let srvw = Named::<WM> { inner: TableActor::new(srv.inner.table.clone(), Some(log.clone())), name: String::new() };
        let client_actor = r.chance(2, 3);
        let client_state = if client_actor { r.chance(3, 4) } else { true };
        let aw = if r.chance(1, 2) { Some(r.below(9) as u64) } else { None };
        let oc = r.below(4) as u64;
        let (p, sc) = (r.below(3), 1 + r.below(3));
        let id = Id::from(r.below(5));
        let timeout = r.chance(1, 2);
        let (tm, rd) = (TTimer(r.below(3) as u8), TRandom(r.below(3) as u8));
        let what = format!("{} actor, {} state, {}", if client_actor { "client" } else { "server" }, if client_state { "client" } else { "server" }, if timeout { "timeout" } else { "random" });
        {
            let a: RegisterActor<Named<RM>> = if client_actor { RegisterActor::Client { put_count: p, server_count: sc } } else { RegisterActor::Server(srv.clone()) };
            let s: RegisterActorState<TState, u64> = if client_state { RegisterActorState::Client { awaiting: aw, op_count: oc } } else { RegisterActorState::Server(TState(r.below(3) as u8)) };
            let mut cow = Cow::Borrowed(&s);
            let mut o = AOut::new();
            if timeout { a.on_timeout(id, &mut cow, &tm, &mut o) } else { a.on_random(id, &mut cow, &rd, &mut o) }
            if !matches!(cow, Cow::Borrowed(_)) || !o.is_empty() || !take_log(&log).is_empty() { out.v("register-client-arm-not-noop", &what); }
        }
        {
            let a: WORegisterActor<Named<WM>> = if client_actor { WORegisterActor::Client { put_count: p, server_count: sc } } else { WORegisterActor::Server(srvw.clone()) };
            let s: WORegisterActorState<TState, u64> = if client_state { WORegisterActorState::Client { awaiting: aw, op_count: oc } } else { WORegisterActorState::Server(TState(r.below(3) as u8)) };
            let mut cow = Cow::Borrowed(&s);
            let mut o = AOut::new();
            if timeout { a.on_timeout(id, &mut cow, &tm, &mut o) } else { a.on_random(id, &mut cow, &rd, &mut o) }
            if !matches!(cow, Cow::Borrowed(_)) || !o.is_empty() || !take_log(&log).is_empty() { out.v("wo-register-client-arm-not-noop", &what); }
        }
        out.stat(&format!("client-arm: {}", what));
    }
}

// ---------------------------------------------------------------------------------------------------------
// section 6: ordered reliable link, a wrapped actor's own timer

type W = ActorWrapper<TableActor<TMsg>>;
fn nums_in(s: &str) -> Vec<u64> {
    let mut v = Vec::new();
    let mut cur: Option<u64> = None;
    for c in s.chars() {
        if let Some(d) = c.to_digit(10) { cur = Some(cur.unwrap_or(0) * 10 + d as u64); } else if let Some(x) = cur.take() { v.push(x); }
    }
    if let Some(x) = cur { v.push(x); }
    v
}
fn section<'a>(dbg: &'a str, name: &str) -> &'a str {
    let key = format!("{}: {{", name);
    let i = dbg.find(&key).unwrap_or_else(|| panic!("field {} not found in {}", name, dbg)) + key.len();
    let j = dbg[i..].find('}').expect("closing brace") + i;
    &dbg[i..j]
}
/// the link state read from its Debug rendering (the fields are private)
#[derive(Clone, Debug, PartialEq, Eq)]
struct Link {
    next_send: BTreeMap<u64, u64>,
    pending: BTreeMap<(u64, u64), u64>,
    last_delivered: BTreeMap<u64, u64>,
    wrapped: u64,
}
fn link_of<S: std::fmt::Debug>(s: &S) -> Link {
    let d = format!("{:?}", s);
    let ns = nums_in(section(&d, "next_send_seqs"));
    let pa = nums_in(section(&d, "msgs_pending_ack"));
    let ld = nums_in(section(&d, "last_delivered_seqs"));
    let wi = d.find("wrapped_state: ").expect("wrapped_state") + "wrapped_state: ".len();
    let ws = nums_in(&d[wi..]);
    assert!(ns.len() % 2 == 0 && pa.len() % 3 == 0 && ld.len() % 2 == 0 && ws.len() == 1, "unexpected Debug shape: {}", d);
    Link {
        next_send: ns.chunks(2).map(|c| (c[0], c[1])).collect(),
        pending: pa.chunks(3).map(|c| ((c[0], c[1]), c[2])).collect(),
        last_delivered: ld.chunks(2).map(|c| (c[0], c[1])).collect(),
        wrapped: ws[0],
    }
}
fn orl_user_timer(out: &mut Out, r: &mut Rng, n: usize) {
    let mut lost_sampled = false;
    for c in 0..n {
        let n_actors = 2 + r.below(3);
        // a wrapped actor that only sends (the link supports nothing else), with timeout rows of its own
        let p = GenParams { use_timers: false, use_random: false, ghost_dst: false, density: 60, ..GenParams::default() };
        let mut tab = gen_table(r, &p, n_actors);
        let n_states = 1 + tab.msg.keys().map(|k| k.0).chain(std::iter::once(tab.start.0)).max().unwrap_or(0);
        let unsupported = r.chance(1, 10);
        for s in 0..n_states {
            for t in 0..3u8 {
                if r.chance(3, 4) {
                    let ns = if r.chance(3, 5) { Some(r.below(n_states as usize + 1) as u8) } else { None };
                    let k = match r.below(6) { 0 | 1 => 0, 2 | 3 => 1, 4 => 2, _ => 3 };
                    let mut cmds: Vec<TCmd> = (0..k).map(|_| TCmd::Send(r.below(n_actors), r.below(3) as u8)).collect();
                    if unsupported && r.chance(1, 2) { let at = r.below(cmds.len() + 1); cmds.insert(at, if r.chance(1, 2) { TCmd::SetTimer(t) } else { TCmd::CancelTimer(t) }); }
                    tab.timeout.insert((s, t), Row { ns, cmds });
                }
            }
        }
        let tab = Arc::new(tab);
        let log = new_log();
        let w: W = ActorWrapper::with_default_timeout(TableActor::new(tab.clone(), Some(log.clone())));
        let id = Id::from(r.below(n_actors));
        // a link state with history: start-up sends, then some deliveries (in sequence, duplicates, gaps)
        let mut o0 = AOut::<W>::new();
        let mut st = w.on_start(id, &mut o0);
        let mut next_seq: HashMap<usize, u64> = HashMap::new();
        for _ in 0..r.below(5) {
            let src = r.below(n_actors);
            let e = next_seq.entry(src).or_insert(1);
            let seq = match r.below(6) { 0 => e.saturating_sub(1).max(1), 1 => *e + 1, _ => *e };
            if seq == *e { *e += 1; }
            let mut cow = Cow::Borrowed(&st);
            let mut o = AOut::<W>::new();
            if r.chance(1, 6) { w.on_msg(id, &mut cow, Id::from(src), MsgWrapper::Ack(1 + r.below(3) as u64), &mut o); }
            else { w.on_msg(id, &mut cow, Id::from(src), MsgWrapper::Deliver(seq, TMsg(r.below(3) as u8)), &mut o); }
            st = cow.into_owned();
        }
        let before = link_of(&st);
        let t = r.below(3) as u8;
        take_log(&log);
        let mut cow = Cow::Borrowed(&st);
        let mut o = AOut::<W>::new();
        let res = catch_unwind(AssertUnwindSafe(|| w.on_timeout(id, &mut cow, &TimerWrapper::User(TTimer(t)), &mut o)));
        let lg = take_log(&log);
        let ws = before.wrapped as u8;
        let row = tab.timeout.get(&(ws, t));
        let ctx = format!("table {} actor {} link {:?} user timer {}", tab.to_sx(), usize::from(id), before, t);
        // (a) the wrapped handler ran once, with the same id, state and timer, on a borrowed state
        let want_log = vec![Invocation { id: usize::from(id), ev: Ev::Timeout { state: ws, timer: t }, borrowed_in: true }];
        if lg != want_log { out.v("orl-user-timer-not-forwarded", &format!("{}: wrapped calls {:?}", ctx, lg)); }
        let (ns, cmds): (Option<u8>, Vec<TCmd>) = row.map(|r| (r.ns, r.cmds.clone())).unwrap_or((None, vec![]));
        let noop = ns.is_none() && cmds.is_empty();
        let unsupported_cmd = cmds.iter().any(|c| !matches!(c, TCmd::Send(..)));
        if c < 2 { out.sample(&format!("orl user timer: {} -> row {:?}", ctx, row)); }
        if noop {
            out.stat("orl-user-timer-wrapped-noop");
            if res.is_err() || !matches!(cow, Cow::Borrowed(_)) || !o.is_empty() { out.v("orl-user-timer-noop-changed-something", &ctx); }
            continue;
        }
        if unsupported_cmd {
            // the link cannot express a wrapped actor's timers / random choices: documented `todo!()`
            out.stat("orl-user-timer-unsupported-command");
            if res.is_ok() { out.v("orl-user-timer-unsupported-accepted", &ctx); }
            continue;
        }
        if res.is_err() { out.v("orl-user-timer-panic", &ctx); continue; }
        out.stat("orl-user-timer-effective");
        out.stat(&format!("orl-user-timer-sends-{}", cmds.len()));
        out.distinct(&("orl", tab.to_sx(), usize::from(id), format!("{:?}", before), t));
        // (b) the sends go through the link: per-destination sequencers assigned in order, recorded as pending
        let mut want = before.clone();
        let mut want_out = Vec::new();
        for cmd in &cmds {
            if let TCmd::Send(d, m) = cmd {
                let e = want.next_send.entry(*d as u64).or_insert(1);
                let seq = *e;
                *e += 1;
                want.pending.insert((*d as u64, seq), *m as u64);
                want_out.push(format!("Send(Id({}), Deliver({}, TMsg({})))", d, seq, m));
            }
        }
        let after = link_of(&*cow);
        if format!("{:?}", o) != format!("[{}]", want_out.join(", ")) { out.v("orl-user-timer-sends", &format!("{}: out {:?} expected [{}]", ctx, o, want_out.join(", "))); }
        if after.next_send != want.next_send || after.pending != want.pending || after.last_delivered != want.last_delivered {
            out.v("orl-user-timer-link-state", &format!("{}: after {:?} expected {:?}", ctx, after, want));
        }
        if !matches!(cow, Cow::Owned(_)) { out.v("orl-user-timer-state-not-owned", &ctx); }
        // (c) the wrapped actor's state change.  OBSERVATION (DESIGN §11.3), not a violation: the current code drops a
        // `Cow::Owned` wrapped state in this arm (only `process_output` runs; `on_msg` does write it back).  No
        // reachable state owns a User timer while a wrapped `set_timer` is `todo!()`, so no property statement covers
        // it: counted and sampled.  What IS a law: the link wraps the new or (today) the old state, nothing else.
        let want_ws = ns.unwrap_or(ws) as u64;
        if want_ws != ws as u64 { out.stat("orl-user-timer-wrapped-state-changes"); }
        if after.wrapped != want_ws {
            if after.wrapped == ws as u64 {
                out.stat("observation-orl-user-timer-state-change-lost");
                if !lost_sampled {
                    lost_sampled = true;
                    out.sample(&format!("OBSERVATION orl user timer: {}: the wrapped actor's on_timeout set its state to {} (Cow::Owned) but the link state still wraps {}", ctx, want_ws, after.wrapped));
                }
            } else {
                out.v("orl-user-timer-wrapped-state-garbled", &format!("{}: wrapped state {} is neither the old {} nor the new {}", ctx, after.wrapped, ws, want_ws));
            }
        } else if want_ws != ws as u64 {
            out.stat("orl-user-timer-state-change-kept");
        }
    }
}

fn main() {
    quiet_panics();
    let mut out = Out::new();
    out.max_samples = 12;
    let mut r = Rng::new(seed());
    let th = thorough();
    let scale = if th { 10 } else { 1 };

    // 1 + 2: presentation and serialisation on random systems
    let n_sys = arg_u64("--systems", 300 * scale as u64) as usize;
    let p = GenParams::default();
    for i in 0..n_sys {
        let mut rr = r.fork();
        let mut q = p.clone();
        match i % 3 {
            0 => { q.actors = (1, 2); q.density = 35; q.max_cmds = 2; }
            1 => { q.actors = (2, 3); q.max_crashes = (1, 2); }
            _ => { q.density = 60; }
        }
        let mut spec = gen_sys(&mut rr, &q);
        if i % 4 == 1 { spec.lossy = true; }
        present_system(&mut out, &mut rr, &spec, 40, 300, 6, i < 2);
    }
    // 3
    network_names(&mut out, &mut r.fork(), 500 * scale);
    // 4
    glue(&mut out, &mut r.fork(), 300 * scale);
    // 5
    register_clients(&mut out, &mut r.fork(), 300 * scale);
    // 6
    orl_user_timer(&mut out, &mut r.fork(), 1500 * scale);
    out.finish();
}
