//! C06 — an actor-model transition is exactly one atomic handler step of one actor.
//! Implementation side: random `TableActor` systems are walked through the public `Model` trait
//! (`init_states`, `actions`, `next_state`); the whole walk (every enabled action set, `Some`/`None`, every
//! successor state in full) is compared with the Lean model's walk (`graph`), and the declarative step
//! relation is evaluated on the implementation's walk together with the handler-invocation log (`o-graph`).
use srh::out::*;
use srh::rng::Rng;
use srh::table_actor::*;
use stateright::actor::{ActorModelAction, ActorModelState};
use stateright::Model;
use std::panic::{catch_unwind, AssertUnwindSafe};

type Act = ActorModelAction<TMsg, TTimer, TRandom>;

fn sys_stats(out: &mut Out, spec: &SysSpec) {
    out.stat(&format!("net-{}", spec.kind.name()));
    out.stat(if spec.lossy { "lossy-yes" } else { "lossy-no" });
    out.stat(&format!("max-crashes-{}", spec.max_crashes));
    out.stat(&format!("actors-{}", spec.tables.len()));
    out.stat(&format!("history-in-mode-{}", spec.hist.in_mode));
    out.stat(&format!("history-out-mode-{}", spec.hist.out_mode));
}

pub fn run_system(out: &mut Out, r: &mut Rng, spec: &SysSpec, bound: usize, wild: usize, sample: bool) {
    let log = new_log();
    srh::table_actor::BUILDER_ORDER.store((spec.tables.len() + spec.init_envs.len() + spec.max_crashes) as u8 % 3, std::sync::atomic::Ordering::Relaxed);
    let model = spec.model(spec.table_actors::<TMsg>(Some(&log)));
    let sx = spec.to_sx(&[]);
    let g = explore(&model, bound, &tstate_sx, Some(&log));
    out.m(&format!("graph {} {}", sx, bound), &g.to_sx());
    out.o(&format!("o-graph {} {} ({})", sx, g.to_sx_with_log(),
        g.init_log.iter().map(|i| i.to_sx()).collect::<Vec<_>>().join(" ")));
    sys_stats(out, spec);
    out.stat_n("states-expanded", g.records.len() as u64);
    out.stat_n("states-discovered", g.states.len() as u64);
    out.stat_n("transitions", g.transitions() as u64);
    out.stat(if g.closed() { "graph-closed" } else { "graph-cut-by-bound" });
    if g.transitions() > 0 { out.distinct(&sx); }
    if sample { out.sample(&format!("system {} -> {} states discovered, {} transitions", sx, g.states.len(), g.transitions())); }

    // per-transition statistics: which handler results and command kinds were exercised on the walk
    for (i, rec) in g.records.iter().enumerate() {
        for t in rec {
            let kind = ["deliver", "drop", "timeout", "crash", "select-random"][t.action_key[0] as usize];
            match t.res {
                Res::Ignored => out.stat(&format!("{}-ignored", kind)),
                Res::Panic => out.stat(&format!("{}-panic", kind)),
                Res::To(j) => { out.stat(&format!("{}-step", kind)); if j == i { out.stat("self-loop"); } }
            }
            // `next_steps` default implementation must agree with actions + next_state (spot check below)
            if let Some(inv) = t.log.first() {
                let tab = &spec.tables[inv.id];
                let row = match &inv.ev {
                    Ev::Msg { state, src, msg } => tab.msg.get(&(*state, *src, *msg as u8)),
                    Ev::Timeout { state, timer } => tab.timeout.get(&(*state, *timer)),
                    Ev::Random { state, random } => tab.random.get(&(*state, *random)),
                    Ev::Start => None,
                };
                match row {
                    None => out.stat("handler-missing-row"),
                    Some(row) => {
                        out.stat(if row.ns.is_some() { "handler-owned" } else { "handler-borrowed" });
                        out.stat(&format!("handler-cmds-{}", row.cmds.len()));
                        for c in &row.cmds { out.stat(&format!("cmd-{}", c.kind())); }
                        if row.ns.is_none() && row.cmds.is_empty() { out.stat("handler-row-noop"); }
                    }
                }
            }
        }
    }
    // next_steps (the trait's derived method) on the first states: same successors as actions+next_state
    for i in 0..g.records.len().min(3) {
        let steps = model.next_steps(&g.raw[i]);
        let mut a: Vec<(Vec<u64>, String)> = steps.iter().map(|(a, s)| (action_key(a), state_sx(s, &tstate_sx))).collect();
        a.sort();
        let mut b: Vec<(Vec<u64>, String)> = g.records[i].iter()
            .filter_map(|t| if let Res::To(j) = t.res { Some((t.action_key.clone(), g.states[j].clone())) } else { None }).collect();
        b.sort();
        if a != b { out.v("next-steps", &format!("system {} state {}: next_steps disagrees with actions+next_state", sx, g.states[i])); }
        out.stat("next-steps-checked");
    }
    // wild actions: `next_state` on actions that need not be enabled (error branches of the transcription)
    for _ in 0..wild {
        if g.records.is_empty() { break; }
        let i = r.below(g.records.len());
        let n = spec.tables.len() as u64;
        let k: Vec<u64> = match r.below(5) {
            0 => vec![0, r.below(n as usize + 1) as u64, r.below(n as usize + 2) as u64, r.below(3) as u64],
            1 => vec![1, r.below(n as usize + 1) as u64, r.below(n as usize + 2) as u64, r.below(3) as u64],
            2 => vec![2, r.below(n as usize + 1) as u64, r.below(3) as u64],
            3 => vec![3, r.below(n as usize + 1) as u64],
            _ => vec![4, r.below(n as usize + 1) as u64, r.below(2) as u64, r.below(3) as u64],
        };
        let a: Act = mk_action(&k);
        let asx = action_sx(&a);
        let st: &ActorModelState<TableActor<TMsg>, Hist> = &g.raw[i];
        let res = catch_unwind(AssertUnwindSafe(|| model.next_state(st, a)));
        let exp = match res {
            Err(_) => { out.stat("wild-panic"); "panic".to_string() }
            Ok(None) => { out.stat("wild-none"); "none".to_string() }
            Ok(Some(s2)) => { out.stat("wild-some"); format!("(some {})", state_sx(&s2, &tstate_sx)) }
        };
        out.m(&format!("step {} {} {}", sx, g.states[i], asx), &exp);
    }
}

fn main() {
    quiet_panics();
    let mut out = Out::new();
    let mut r = Rng::new(seed());
    let th = thorough();
    let n_sys = arg_u64("--systems", if th { 5000 } else { 450 }) as usize;
    let bound = arg_u64("--bound", if th { 250 } else { 120 }) as usize;
    let p = GenParams::default();
    for i in 0..n_sys {
        let mut rr = r.fork();
        // a third of the systems are small (1-2 actors, few rows) so that many graphs close under the bound
        let mut q = p.clone();
        match i % 3 {
            0 => { q.actors = (1, 2); q.density = 30; q.max_cmds = 2; }
            1 => { q.actors = (2, 3); }
            _ => {}
        }
        let spec = gen_sys(&mut rr, &q);
        run_system(&mut out, &mut rr, &spec, bound, 3, i < 3);
    }
    out.finish();
}
