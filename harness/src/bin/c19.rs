//! C19 — implementation side: Path API (in-process), Explorer over HTTP (child process running the
//! real `serve()`), on-demand checker driven directly (in-process, watchdogs).
use srh::graph_small::{enumerate_small, exp_letter, GenCfg, GraphModel};
use srh::out::*;
use srh::rng::Rng;
use stateright::actor::{Actor, ActorModel, Id, LossyNetwork, Network, Out as AOut};
use stateright::{Checker, Expectation, Model, Path, StateRecorder};
use std::borrow::Cow;
use std::collections::HashMap;
use std::fmt::Debug;
use std::hash::Hash;
use std::io::{BufRead, Read, Write};
use std::net::{SocketAddr, TcpListener, TcpStream};
use std::process::{Child, Command, Stdio};
use std::sync::{Arc, Mutex};
use std::time::{Duration, Instant};

// =============================================================================================
// small actor systems served by the Explorer

#[derive(Clone, Debug, PartialEq, Eq, Hash)]
enum PMsg {
    Ping(u32),
    Pong(u32),
}
#[derive(Clone)]
struct PingPong {
    max: u32,
    timer: bool,
}
impl Actor for PingPong {
    type Msg = PMsg;
    type Timer = u8;
    type State = u32;
    type Random = ();
    fn on_start(&self, id: Id, o: &mut AOut<Self>) -> u32 {
        if usize::from(id) == 0 {
            o.send(Id::from(1), PMsg::Ping(0));
            if self.timer {
                o.set_timer(1, Duration::from_secs(1)..Duration::from_secs(2));
            }
        }
        0
    }
    fn on_msg(&self, _id: Id, state: &mut Cow<u32>, src: Id, msg: PMsg, o: &mut AOut<Self>) {
        match msg {
            PMsg::Ping(n) => {
                *state.to_mut() = n + 1;
                o.send(src, PMsg::Pong(n));
            }
            PMsg::Pong(n) => {
                if n < self.max {
                    *state.to_mut() = n + 1;
                    o.send(src, PMsg::Ping(n + 1));
                }
            }
        }
    }
    fn on_timeout(&self, _id: Id, state: &mut Cow<u32>, _t: &u8, _o: &mut AOut<Self>) {
        *state.to_mut() = 100 + **state;
    }
}
type PPModel = ActorModel<PingPong, (), ()>;

/// `spec` = `max:network:lossy:timer`, e.g. `1:ordered:n:n`
fn actor_model(spec: &str) -> PPModel {
    let p: Vec<&str> = spec.split(':').collect();
    let max: u32 = p[0].parse().unwrap();
    let net = match p[1] {
        "ordered" => Network::new_ordered([]),
        "dup" => Network::new_unordered_duplicating([]),
        _ => Network::new_unordered_nonduplicating([]),
    };
    let lossy = if p[2] == "y" { LossyNetwork::Yes } else { LossyNetwork::No };
    let timer = p[3] == "y";
    ActorModel::new((), ())
        .actor(PingPong { max, timer })
        .actor(PingPong { max, timer })
        .init_network(net)
        .lossy_network(lossy)
        .property(Expectation::Always, "bounded", |_, s| s.actor_states.iter().all(|x| **x % 100 <= 3))
        .property(Expectation::Sometimes, "second ping", |_, s| *s.actor_states[1] % 100 >= 2)
        .property(Expectation::Eventually, "pong seen", |_, s| *s.actor_states[0] % 100 >= 1)
        .property(Expectation::Always, "true", |_, _| true)
        .within_boundary(|_, s| s.actor_states.iter().all(|x| **x < 150))
}

// =============================================================================================
// explicit unfolding of any model (what the Lean side is told)

struct Explicit {
    fps: Vec<u64>,
    texts: Vec<String>,
    init: Vec<usize>,
    edges: Vec<Vec<(usize, Option<usize>)>>,
    labels: Vec<String>,
    bnd: Vec<bool>,
    props: Vec<(Expectation, &'static str, Vec<bool>)>,
    by_fp: HashMap<u64, usize>,
    /// the model overrides format_action / format_step (GraphModel::fmt)
    fmt: bool,
}

fn explicit<M>(m: &M, cap: usize) -> Option<Explicit>
where
    M: Model,
    M::State: Hash + Debug + Clone + PartialEq,
    M::Action: Debug,
{
    let mut states: Vec<M::State> = Vec::new();
    let mut e = Explicit {
        fps: vec![],
        texts: vec![],
        init: vec![],
        edges: vec![],
        labels: vec![],
        bnd: vec![],
        props: vec![],
        by_fp: HashMap::new(),
        fmt: false,
    };
    fn intern<S: Hash + Debug + Clone + PartialEq>(e: &mut Explicit, states: &mut Vec<S>, s: S) -> Option<usize> {
        let fp = stateright::verif::fingerprint(&s);
        if let Some(i) = e.by_fp.get(&fp) {
            if states[*i] != s {
                return None; // a real fingerprint collision: give up on this model
            }
            return Some(*i);
        }
        let i = states.len();
        e.by_fp.insert(fp, i);
        e.fps.push(fp);
        e.texts.push(format!("{:#?}", s));
        states.push(s);
        Some(i)
    }
    for s in m.init_states() {
        let i = intern(&mut e, &mut states, s)?;
        e.init.push(i);
    }
    let mut k = 0;
    while k < states.len() {
        if states.len() > cap {
            return None;
        }
        let s = states[k].clone();
        let mut acts = Vec::new();
        let mut acts2 = Vec::new();
        m.actions(&s, &mut acts);
        m.actions(&s, &mut acts2);
        let mut row = Vec::new();
        for (a, a2) in acts.into_iter().zip(acts2) {
            let text = m.format_action(&a);
            let l = match e.labels.iter().position(|x| *x == text) {
                Some(l) => l,
                None => {
                    e.labels.push(text);
                    e.labels.len() - 1
                }
            };
            let t = match m.next_state(&s, a2) {
                Some(t) => Some(intern(&mut e, &mut states, t)?),
                None => None,
            };
            row.push((l, t));
        }
        e.edges.push(row);
        k += 1;
    }
    e.bnd = states.iter().map(|s| m.within_boundary(s)).collect();
    for p in m.properties() {
        e.props.push((p.expectation.clone(), p.name, states.iter().map(|s| (p.condition)(m, s)).collect()));
    }
    Some(e)
}

/// a `GraphModel` needs no unfolding: state ids are the states, label ids the labels
fn explicit_graph(g: &GraphModel) -> Option<Explicit> {
    let fps = g.fps();
    let mut by_fp = HashMap::new();
    for (i, f) in fps.iter().enumerate() {
        if by_fp.insert(*f, i).is_some() {
            return None;
        }
    }
    Some(Explicit {
        texts: (0..g.n).map(|s| format!("{:#?}", s as u16)).collect(),
        init: g.init.iter().map(|s| *s as usize).collect(),
        edges: g.edges.iter().map(|es| es.iter().map(|(l, t)| (*l as usize, t.map(|t| t as usize))).collect()).collect(),
        labels: (0..16).map(|l| g.format_action(&srh::graph_small::Act(l))).collect(),
        bnd: (0..g.n).map(|s| g.within_boundary(&(s as u16))).collect(),
        props: g.properties().iter().map(|p| (p.expectation.clone(), p.name, (0..g.n).map(|s| (p.condition)(g, &(s as u16))).collect())).collect(),
        fps,
        by_fp,
        fmt: g.fmt,
    })
}

impl Explicit {
    fn lst(v: &[bool]) -> String {
        format!("(l {})", v.iter().enumerate().filter(|(_, b)| **b).map(|(i, _)| i.to_string()).collect::<Vec<_>>().join(" "))
    }
    fn sx(&self) -> String {
        let edges: Vec<String> = self
            .edges
            .iter()
            .map(|es| {
                format!(
                    "({})",
                    es.iter()
                        .map(|(l, t)| match t {
                            Some(t) => format!("({} {})", l, t),
                            None => format!("({} x)", l),
                        })
                        .collect::<Vec<_>>()
                        .join(" ")
                )
            })
            .collect();
        format!(
            "(g {} ({}) ({}) {} ({}))",
            self.fps.len(),
            self.init.iter().map(|s| s.to_string()).collect::<Vec<_>>().join(" "),
            edges.join(" "),
            Self::lst(&self.bnd),
            self.props.iter().map(|(e, _, t)| format!("({} {})", exp_letter(e), Self::lst(t))).collect::<Vec<_>>().join(" ")
        )
    }
    fn fps_sx(&self) -> String {
        format!("({})", self.fps.iter().map(|f| f.to_string()).collect::<Vec<_>>().join(" "))
    }
    /// state sequences of all executions with at most `depth` states (one per distinct state sequence)
    fn paths(&self, depth: usize, cap: usize) -> Vec<Vec<usize>> {
        let mut out = Vec::new();
        let mut stack: Vec<Vec<usize>> = Vec::new();
        let mut seen = Vec::new();
        for s in &self.init {
            if !seen.contains(s) {
                seen.push(*s);
                stack.push(vec![*s]);
            }
        }
        stack.reverse();
        while let Some(p) = stack.pop() {
            if out.len() >= cap {
                break;
            }
            out.push(p.clone());
            if p.len() >= depth {
                continue;
            }
            let mut nexts: Vec<usize> = Vec::new();
            for (_, t) in &self.edges[*p.last().unwrap()] {
                if let Some(t) = t {
                    if !nexts.contains(t) {
                        nexts.push(*t);
                    }
                }
            }
            for t in nexts.into_iter().rev() {
                let mut q = p.clone();
                q.push(t);
                stack.push(q);
            }
        }
        out
    }
    fn url(&self, p: &[usize]) -> String {
        p.iter().map(|s| format!("/{}", self.fps[*s])).collect()
    }
}

fn hex(s: &str) -> String {
    if s.is_empty() {
        "-".into()
    } else {
        s.bytes().map(|b| format!("{:02x}", b)).collect()
    }
}

// =============================================================================================
// HTTP

fn http(port: u16, method: &str, path: &str) -> Result<(u16, Vec<u8>), String> {
    if std::env::var("C19_DEBUG").is_ok() {
        eprintln!("{:?} {} {}", Instant::now(), method, path);
    }
    let addr: SocketAddr = format!("127.0.0.1:{}", port).parse().unwrap();
    let mut s = TcpStream::connect_timeout(&addr, Duration::from_secs(6)).map_err(|e| format!("connect: {}", e))?;
    s.set_read_timeout(Some(Duration::from_secs(20))).ok();
    s.set_write_timeout(Some(Duration::from_secs(4))).ok();
    let req = format!("{} {} HTTP/1.0\r\nHost: localhost\r\nContent-Length: 0\r\nConnection: close\r\n\r\n", method, path);
    s.write_all(req.as_bytes()).map_err(|e| format!("write: {}", e))?;
    let mut buf = Vec::new();
    s.read_to_end(&mut buf).map_err(|e| format!("read: {}", e))?;
    let pos = buf.windows(4).position(|w| w == b"\r\n\r\n").ok_or("no header end")?;
    let head = String::from_utf8_lossy(&buf[..pos]).to_string();
    let mut body = buf[pos + 4..].to_vec();
    let status: u16 = head.split(' ').nth(1).and_then(|x| x.parse().ok()).ok_or("bad status line")?;
    if head.to_ascii_lowercase().contains("transfer-encoding: chunked") {
        let mut out = Vec::new();
        let mut rest = &body[..];
        loop {
            let nl = match rest.windows(2).position(|w| w == b"\r\n") {
                Some(p) => p,
                None => break,
            };
            let n = usize::from_str_radix(String::from_utf8_lossy(&rest[..nl]).trim(), 16).unwrap_or(0);
            if n == 0 {
                break;
            }
            out.extend_from_slice(&rest[nl + 2..nl + 2 + n]);
            rest = &rest[nl + 2 + n + 2..];
        }
        body = out;
    }
    Ok((status, body))
}

struct KillOnDrop(Child);
impl Drop for KillOnDrop {
    fn drop(&mut self) {
        let _ = self.0.kill();
        let _ = self.0.wait();
    }
}

/// ports already handed to a session of this process: never handed out twice (a second child that fails
/// to bind must not be mistaken for the first child's server answering on the same port)
static USED_PORTS: Mutex<Vec<u16>> = Mutex::new(Vec::new());
fn free_tcp_port() -> u16 {
    let mut used = USED_PORTS.lock().unwrap();
    loop {
        let l = TcpListener::bind("127.0.0.1:0").unwrap();
        let p = l.local_addr().unwrap().port();
        if !used.contains(&p) {
            used.push(p);
            return p;
        }
    }
}

/// start `serve()` in a child; returns once the port answers
fn start_server(kind: &str, spec: &str) -> Result<(KillOnDrop, u16), String> {
    let exe = std::env::current_exe().map_err(|e| e.to_string())?;
    let mut last = String::new();
    for _ in 0..3 {
        let port = free_tcp_port();
        let child = Command::new(&exe)
            .args(["--child-serve", &port.to_string(), kind, spec])
            .stdin(Stdio::piped())
            .stdout(Stdio::null())
            .stderr(Stdio::null())
            .spawn()
            .map_err(|e| e.to_string())?;
        let mut child = KillOnDrop(child);
        let t0 = Instant::now();
        while t0.elapsed() < Duration::from_secs(12) {
            if let Ok(Some(st)) = child.0.try_wait() {
                last = format!("server child exited early: {:?}", st);
                break;
            }
            if let Ok((200, _)) = http(port, "GET", "/.status") {
                // the answer must come from OUR child: one that could not bind the port has panicked by now
                std::thread::sleep(Duration::from_millis(25));
                if let Ok(Some(st)) = child.0.try_wait() {
                    last = format!("server child exited early (port taken?): {:?}", st);
                    break;
                }
                return Ok((child, port));
            }
            std::thread::sleep(Duration::from_millis(10));
        }
        if last.is_empty() {
            last = "server did not answer within 4 s".into();
        }
    }
    Err(last)
}

fn child_serve(args: &[String]) -> ! {
    let port: u16 = args[0].parse().unwrap();
    // parent gone (stdin EOF) or 90 s => exit
    std::thread::spawn(|| {
        let stdin = std::io::stdin();
        let mut line = String::new();
        loop {
            line.clear();
            match stdin.lock().read_line(&mut line) {
                Ok(0) | Err(_) => std::process::exit(0),
                Ok(_) => {}
            }
        }
    });
    std::thread::spawn(|| {
        std::thread::sleep(Duration::from_secs(90));
        std::process::exit(3);
    });
    match args[1].as_str() {
        "g" | "gf" => {
            let mut g = GraphModel::parse(&args[2]).expect("graph");
            g.svg = true;
            g.fmt = args[1] == "gf";
            let _ = g.checker().serve(("127.0.0.1", port));
        }
        _ => {
            let _ = actor_model(&args[2]).checker().serve(("127.0.0.1", port));
        }
    }
    std::process::exit(4)
}

// =============================================================================================
// Explorer session for one model

#[derive(Default)]
struct Emit {
    m: Vec<(String, String)>,
    o: Vec<String>,
    v: Vec<(String, String)>,
    stats: Vec<(String, u64)>,
    sample: Option<String>,
    distinct: Vec<String>,
    exec_seen: std::collections::HashSet<String>,
}
impl Emit {
    fn stat(&mut self, k: &str, n: u64) {
        self.stats.push((k.to_string(), n));
    }
}

/// "0,A1,2" (GraphModel::as_svg) -> "(0 l 2)" with interned label ids
fn svg_to_path(e: &Explicit, svg: &str) -> String {
    let items: Vec<String> = svg
        .split(',')
        .map(|x| {
            if x.starts_with('A') {
                // `as_svg` of the GraphModel prints the Debug form of an action (`A<label>`) whatever format_action says
                x[1..].parse::<usize>().ok().filter(|l| *l < e.labels.len()).map(|l| l.to_string()).unwrap_or(format!("?{}", x))
            } else {
                // states of a GraphModel are numbers; their id in the unfolding goes through the text
                e.texts.iter().position(|t| t == x).map(|i| i.to_string()).unwrap_or(format!("?{}", x))
            }
        })
        .collect();
    format!("({})", items.join(" "))
}

/// decode "fp/fp/fp" into state ids
fn decode_path(e: &Explicit, s: &str) -> Option<Vec<usize>> {
    s.split('/').map(|x| x.parse::<u64>().ok().and_then(|fp| e.by_fp.get(&fp).copied())).collect()
}

struct ViewRes {
    model_form: String,  // compared with the model (`view`)
    oracle_form: String, // handed to `o-view`
    props: Vec<serde_json::Value>,
}

fn canon_states_answer(e: &Explicit, status: u16, body: &[u8], with_path: bool, strict_text: bool, em: &mut Emit) -> ViewRes {
    let text = String::from_utf8_lossy(body).to_string();
    if status == 404 {
        let k = if text.starts_with("Unable to parse fingerprints") {
            "404-parse"
        } else if text.starts_with("Unable to find state following fingerprints") {
            "404-nostate"
        } else {
            "404-other"
        };
        return ViewRes { model_form: k.into(), oracle_form: k.into(), props: vec![] };
    }
    if status != 200 {
        return ViewRes { model_form: format!("status-{}", status), oracle_form: format!("status-{}", status), props: vec![] };
    }
    let v: serde_json::Value = match serde_json::from_slice(body) {
        Ok(v) => v,
        Err(_) => return ViewRes { model_form: "bad-json".into(), oracle_form: "bad-json".into(), props: vec![] },
    };
    let mut mrows = Vec::new();
    let mut orows = Vec::new();
    let mut props = Vec::new();
    for row in v.as_array().cloned().unwrap_or_default() {
        let action = row.get("action").and_then(|x| x.as_str());
        let state = row.get("state").and_then(|x| x.as_str());
        let fp = row.get("fingerprint").and_then(|x| x.as_str());
        let svg = row.get("svg").and_then(|x| x.as_str());
        if let Some(p) = row.get("properties") {
            props.push(p.clone());
        } else if !e.props.is_empty() {
            // every row carries the property triples of the model (what the UI shows next to each state)
            em.v.push(("row-without-properties".into(), format!("a /.states row has no `properties` although the model has {} properties: {}", e.props.len(), row)));
        }
        let label = action.map(|a| e.labels.iter().position(|l| l == a).map(|l| l.to_string()).unwrap_or(format!("?{}", a.replace(' ', "_"))));
        match (label, state, fp) {
            (l, Some(st), Some(fp)) => {
                let sid = fp.parse::<u64>().ok().and_then(|f| e.by_fp.get(&f).copied());
                let sid_s = sid.map(|i| i.to_string()).unwrap_or("?".into());
                if let Some(i) = sid {
                    if e.texts[i] != st {
                        if strict_text {
                            em.v.push(("state-text".into(), format!("fingerprint {} shown with state {:?}, expected {:?}", fp, st, e.texts[i])));
                        } else {
                            em.stat("explorer-state-text-differs-in-hash-order", 1);
                        }
                    }
                    if strict_text && e.fmt {
                        // overridden format_step (presentation only): `o<label>` for odd labels, nothing otherwise
                        let want = l.as_ref().and_then(|l| l.parse::<usize>().ok()).filter(|l| l % 2 == 1).map(|l| format!("o{}", l));
                        if row.get("outcome").and_then(|x| x.as_str()).map(|x| x.to_string()) != want {
                            em.v.push(("outcome".into(), format!("outcome {:?}, the model's format_step says {:?}", row.get("outcome"), want)));
                        }
                    } else if strict_text {
                        // default format_step: the outcome is the pretty-printed next state
                        if l.is_some() && row.get("outcome").and_then(|x| x.as_str()) != Some(st) {
                            em.v.push(("outcome".into(), format!("outcome {:?} for next state {:?}", row.get("outcome"), st)));
                        }
                    }
                }
                let head = l.clone().unwrap_or("i".into());
                let path = if with_path { format!(" {}", svg.map(|s| svg_to_path(e, s)).unwrap_or("nosvg".into())) } else { String::new() };
                // the path the Explorer rebuilt from the url's fingerprints (Path::from_fingerprints, shown by as_svg) must be
                // an execution of the model: handed to the oracle (`o-exec`)
                if with_path {
                    if let Some(sv) = svg {
                        let ptxt = svg_to_path(e, sv);
                        if !ptxt.contains('?') && em.exec_seen.insert(ptxt.clone()) { em.o.push(format!("o-exec {} {}", e.sx(), ptxt)); }
                    }
                }
                mrows.push(format!("({} {} {}{})", head, sid_s, fp, path));
                orows.push(format!("({} {})", head, sid_s));
            }
            (Some(l), None, None) => {
                mrows.push(format!("({} x)", l));
                orows.push(format!("({} x)", l));
            }
            _ => {
                mrows.push("(malformed-row)".into());
                orows.push("(malformed-row)".into());
            }
        }
    }
    if !with_path {
        mrows.sort();
        orows.sort();
    }
    ViewRes { model_form: format!("({})", mrows.join(" ")), oracle_form: format!("({})", orows.join(" ")), props }
}

/// properties triple list `[[exp, name, disc|null], ...]` -> (discs as "(i (states))", names ok?)
fn canon_props(e: &Explicit, v: &serde_json::Value, em: &mut Emit, what: &str) -> Vec<(usize, Vec<usize>)> {
    let mut discs = Vec::new();
    let arr = v.as_array().cloned().unwrap_or_default();
    if arr.len() != e.props.len() {
        em.v.push(("property-list".into(), format!("{}: {} triples for {} properties", what, arr.len(), e.props.len())));
        return discs;
    }
    for (i, t) in arr.iter().enumerate() {
        let exp = t.get(0).and_then(|x| x.as_str()).unwrap_or("");
        let name = t.get(1).and_then(|x| x.as_str()).unwrap_or("");
        let want = format!("{:?}", e.props[i].0);
        if exp != want || name != e.props[i].1 {
            em.v.push(("property-triple".into(), format!("{}: triple {} is ({}, {}), model has ({}, {})", what, i, exp, name, want, e.props[i].1)));
        }
        if let Some(d) = t.get(2).and_then(|x| x.as_str()) {
            match decode_path(e, d) {
                Some(p) => discs.push((i, p)),
                None => em.v.push(("discovery-undecodable".into(), format!("{}: property {} discovery {:?} contains an unknown fingerprint", what, name, d))),
            }
        }
    }
    discs
}

fn discs_sx(d: &[(usize, Vec<usize>)]) -> String {
    format!("({})", d.iter().map(|(i, p)| format!("({} ({}))", i, p.iter().map(|s| s.to_string()).collect::<Vec<_>>().join(" "))).collect::<Vec<_>>().join(" "))
}

struct BfsRef {
    unique: usize,
    state_count: usize,
    discovered: Vec<&'static str>,
    exhaustive: bool,
}
fn bfs_reference<M>(m: M) -> BfsRef
where
    M: Model + Send + Sync + 'static,
    M::State: Hash + Send + Sync + 'static,
{
    let n_props = m.properties().len();
    let c = m.checker().spawn_bfs().join();
    let mut discovered: Vec<&'static str> = c.discoveries().keys().copied().collect();
    discovered.sort();
    BfsRef { unique: c.unique_state_count(), state_count: c.state_count(), exhaustive: discovered.len() < n_props, discovered }
}

fn explorer_session(kind: &str, spec: &str, e: &Explicit, bfs: &BfsRef, r: &mut Rng, thorough: bool, extra_http: bool) -> Emit {
    let mut em = Emit::default();
    let gsx = e.sx();
    let fsx = e.fps_sx();
    let is_graph = kind == "g" || kind == "gf";
    let mode = if is_graph { "p" } else { "s" };
    let (child, port) = match start_server(kind, spec) {
        Ok(x) => x,
        Err(err) => {
            em.v.push(("hang".into(), format!("Explorer could not be started for {} {}: {}", kind, spec, err)));
            return em;
        }
    };
    let get = |path: &str| http(port, "GET", path);
    // ---- initial status ---------------------------------------------------------------------
    let init_b: Vec<usize> = e.init.iter().copied().filter(|s| e.bnd[*s]).collect();
    let expect_done0 = e.props.is_empty() || init_b.is_empty();
    let mut st0 = None;
    let t0 = Instant::now();
    while t0.elapsed() < Duration::from_secs(10) {
        match get("/.status") {
            Ok((200, body)) => {
                if let Ok(v) = serde_json::from_slice::<serde_json::Value>(&body) {
                    let done = v.get("done").and_then(|x| x.as_bool()).unwrap_or(false);
                    st0 = Some(v);
                    if done == expect_done0 {
                        break;
                    }
                }
            }
            Ok((s, _)) => {
                em.v.push(("status-endpoint".into(), format!("GET /.status answered {}", s)));
                break;
            }
            Err(err) => {
                em.v.push(("hang".into(), format!("GET /.status: {}", err)));
                return em;
            }
        }
        std::thread::sleep(Duration::from_millis(10));
    }
    if let Some(v) = &st0 {
        let props = v.get("properties").cloned().unwrap_or(serde_json::Value::Null);
        let discs = canon_props(e, &props, &mut em, "initial status");
        let ptxt: Vec<String> = e
            .props
            .iter()
            .enumerate()
            .map(|(i, (ex, _, _))| {
                format!("({} p{} {})", exp_letter(ex), i, if discs.iter().any(|d| d.0 == i) { "some" } else { "none" })
            })
            .collect();
        let got = format!(
            "({} {} {} {} ({}))",
            if v.get("done").and_then(|x| x.as_bool()).unwrap_or(false) { "t" } else { "f" },
            v.get("state_count").and_then(|x| x.as_u64()).unwrap_or(u64::MAX),
            v.get("unique_state_count").and_then(|x| x.as_u64()).unwrap_or(u64::MAX),
            v.get("max_depth").and_then(|x| x.as_u64()).unwrap_or(u64::MAX),
            ptxt.join(" ")
        );
        em.m.push((format!("status0 {} {}", gsx, fsx), got));
        if !v.get("recent_path").map(|x| x.is_null()).unwrap_or(false) {
            em.v.push(("recent-path".into(), format!("recent_path before any evaluation: {:?}", v.get("recent_path"))));
        }
        if is_graph && v.get("model").and_then(|x| x.as_str()) != Some("srh::graph_small::GraphModel") {
            em.v.push(("model-name".into(), format!("{:?}", v.get("model"))));
        }
    }
    // ---- /.states for every valid path up to depth 4 + mutations ----------------------------
    let cap = if thorough { 120 } else { 50 };
    let mut valid = e.paths(4, 4000);
    if valid.len() > cap {
        // keep the short ones, sample the rest
        let mut keep: Vec<Vec<usize>> = valid.iter().filter(|p| p.len() <= 2).cloned().collect();
        let mut rest: Vec<Vec<usize>> = valid.into_iter().filter(|p| p.len() > 2).collect();
        r.shuffle(&mut rest);
        keep.extend(rest.into_iter().take(cap.saturating_sub(keep.len())));
        valid = keep;
        em.stat("explorer-models-with-sampled-paths", 1);
    }
    let mut urls: Vec<(String, Option<Vec<usize>>)> = vec![(String::new(), Some(vec![])), ("/".into(), Some(vec![]))];
    for p in &valid {
        urls.push((e.url(p), Some(p.clone())));
    }
    // mutations
    let n_mut = if thorough { 30 } else { 14 };
    for k in 0..n_mut {
        if valid.is_empty() {
            break;
        }
        let p = r.pick(&valid).clone();
        let mut segs: Vec<String> = p.iter().map(|s| e.fps[*s].to_string()).collect();
        match k % 14 {
            0 => segs[r.below(p.len())] = (r.next() | 1).to_string(),
            1 => {
                let i = r.below(p.len());
                segs[i] = e.fps[r.below(e.fps.len())].to_string();
            }
            2 => {
                segs.remove(0);
            }
            3 => segs[r.below(p.len())] = "abc".into(),
            4 => {
                let i = r.below(p.len());
                segs[i] = format!("{}x", segs[i]);
            }
            5 => segs[r.below(p.len())] = String::new(),
            6 => segs[r.below(p.len())] = "0".into(),
            7 => {
                let i = r.below(p.len());
                segs[i] = format!("+{}", segs[i]);
            }
            8 => {
                let i = r.below(p.len());
                segs[i] = format!("00{}", segs[i]);
            }
            9 => segs[r.below(p.len())] = "18446744073709551616".into(),
            10 => {
                if p.len() >= 2 {
                    let i = r.below(p.len() - 1);
                    segs.swap(i, i + 1);
                } else {
                    segs.push(segs[0].clone());
                }
            }
            11 => segs[r.below(p.len())] = "-5".into(),
            12 => segs.push(e.fps[r.below(e.fps.len())].to_string()),
            _ => segs.reverse(),
        }
        let mut u: String = segs.iter().map(|s| format!("/{}", s)).collect();
        match r.below(6) {
            0 => u.push('/'),
            1 => u.push_str("//"),
            2 if !u.is_empty() => u = u[1..].to_string(), // no leading slash: "/.states123/456"
            _ => {}
        }
        urls.push((u, None));
    }
    urls.push(("xyz".into(), None));
    urls.push(("//".into(), None));
    let mut n404 = 0;
    for (u, known) in &urls {
        let (status, body) = match get(&format!("/.states{}", u)) {
            Ok(x) => x,
            Err(err) => {
                em.v.push(("hang".into(), format!("GET /.states{}: {}", u, err)));
                return em;
            }
        };
        let res = canon_states_answer(e, status, &body, is_graph, is_graph, &mut em);
        em.m.push((format!("view {} {} {} {}", gsx, fsx, hex(u), mode), res.model_form.clone()));
        em.o.push(format!("o-view {} {} {} {} {}", gsx, fsx, hex(u), mode, res.oracle_form));
        if status == 404 {
            n404 += 1;
        }
        // the harness's own walk (valid paths only): rows = actions/next_state at the final state
        if let Some(p) = known {
            let mut want: Vec<String> = if p.is_empty() {
                e.init.iter().map(|s| format!("(i {})", s)).collect()
            } else {
                e.edges[*p.last().unwrap()]
                    .iter()
                    .map(|(l, t)| match t {
                        Some(t) => format!("({} {})", l, t),
                        None => format!("({} x)", l),
                    })
                    .collect()
            };
            if !is_graph {
                want.sort();
            }
            let want = format!("({})", want.join(" "));
            if res.oracle_form != want {
                em.v.push(("states-view".into(), format!("GET /.states{} gave {} but the model's actions/next_state give {}", u, res.oracle_form, want)));
            }
            em.stat(&format!("explorer-valid-path-depth-{}", p.len()), 1);
        }
        // discoveries shown in rows are racy but must be genuine
        for p in &res.props {
            let d = canon_props(e, p, &mut em, "states row");
            if !d.is_empty() {
                em.o.push(format!("o-disc {} {} f ()", gsx, discs_sx(&d)));
                em.stat("explorer-row-discoveries-checked", 1);
            }
        }
        em.distinct.push(format!("{}|{}", gsx, u));
    }
    em.stat("explorer-states-requests", urls.len() as u64);
    em.stat("explorer-404", n404);
    if extra_http {
        for (meth, path, want) in [("GET", "/", 200u16), ("GET", "/app.js", 200), ("GET", "/nope", 404), ("POST", "/.states", 404), ("POST", "/.status", 404)] {
            match http(port, meth, path) {
                Ok((s, _)) if s == want => {}
                other => em.v.push(("http-route".into(), format!("{} {} -> {:?}, expected {}", meth, path, other.map(|x| x.0), want))),
            }
        }
    }
    // ---- run to completion ------------------------------------------------------------------
    match http(port, "POST", "/.runtocompletion") {
        Ok((200, _)) => {}
        other => em.v.push(("runtocompletion".into(), format!("POST /.runtocompletion -> {:?}", other.map(|x| x.0)))),
    }
    let t0 = Instant::now();
    let mut fin = None;
    while t0.elapsed() < Duration::from_secs(20) {
        if let Ok((200, body)) = get("/.status") {
            if let Ok(v) = serde_json::from_slice::<serde_json::Value>(&body) {
                if v.get("done").and_then(|x| x.as_bool()) == Some(true) {
                    fin = Some(v);
                    break;
                }
            }
        }
        std::thread::sleep(Duration::from_millis(10));
    }
    match fin {
        None => em.v.push(("hang".into(), format!("Explorer status not done 8 s after POST /.runtocompletion ({} {})", kind, spec))),
        Some(_) => {
            // a moment later the worker has certainly stopped writing: read the final numbers
            std::thread::sleep(Duration::from_millis(30));
            if let Ok((200, body)) = get("/.status") {
                if let Ok(v) = serde_json::from_slice::<serde_json::Value>(&body) {
                    let props = v.get("properties").cloned().unwrap_or(serde_json::Value::Null);
                    let discs = canon_props(e, &props, &mut em, "final status");
                    let sc = v.get("state_count").and_then(|x| x.as_u64()).unwrap_or(0);
                    let uc = v.get("unique_state_count").and_then(|x| x.as_u64()).unwrap_or(0);
                    let md = v.get("max_depth").and_then(|x| x.as_u64()).unwrap_or(0);
                    let complete = discs.len() < e.props.len();
                    em.o.push(format!("o-disc {} {} {} ({} {})", gsx, discs_sx(&discs), if complete { "t" } else { "f" }, sc, uc));
                    em.stat(if complete { "explorer-final-exhaustive" } else { "explorer-final-all-discovered" }, 1);
                    em.stat("explorer-final-discoveries", discs.len() as u64);
                    if uc > sc || md > uc {
                        em.v.push(("status-counts".into(), format!("unique {} > total {} or depth {} > unique", uc, sc, md)));
                    }
                    // finishes like BFS
                    if complete && bfs.exhaustive {
                        let mut names: Vec<&str> = discs.iter().map(|d| e.props[d.0].1).collect();
                        names.sort();
                        let safety = |ns: &[&str]| -> Vec<String> {
                            ns.iter().filter(|n| e.props.iter().any(|p| p.1 == **n && p.0 != Expectation::Eventually)).map(|n| n.to_string()).collect()
                        };
                        if uc as usize != bfs.unique || sc as usize != bfs.state_count || safety(&names) != safety(&bfs.discovered) {
                            em.v.push((
                                "finishes-like-bfs".into(),
                                format!("on-demand via Explorer: unique={} total={} discoveries={:?}; BFS: unique={} total={} discoveries={:?}", uc, sc, names, bfs.unique, bfs.state_count, bfs.discovered),
                            ));
                        }
                        em.stat("explorer-final-compared-with-bfs", 1);
                    }
                    // recent_path: a valid action list (GraphModel only: the text can be parsed)
                    if let Some(rp) = v.get("recent_path").and_then(|x| x.as_str()) {
                        em.stat("explorer-recent-path-present", 1);
                        if is_graph {
                            let inner = rp.trim_start_matches('[').trim_end_matches(']');
                            let labels: Option<Vec<usize>> = if inner.is_empty() {
                                Some(vec![])
                            } else {
                                inner.split(", ").map(|a| e.labels.iter().position(|l| l == a)).collect()
                            };
                            let ok = match labels {
                                None => false,
                                Some(ls) => e.init.iter().any(|s0| {
                                    let mut s = *s0;
                                    ls.iter().all(|l| match e.edges[s].iter().find(|(l2, _)| l2 == l).and_then(|(_, t)| *t) {
                                        Some(t) => {
                                            s = t;
                                            true
                                        }
                                        None => false,
                                    })
                                }),
                            };
                            if !ok {
                                em.v.push(("recent-path".into(), format!("recent_path {} is not an action list of the model", rp)));
                            }
                        }
                    }
                }
            }
        }
    }
    drop(child);
    em.sample = Some(format!("explorer {} {}: {} states, {} /.states requests ({} answered 404), final status compared", kind, if is_graph { &gsx } else { spec }, e.fps.len(), urls.len(), n404));
    em
}

// =============================================================================================
// Path API, in process

fn path_api_cases(g: &GraphModel, e: &Explicit, r: &mut Rng, out: &mut Out, n: usize) {
    let gsx = e.sx();
    let fsx = e.fps_sx();
    let sid = |s: u16| e.texts.iter().position(|t| *t == s.to_string());
    let lid = |a: &srh::graph_small::Act| e.labels.iter().position(|l| *l == format!("{:?}", a));
    for k in 0..n {
        let wl = r.below(7);
        let walk = g.random_walk(r, wl);
        let s0 = walk[0].0;
        let mut acts: Vec<srh::graph_small::Act> = walk.iter().filter_map(|(_, a)| *a).collect();
        let mut init = s0;
        // error branches: a wrong action somewhere / a start state that is not initial
        let mutate = k % 4;
        if mutate == 1 && !acts.is_empty() {
            let i = r.below(acts.len());
            acts[i] = srh::graph_small::Act(r.below(5) as u8);
        } else if mutate == 2 {
            init = r.below(g.n) as u16;
        } else if mutate == 3 {
            acts.push(srh::graph_small::Act(r.below(4) as u8));
        }
        let res = std::panic::catch_unwind(|| Path::from_actions(g, init, acts.iter()));
        let (i_id, a_ids) = match (sid(init), acts.iter().map(|a| lid(a)).collect::<Option<Vec<usize>>>()) {
            (Some(i), Some(a)) => (i, a),
            // a state/label that does not occur in the unfolding cannot be named on the wire; the
            // implementation must answer None for it (checked here directly)
            _ => {
                if !matches!(res, Ok(None)) {
                    out.v("from-actions-unknown", &format!("{} init {} acts {:?}: expected None", g.sx(), init, acts));
                }
                out.stat("from-actions-unnameable");
                continue;
            }
        };
        let a_sx = srh::sx::nums(a_ids.iter());
        match res {
            Err(_) => {
                out.m(&format!("path-fromacts {} {} {}", gsx, i_id, a_sx), "panic");
                out.stat("from-actions-panic");
            }
            Ok(None) => {
                out.o(&format!("o-fromacts {} {} {} none", gsx, i_id, a_sx));
                out.m(&format!("path-fromacts {} {} {}", gsx, i_id, a_sx), "none");
                out.stat("from-actions-none");
            }
            Ok(Some(p)) => {
                let v = p.clone().into_vec();
                let txt: Vec<String> = v
                    .iter()
                    .flat_map(|(s, a)| {
                        let mut x = vec![sid(*s).map(|i| i.to_string()).unwrap_or("?".into())];
                        if let Some(a) = a {
                            x.push(lid(a).map(|i| i.to_string()).unwrap_or("?".into()));
                        }
                        x
                    })
                    .collect();
                out.m(&format!("path-fromacts {} {} {}", gsx, i_id, a_sx), &format!("({})", txt.join(" ")));
                out.o(&format!("o-fromacts {} {} {} ({})", gsx, i_id, a_sx, txt.join(" ")));
                let states: Vec<String> = p.clone().into_states().iter().map(|s| sid(*s).unwrap().to_string()).collect();
                let actions: Vec<String> = p.clone().into_actions().iter().map(|a| lid(a).unwrap().to_string()).collect();
                let enc = p.encode();
                out.m(
                    &format!("path-encode {} {} {} {}", gsx, fsx, i_id, a_sx),
                    &format!("({} ({}) ({}) {})", enc, states.join(" "), actions.join(" "), sid(*p.last_state()).unwrap()),
                );
                // round trips, directly: encoded form -> final state; vec form == into_states/actions
                if v.iter().map(|x| x.0).collect::<Vec<_>>() != p.clone().into_states() || v.iter().filter_map(|x| x.1).collect::<Vec<_>>() != p.clone().into_actions() {
                    out.v("path-into", &format!("into_vec disagrees with into_states/into_actions for {:?}", v));
                }
                if v.last().map(|x| x.0) != Some(*p.last_state()) {
                    out.v("path-last-state", &format!("{:?}", v));
                }
                // rebuilding from the path's own actions gives the same path
                let again = Path::from_actions(g, v[0].0, p.clone().into_actions().iter());
                if again.as_ref() != Some(&p) {
                    out.v("path-actions-roundtrip", &format!("{:?} rebuilt as {:?}", p, again));
                }
                // the encoded form, decoded by the model's final_state, must be the last state
                let fps_list: Vec<String> = enc.split('/').map(|x| x.to_string()).collect();
                out.m(&format!("path-final {} {} ({})", gsx, fsx, fps_list.join(" ")), &sid(*p.last_state()).unwrap().to_string());
                out.stat(&format!("path-len-{}", v.len().min(8)));
                out.stat("from-actions-some");
                out.distinct(&(20u8, g.sx(), init, acts.iter().map(|a| a.0).collect::<Vec<_>>()));
            }
        }
    }
}

// =============================================================================================
// on-demand checker, driven directly

fn wait_until(limit: Duration, mut f: impl FnMut() -> bool) -> bool {
    let t0 = Instant::now();
    while t0.elapsed() < limit {
        if f() {
            return true;
        }
        std::thread::sleep(Duration::from_millis(2));
    }
    f()
}

fn on_demand_case(g0: &GraphModel, r: &mut Rng, out: &mut Out, threads: usize) {
    // an always-true property keeps the checker listening (see the oracle's precondition)
    let mut g = g0.clone();
    if g.props.len() == 5 {
        g.props.pop();
    }
    g.props.push((Expectation::Always, g.all_mask()));
    let e = match explicit_graph(&g) {
        Some(e) => e,
        None => return,
    };
    let gsx = e.sx();
    let fsx = e.fps_sx();
    let sid = |s: u16| e.texts.iter().position(|t| *t == s.to_string());
    // the visitor is handed reconstruct_path(generated, fp) of every evaluated state
    let vlog: Arc<Mutex<Vec<Vec<(u16, Option<srh::graph_small::Act>)>>>> = Arc::new(Mutex::new(Vec::new()));
    let vlog2 = vlog.clone();
    let vlog3 = vlog.clone();
    let acc = move || -> Vec<u16> { vlog2.lock().unwrap().iter().map(|p| p.last().unwrap().0).collect() };
    let checker = g
        .clone()
        .checker()
        .threads(threads)
        .visitor(move |p: Path<u16, srh::graph_small::Act>| vlog3.lock().unwrap().push(p.into_vec()))
        .spawn_on_demand();
    let nz = |fp: u64| std::num::NonZeroU64::new(fp).unwrap();
    // the harness's own simulation of pending / generated (mirrors the declarative oracle)
    let mut pend: Vec<u16> = g.init_b();
    let mut gen: Vec<u16> = Vec::new();
    for s in &pend {
        if !gen.contains(s) {
            gen.push(*s);
        }
    }
    let mut expect: Vec<u16> = Vec::new();
    let mut reqs: Vec<u64> = Vec::new();
    let order = r.below(5); // 0..2: requests then run; 3: run first; 4: only run
    let n_req = if order >= 3 { r.below(3) } else { r.below(10) };
    let all_fps = g.fps();
    let mut kinds = [0u64; 4];
    if order < 3 && threads == 1 {
        for _ in 0..n_req {
            let fp = match r.below(10) {
                0..=5 if !pend.is_empty() => {
                    kinds[0] += 1;
                    all_fps[*r.pick(&pend) as usize]
                }
                6 if !expect.is_empty() => {
                    kinds[1] += 1;
                    all_fps[*r.pick(&expect) as usize] // already evaluated (may be pending again as a duplicate init)
                }
                7 => {
                    kinds[2] += 1;
                    r.next() | 1 // unknown fingerprint
                }
                _ => {
                    kinds[3] += 1;
                    all_fps[r.below(g.n)] // any state: maybe not generated yet
                }
            };
            reqs.push(fp);
            if let Some(i) = pend.iter().position(|s| all_fps[*s as usize] == fp) {
                let s = pend.remove(i);
                expect.push(s);
                for t in g.succ_b(s) {
                    if !gen.contains(&t) {
                        gen.push(t);
                        pend.push(t);
                    }
                }
            }
            if pend.is_empty() {
                break; // the worker leaves once nothing is pending
            }
        }
        for fp in &reqs {
            checker.check_fingerprint(nz(*fp));
        }
        let ok = wait_until(Duration::from_secs(10), || acc().len() >= expect.len());
        std::thread::sleep(Duration::from_millis(15)); // anything evaluated beyond the requests would show up now
        let seen = acc();
        if !ok {
            out.v("on-demand-targeted", &format!("{} requests {:?}: evaluated {:?}, expected {:?} (3 s)", g.sx(), reqs, seen, expect));
        }
        let seen_ids: Vec<String> = seen.iter().map(|s| sid(*s).map(|i| i.to_string()).unwrap_or("?".into())).collect();
        out.o(&format!("o-ondemand {} {} {} ({})", gsx, fsx, srh::sx::nums(reqs.iter()), seen_ids.join(" ")));
        out.stat_n("on-demand-req-pending", kinds[0]);
        out.stat_n("on-demand-req-already-evaluated", kinds[1]);
        out.stat_n("on-demand-req-unknown-fingerprint", kinds[2]);
        out.stat_n("on-demand-req-arbitrary-state", kinds[3]);
        out.stat(&format!("on-demand-targeted-evaluations-{}", expect.len().min(6)));
        if !pend.is_empty() && checker.is_done() && !expect.is_empty() {
            out.v("on-demand-done-early", &format!("{}: is_done with pending states {:?} before run_to_completion", g.sx(), pend));
        }
    }
    // run to completion (twice / with late requests in some orders)
    checker.run_to_completion();
    if order == 3 {
        for _ in 0..n_req {
            checker.check_fingerprint(nz(all_fps[r.below(g.n)]));
        }
        checker.run_to_completion();
    }
    if !wait_until(Duration::from_secs(15), || checker.is_done()) {
        out.v("hang", &format!("on-demand checker not done 6 s after run_to_completion: {} threads={}", g.sx(), threads));
        std::mem::forget(checker);
        return;
    }
    // is_done may be reported a moment before the worker has finished its block: join with a watchdog
    let (tx, rx) = std::sync::mpsc::channel();
    std::thread::spawn(move || {
        let c = checker.join();
        let mut discs: Vec<(&'static str, Vec<u16>)> = c.discoveries().into_iter().map(|(n, p)| (n, p.into_states())).collect();
        discs.sort();
        let _ = tx.send((c.unique_state_count(), c.state_count(), c.max_depth(), discs));
    });
    let (uc, sc, _md, discs) = match rx.recv_timeout(Duration::from_secs(15)) {
        Ok(x) => x,
        Err(_) => {
            out.v("hang", &format!("join() of an on-demand checker did not return within 6 s: {} threads={}", g.sx(), threads));
            return;
        }
    };
    let visited = acc();
    // every path shown to the visitor = the model's reconstruct_path over the `generated` map that the
    // observed evaluation order implies (single worker: a state's new in-boundary successors point to it)
    if threads == 1 {
        let mut genmap: Vec<(u16, Option<u16>)> = Vec::new();
        for s in g.init_b() {
            if !genmap.iter().any(|e| e.0 == s) {
                genmap.push((s, None));
            }
        }
        let paths = vlog.lock().unwrap().clone();
        for pth in &paths {
            let s = pth.last().unwrap().0;
            for t in g.succ_b(s) {
                if !genmap.iter().any(|e| e.0 == t) {
                    genmap.push((t, Some(s)));
                }
            }
        }
        let gen_sx = format!(
            "({})",
            genmap
                .iter()
                .map(|(k, p)| match p {
                    Some(p) => format!("({} {})", all_fps[*k as usize], all_fps[*p as usize]),
                    None => format!("({} x)", all_fps[*k as usize]),
                })
                .collect::<Vec<_>>()
                .join(" ")
        );
        for pth in paths.iter().rev().take(6) {
            let txt: Vec<String> = pth
                .iter()
                .flat_map(|(s, a)| {
                    let mut x = vec![s.to_string()];
                    if let Some(a) = a {
                        x.push(a.0.to_string());
                    }
                    x
                })
                .collect();
            out.m(&format!("reconstruct {} {} {} {}", gsx, fsx, gen_sx, all_fps[pth.last().unwrap().0 as usize]), &format!("({})", txt.join(" ")));
            out.stat(&format!("reconstruct-path-len-{}", pth.len().min(6)));
        }
    }
    // like BFS
    let (rec2, acc2) = StateRecorder::new_with_accessor();
    let b = g.clone().checker().visitor(rec2).spawn_bfs().join();
    let mut vs: Vec<u16> = visited.clone();
    vs.sort();
    vs.dedup();
    let mut bs: Vec<u16> = acc2();
    bs.sort();
    bs.dedup();
    let mut bd: Vec<&'static str> = b.discoveries().keys().copied().collect();
    bd.sort();
    let safety = |ns: Vec<&'static str>| -> Vec<&'static str> {
        ns.into_iter().filter(|n| g.properties().iter().any(|p| p.name == *n && p.expectation != Expectation::Eventually)).collect()
    };
    let od_names: Vec<&'static str> = discs.iter().map(|d| d.0).collect();
    if vs != bs || uc != b.unique_state_count() || sc != b.state_count() || safety(od_names.clone()) != safety(bd.clone()) {
        out.v(
            "finishes-like-bfs",
            &format!("{} threads={}: on-demand evaluated {:?} unique={} total={} discoveries={:?}; BFS evaluated {:?} unique={} total={} discoveries={:?}", g.sx(), threads, vs, uc, sc, od_names, bs, b.unique_state_count(), b.state_count(), bd),
        );
    }
    let d_ids: Vec<(usize, Vec<usize>)> = discs
        .iter()
        .map(|(n, p)| (g.properties().iter().position(|q| q.name == *n).unwrap(), p.iter().map(|s| sid(*s).unwrap_or(usize::MAX)).collect()))
        .collect();
    out.o(&format!("o-disc {} {} t ({} {})", gsx, discs_sx(&d_ids), sc, uc));
    out.stat(&format!("on-demand-order-{}", order));
    out.stat(&format!("on-demand-threads-{}", threads));
    out.stat_n("on-demand-states-evaluated", visited.len() as u64);
    out.distinct(&(21u8, g.sx(), reqs.clone(), order, threads));
}

/// the exhaustive small scope S(2) (2 states, out-degree <= 2, all boundaries, all init sets: 2 028 models),
/// every `stride`-th model starting at `offset`, with three fixed properties
fn small_scope(stride: u64, offset: u64) -> Vec<GraphModel> {
    let props = [(Expectation::Always, 0b01u32), (Expectation::Sometimes, 0b10), (Expectation::Eventually, 0b10)];
    let mut v = Vec::new();
    enumerate_small(2, 2, &props, |i, g| {
        if i % stride == offset % stride {
            v.push(g.clone());
        }
        true
    });
    v
}

// =============================================================================================

fn main() {
    let args: Vec<String> = std::env::args().collect();
    if args.len() > 1 && args[1] == "--child-serve" {
        child_serve(&args[2..]);
    }
    if std::env::var("C19_DEBUG").is_err() {
        quiet_panics();
    }
    let mut out = Out::new();
    out.max_samples = 8;
    let thorough = thorough();
    let mut rng = Rng::new(seed());
    let only = arg_str("--only");
    let cfg = GenCfg { max_states: 8, ..GenCfg::default() };

    // debugging aid: one Explorer session for a given GraphModel
    if let Some(gs) = arg_str("--one") {
        let g = GraphModel::parse(&gs).expect("graph");
        let e = explicit_graph(&g).unwrap();
        let bfs = bfs_reference(g.clone());
        let em = explorer_session("g", &g.sx(), &e, &bfs, &mut rng, thorough, true);
        for (k, t) in &em.v {
            eprintln!("V {} {}", k, t);
        }
        eprintln!("m={} o={}", em.m.len(), em.o.len());
        std::process::exit(0);
    }
    // ---- Path API ------------------------------------------------------------------------------
    if only.is_none() || only.as_deref() == Some("path") {
        let n_models = if thorough { 1500 } else { 150 };
        for _ in 0..n_models {
            let g = GraphModel::random(&mut rng, &cfg);
            if let Some(e) = explicit_graph(&g) {
                path_api_cases(&g, &e, &mut rng, &mut out, 8);
            }
        }
        for g in small_scope(if thorough { 1 } else { 2 }, seed()) {
            if let Some(e) = explicit_graph(&g) {
                path_api_cases(&g, &e, &mut rng, &mut out, 4);
                out.stat("path-small-scope-models");
            }
        }
        out.sample("path api: random executions of random GraphModels through from_actions / encode / into_* / last_state, plus broken action lists and non-initial start states");
    }

    // ---- on-demand directly ----------------------------------------------------------------------
    if only.is_none() || only.as_deref() == Some("ondemand") {
        let n_models = if thorough { 1500 } else { 150 };
        for k in 0..n_models {
            let g = GraphModel::random(&mut rng, &cfg);
            let threads = if k % 10 == 9 { 2 } else { 1 };
            on_demand_case(&g, &mut rng, &mut out, threads);
        }
        for g in small_scope(if thorough { 2 } else { 16 }, seed()) {
            on_demand_case(&g, &mut rng, &mut out, 1);
            out.stat("on-demand-small-scope-models");
        }
        out.sample("on-demand: spawn_on_demand + seeded check_fingerprint / run_to_completion orders, visitor log vs declarative pending set, final result vs spawn_bfs");
    }

    // ---- Explorer over HTTP ------------------------------------------------------------------------
    if only.is_none() || only.as_deref() == Some("explorer") {
        let n_graphs = arg_u64("--models", if thorough { 1000 } else { 60 }) as usize;
        let actor_specs: Vec<String> = {
            let mut v = Vec::new();
            for max in [1, 2] {
                for net in ["ordered", "nondup", "dup"] {
                    for lossy in ["n", "y"] {
                        for timer in ["n", "y"] {
                            v.push(format!("{}:{}:{}:{}", max, net, lossy, timer));
                        }
                    }
                }
            }
            let mut r2 = rng.fork();
            r2.shuffle(&mut v);
            v.truncate(if thorough { 24 } else { 4 });
            v
        };
        // work list
        enum Job {
            G(GraphModel),
            A(String),
        }
        let mut jobs: Vec<(Job, Rng)> = Vec::new();
        let n_small = n_graphs * 3 / 10;
        let mut small = small_scope(1, 0);
        rng.shuffle(&mut small);
        for (k, mut g) in small.into_iter().take(n_small).enumerate() {
            g.fmt = k % 3 == 1; // every third model overrides the presentation hooks (format_action / format_step)
            jobs.push((Job::G(g), rng.fork()));
        }
        for k in 0..(n_graphs - n_small) {
            let mut g = GraphModel::random(&mut rng, &cfg);
            g.fmt = k % 3 == 1;
            jobs.push((Job::G(g), rng.fork()));
        }
        for s in actor_specs {
            jobs.push((Job::A(s), rng.fork()));
        }
        let n_jobs = jobs.len();
        let jobs = Arc::new(Mutex::new(jobs.into_iter().enumerate().collect::<Vec<_>>()));
        let results: Arc<Mutex<Vec<(usize, Emit)>>> = Arc::new(Mutex::new(Vec::new()));
        let par = if thorough { 12 } else { 8 };
        for _ in 0..par {
            let jobs = jobs.clone();
            let results = results.clone();
            std::thread::spawn(move || loop {
                let job = jobs.lock().unwrap().pop();
                let (idx, (job, mut r)) = match job {
                    Some(j) => j,
                    None => break,
                };
                if std::env::var("C19_DEBUG").is_ok() {
                    eprintln!("job {} start: {}", idx, match &job { Job::G(g) => g.sx(), Job::A(s) => s.clone() });
                }
                let em = std::panic::catch_unwind(std::panic::AssertUnwindSafe(|| match job {
                    Job::G(g) => match explicit_graph(&g) {
                        Some(e) => {
                            let bfs = bfs_reference(g.clone());
                            if e.fmt {
                                let mut em = explorer_session("gf", &g.sx(), &e, &bfs, &mut r, thorough, idx % 16 == 0);
                                em.stat("explorer-sessions-with-overridden-format-hooks", 1);
                                em
                            } else {
                                explorer_session("g", &g.sx(), &e, &bfs, &mut r, thorough, idx % 16 == 0)
                            }
                        }
                        None => Emit::default(),
                    },
                    Job::A(spec) => {
                        let m = actor_model(&spec);
                        match explicit(&m, 3000) {
                            Some(e) => {
                                let bfs = bfs_reference(actor_model(&spec));
                                let mut em = explorer_session("a", &spec, &e, &bfs, &mut r, thorough, false);
                                em.stat("explorer-actor-systems", 1);
                                em.stat("explorer-actor-system-states", e.fps.len() as u64);
                                em
                            }
                            None => {
                                let mut em = Emit::default();
                                em.stat("explorer-actor-system-too-big", 1);
                                em
                            }
                        }
                    }
                }))
                .unwrap_or_else(|_| {
                    let mut em = Emit::default();
                    em.v.push(("harness-panic".into(), format!("Explorer session {} panicked inside the harness", idx)));
                    em
                });
                if std::env::var("C19_DEBUG").is_ok() {
                    eprintln!("job {} end", idx);
                }
                results.lock().unwrap().push((idx, em));
            });
        }
        let t0 = Instant::now();
        let limit = Duration::from_secs(if thorough { 420 } else { 90 });
        loop {
            if results.lock().unwrap().len() >= n_jobs {
                break;
            }
            if t0.elapsed() > limit {
                out.v("hang", &format!("Explorer sessions did not finish within {:?} ({} of {} done)", limit, results.lock().unwrap().len(), n_jobs));
                break;
            }
            std::thread::sleep(Duration::from_millis(20));
        }
        let mut res = std::mem::take(&mut *results.lock().unwrap());
        res.sort_by_key(|x| x.0);
        for (_, em) in res {
            for (q, a) in &em.m {
                out.m(q, a);
            }
            for q in &em.o {
                out.o(q);
            }
            for (k, t) in &em.v {
                out.v(k, t);
            }
            for (k, n) in &em.stats {
                out.stat_n(k, *n);
            }
            if let Some(s) = &em.sample {
                out.sample(s);
            }
            for d in &em.distinct {
                out.distinct(&(22u8, d));
            }
            out.stat("explorer-sessions");
        }
    }
    out.finish();
    std::process::exit(0);
}
