//! Checker group (C01, C02, C03, C11, C13 and the single-threaded part of C12): runs the real
//! bfs / dfs / on-demand checkers with one thread on explicit `GraphModel`s, records everything
//! observable (visitor paths in order, counts, discoveries) and emits
//!   M  chk ...      exact correspondence with the machine scheduler of lean/SR/Checker/Sched.lean
//!   O  o-chk ...    the declarative oracles of the selected property on the implementation's outputs
use srh::gm::*;
use srh::out::*;
use srh::rng::Rng;
use stateright::{Checker, HasDiscoveries, Model};
use std::collections::BTreeMap;
use std::panic::{catch_unwind, AssertUnwindSafe};
use std::sync::{Arc, Mutex};

#[derive(Clone, Debug)]
pub struct Cfg {
    pub max_depth: Option<usize>,
    pub target: Option<usize>,
    pub finish: String, // all | any | anyf | allf | (allof i..) | (anyof i..)
}
impl Cfg {
    fn plain() -> Self { Cfg { max_depth: None, target: None, finish: "all".into() } }
    fn sx(&self) -> String {
        format!("(cfg {} {} {})",
            self.max_depth.map(|d| d.to_string()).unwrap_or("none".into()),
            self.target.map(|d| d.to_string()).unwrap_or("none".into()),
            self.finish)
    }
    fn has_disc(&self) -> HasDiscoveries {
        let names = |s: &str| -> std::collections::BTreeSet<&'static str> {
            s.trim_matches(|c| c == '(' || c == ')').split(' ').skip(1).filter_map(|x| x.parse::<usize>().ok()).map(|i| if i < NAMES.len() { NAMES[i] } else { "foreign" }).collect()
        };
        match self.finish.as_str() {
            "all" => HasDiscoveries::All,
            "any" => HasDiscoveries::Any,
            "anyf" => HasDiscoveries::AnyFailures,
            "allf" => HasDiscoveries::AllFailures,
            s if s.starts_with("(allof") => HasDiscoveries::AllOf(names(s)),
            s => HasDiscoveries::AnyOf(names(s)),
        }
    }
}

static BAD_VISIT_STEPS: std::sync::atomic::AtomicU64 = std::sync::atomic::AtomicU64::new(0);
static BAD_DISC_STEPS: std::sync::atomic::AtomicU64 = std::sync::atomic::AtomicU64::new(0);
static BAD_STEP_SAMPLE: Mutex<Option<String>> = Mutex::new(None);

/// the states of a `Path`; every step `(s, action)` -> `s'` of it must be a transition of the model with THAT action
/// (a path whose states are right but whose action labels are not is not a path of the model)
fn path_states(g: &GraphModel, p: stateright::Path<u16, u16>, counter: &std::sync::atomic::AtomicU64) -> Vec<u16> {
    let v = p.into_vec();
    for w in v.windows(2) {
        let ok = match w[0].1 {
            Some(a) => g.adj[w[0].0 as usize].get(a as usize).copied().flatten() == Some(w[1].0),
            None => false,
        };
        if !ok {
            counter.fetch_add(1, std::sync::atomic::Ordering::Relaxed);
            let mut sm = BAD_STEP_SAMPLE.lock().unwrap();
            if sm.is_none() { *sm = Some(format!("step {} --{:?}--> {} in path {:?}", w[0].0, w[0].1, w[1].0, v)); }
        }
    }
    if let Some(last) = v.last() {
        if last.1.is_some() { counter.fetch_add(1, std::sync::atomic::Ordering::Relaxed); }
    }
    v.into_iter().map(|x| x.0).collect()
}

fn path_sx(p: &[u16]) -> String { format!("({})", p.iter().map(|x| x.to_string()).collect::<Vec<_>>().join(" ")) }

/// run the real checker; returns the canonical observation string or "panic"
fn observe(g: &GraphModel, strat: &str, cfg: &Cfg) -> String {
    let visits: Arc<Mutex<Vec<Vec<u16>>>> = Arc::new(Mutex::new(vec![]));
    let v2 = visits.clone();
    let g2 = g.clone();
    let g3 = g.clone();
    let strat = strat.to_string();
    let cfg = cfg.clone();
    let r = catch_unwind(AssertUnwindSafe(move || {
        let mut b = g2.clone().checker().threads(1).finish_when(cfg.has_disc())
            .visitor(move |p: stateright::Path<u16, u16>| { v2.lock().unwrap().push(path_states(&g3, p, &BAD_VISIT_STEPS)); });
        if let Some(d) = cfg.max_depth { b = b.target_max_depth(d); }
        if let Some(t) = cfg.target { b = b.target_state_count(t); }
        match strat.as_str() {
            "bfs" => { let c = b.spawn_bfs().join(); (summarize(&c), verdict(&c)) }
            "dfs" => { let c = b.spawn_dfs().join(); (summarize(&c), verdict(&c)) }
            _ => { let c = b.spawn_on_demand(); c.run_to_completion(); let c = c.join(); (summarize(&c), verdict(&c)) }
        }
    }));
    match r {
        Err(_) => "panic".into(),
        Ok(((uniq, count, depth, disc), (done, assert_ok))) => {
            let vs = visits.lock().unwrap();
            format!("(visits {}) (uniq {}) (count {}) (depth {}) (disc {}) (done {}) (assert {})",
                format!("({})", vs.iter().map(|p| path_sx(p)).collect::<Vec<_>>().join(" ")),
                uniq, count, depth,
                format!("({})", disc.iter().map(|(i, p)| format!("({} {})", i, path_sx(p))).collect::<Vec<_>>().join(" ")),
                if done { "t" } else { "f" }, if assert_ok { "ok" } else { "panic" })
        }
    }
}
/// `is_done()` and whether `assert_properties()` returns (true) or panics (false)
fn verdict<C: Checker<GraphModel>>(c: &C) -> (bool, bool) {
    let done = c.is_done();
    let ok = catch_unwind(AssertUnwindSafe(|| c.assert_properties())).is_ok();
    (done, ok)
}

/// A scripted chooser: the k-th question (over all traces of the run) is answered with `script[k] % options`
/// (0 once the script is exhausted). The Lean model consumes the same answer list.
#[derive(Clone)]
struct ScriptChooser { script: Arc<Vec<usize>>, pos: Arc<std::sync::atomic::AtomicUsize> }
impl ScriptChooser {
    fn answer(&self, n: usize) -> usize {
        let k = self.pos.fetch_add(1, std::sync::atomic::Ordering::SeqCst);
        if k < self.script.len() { self.script[k] % n } else { 0 }
    }
}
impl stateright::Chooser<GraphModel> for ScriptChooser {
    type State = ();
    fn new_state(&self, _seed: u64) {}
    fn choose_initial_state(&self, _: &mut (), initial_states: &[u16]) -> usize { self.answer(initial_states.len()) }
    fn choose_action(&self, _: &mut (), _cur: &u16, actions: &[u16]) -> usize { self.answer(actions.len()) }
}

/// run the real simulation checker with a scripted chooser (1 thread)
fn observe_sim(g: &GraphModel, cfg: &Cfg, script: &[usize]) -> String {
    let visits: Arc<Mutex<Vec<Vec<u16>>>> = Arc::new(Mutex::new(vec![]));
    let v2 = visits.clone();
    let g2 = g.clone();
    let g3 = g.clone();
    let cfg = cfg.clone();
    let chooser = ScriptChooser { script: Arc::new(script.to_vec()), pos: Arc::new(std::sync::atomic::AtomicUsize::new(0)) };
    let r = catch_unwind(AssertUnwindSafe(move || {
        let mut b = g2.clone().checker().threads(1).finish_when(cfg.has_disc())
            .visitor(move |p: stateright::Path<u16, u16>| { v2.lock().unwrap().push(path_states(&g3, p, &BAD_VISIT_STEPS)); });
        if let Some(d) = cfg.max_depth { b = b.target_max_depth(d); }
        if let Some(t) = cfg.target { b = b.target_state_count(t); }
        let c = b.spawn_simulation(0, chooser).join();
        summarize(&c)
    }));
    match r {
        Err(_) => "panic".into(),
        Ok((uniq, count, depth, disc)) => {
            let vs = visits.lock().unwrap();
            format!("(visits {}) (uniq {}) (count {}) (depth {}) (disc {})",
                format!("({})", vs.iter().map(|p| path_sx(p)).collect::<Vec<_>>().join(" ")),
                uniq, count, depth,
                format!("({})", disc.iter().map(|(i, p)| format!("({} {})", i, path_sx(p))).collect::<Vec<_>>().join(" ")))
        }
    }
}

fn summarize<C: Checker<GraphModel>>(c: &C) -> (usize, usize, usize, BTreeMap<usize, Vec<u16>>) {
    let mut disc = BTreeMap::new();
    for (name, path) in c.discoveries() {
        let i = NAMES.iter().position(|n| *n == name).unwrap();
        disc.insert(i, path_states(c.model(), path, &BAD_DISC_STEPS));
    }
    (c.unique_state_count(), c.state_count(), c.max_depth(), disc)
}

fn case(out: &mut Out, g: &GraphModel, strat: &str, cfg: &Cfg, prop: &str, exact: bool) {
    let obs = observe(g, strat, cfg);
    let (gs, ps, cs) = (g.graph_sx(), g.props_sx(), cfg.sx());
    if exact {
        out.m(&format!("chk {} {} {} {}", strat, gs, ps, cs), &obs);
    }
    out.o(&format!("o-chk {} {} {} {} {} ({})", prop, strat, gs, ps, cs, obs));
    out.stat(&format!("strategy-{}", strat));
    if obs == "panic" { out.stat("impl-panic"); }
}

/// CONTENTION family (C01 / C05): layered meshes in which every state of a layer is generated by four parents at about the
/// same time, checked with many threads: a state must be evaluated exactly once and the evaluated set must be the
/// reachable set even when several workers generate the same new state simultaneously (insert-if-absent must be ONE
/// atomic step) or find a shard of the shared map momentarily locked. The visitor only bumps per-state atomic counters,
/// so it does not serialise the workers. Harness-side oracle (V lines).
fn contention(out: &mut Out, r: &mut Rng, th: bool) {
    use std::sync::atomic::{AtomicU32, Ordering};
    let reps = if th { 12 } else { 3 };
    for rep in 0..reps {
        for strat in ["bfs", "dfs", "ondemand"] {
            let w = 256 + 64 * r.below(5);
            let layers = 60 + r.below(60);
            let n = (w * layers).min(65000);
            let layers = n / w;
            let n = w * layers;
            let mut adj: Vec<Vec<Option<u16>>> = vec![vec![]; n];
            let (m1, m2) = (1 + r.below(7), 3 + 2 * r.below(5));
            for l in 0..layers - 1 {
                for i in 0..w {
                    let s = l * w + i;
                    let base = (l + 1) * w;
                    for t in [i, (i + 1) % w, (i + m1) % w, (i * m2 + 1) % w] {
                        adj[s].push(Some((base + t) as u16));
                    }
                    if r.chance(1, 10) { adj[s].push(None); }
                }
            }
            let bnd: Vec<bool> = (0..n).map(|_| !r.chance(1, 60)).collect();
            let init: Vec<u16> = (0..8).map(|k| (k * (w / 8)) as u16).collect();
            let g = GraphModel { n, init, adj, bnd, props: vec![GProp { exp: 'a', tbl: vec![true; n] }], panic_at: None };
            let reach = g.reach();
            let threads = *r.pick(&[8usize, 12, 16]);
            let counts: Arc<Vec<AtomicU32>> = Arc::new((0..n).map(|_| AtomicU32::new(0)).collect());
            let c2 = counts.clone();
            let g2 = g.clone();
            if rep % 2 == 1 { stateright::verif::set_perturbation(r.next() | 1); }
            let res = catch_unwind(AssertUnwindSafe(move || {
                let b = g2.clone().checker().threads(threads).visitor(move |p: stateright::Path<u16, u16>| {
                    c2[*p.last_state() as usize].fetch_add(1, Ordering::Relaxed);
                });
                match strat {
                    "bfs" => { let c = b.spawn_bfs().join(); (c.unique_state_count(), c.state_count()) }
                    "dfs" => { let c = b.spawn_dfs().join(); (c.unique_state_count(), c.state_count()) }
                    _ => { let c = b.spawn_on_demand(); c.run_to_completion(); let c = c.join(); (c.unique_state_count(), c.state_count()) }
                }
            }));
            stateright::verif::set_perturbation(0);
            let desc = format!("contention mesh w={} layers={} reach={} threads={} strategy={} seed={} rep={}", w, layers, reach.len(), threads, strat, seed(), rep);
            match res {
                Err(_) => out.v("contention-panic", &desc),
                Ok((uniq, count)) => {
                    let twice = (0..n).filter(|s| counts[*s].load(Ordering::Relaxed) > 1).count();
                    let evaluated: Vec<u16> = (0..n).filter(|s| counts[*s].load(Ordering::Relaxed) > 0).map(|s| s as u16).collect();
                    if twice > 0 { out.v("contention-state-evaluated-twice", &format!("{} states-evaluated-more-than-once={}", desc, twice)); }
                    if evaluated != reach { out.v("contention-evaluated-set-not-reachable-set", &format!("{} evaluated={}", desc, evaluated.len())); }
                    if uniq != reach.len() { out.v("contention-unique-count", &format!("{} uniq={}", desc, uniq)); }
                    if count < uniq { out.v("contention-state-count-below-unique", &desc); }
                    out.stat("contention-runs");
                    out.stat(&format!("contention-{}-threads-{}", strat, threads));
                    out.stat_n("contention-states-evaluated", evaluated.len() as u64);
                    out.distinct(&(w, layers, m1, m2, threads, strat, rep));
                    if rep == 0 { out.sample(&desc); }
                }
            }
        }
    }
}

/// The provided helpers of the `Checker` trait (src/checker.rs) after a single-threaded run: per property
/// `discovery_classification`, `assert_any_discovery`, `assert_no_discovery`, `assert_discovery` with the discovery's
/// own action list and with a generated action list (a mutation of the own list, the actions of a random walk from an
/// initial state, or arbitrary indices), and `assert_properties`. Compared with the model (`helpers` command).
fn helpers_case(out: &mut Out, g: &GraphModel, strat: &str, cfg: &Cfg, r: &mut Rng) {
    let g2 = g.clone();
    let st = strat.to_string();
    let cfg2 = cfg.clone();
    let np = g.props.len();
    // the discoveries first (to derive action lists from them), inside one catch_unwind with everything else
    let given_seed = r.next();
    let res = catch_unwind(AssertUnwindSafe(move || {
        let mut rr = Rng::new(given_seed);
        let mut b = g2.clone().checker().threads(1).finish_when(cfg2.has_disc());
        if let Some(d) = cfg2.max_depth { b = b.target_max_depth(d); }
        if let Some(t) = cfg2.target { b = b.target_state_count(t); }
        fn rows<C: Checker<GraphModel>>(c: &C, np: usize, rr: &mut Rng) -> (Vec<String>, Vec<Vec<u16>>, bool) {
            let g = c.model().clone();
            let mut rows = vec![];
            let mut givens = vec![];
            for i in 0..np {
                let name = NAMES[i];
                let cls = match catch_unwind(AssertUnwindSafe(|| format!("{}", c.discovery_classification(name)))) {
                    Ok(t) => t, Err(_) => "panic".into(),
                };
                let any = catch_unwind(AssertUnwindSafe(|| { c.assert_any_discovery(name); })).is_ok();
                let no = catch_unwind(AssertUnwindSafe(|| c.assert_no_discovery(name))).is_ok();
                let own_acts: Option<Vec<u16>> = c.discovery(name).map(|p| p.into_actions());
                let own = match &own_acts {
                    Some(a) => { let a = a.clone(); if catch_unwind(AssertUnwindSafe(|| c.assert_discovery(name, a))).is_ok() { "ok" } else { "panic" } }
                    None => "none",
                };
                // a generated action list
                let given: Vec<u16> = match (rr.below(4), &own_acts) {
                    (0, Some(a)) if !a.is_empty() => { let mut a = a.clone(); a.pop(); a }
                    (1, Some(a)) => { let mut a = a.clone(); a.push(rr.below(3) as u16); a }
                    (2, _) | (0, _) | (1, _) => {
                        // the actions of a random walk from an initial state (ignored actions may be picked: then None)
                        let mut acts = vec![];
                        if !g.init.is_empty() {
                            let mut s = g.init[rr.below(g.init.len())];
                            for _ in 0..rr.below(5) {
                                let row = &g.adj[s as usize];
                                if row.is_empty() { break; }
                                let a = rr.below(row.len());
                                acts.push(a as u16);
                                match row[a] { Some(t) => s = t, None => break }
                            }
                        }
                        acts
                    }
                    _ => (0..rr.below(4)).map(|_| rr.below(3) as u16).collect(),
                };
                let gv = { let a = given.clone(); catch_unwind(AssertUnwindSafe(|| c.assert_discovery(name, a))).is_ok() };
                let b = |x: bool| if x { "ok" } else { "panic" };
                rows.push(format!("({} {} {} {} {} {})", i, cls, b(any), b(no), own, b(gv)));
                givens.push(given);
            }
            let ap = catch_unwind(AssertUnwindSafe(|| c.assert_properties())).is_ok();
            (rows, givens, ap)
        }
        match st.as_str() {
            "bfs" => { let c = b.spawn_bfs().join(); rows(&c, np, &mut rr) }
            "dfs" => { let c = b.spawn_dfs().join(); rows(&c, np, &mut rr) }
            // an on-demand checker that is never told to do anything: the helpers on an UNFINISHED check
            "fresh" => { let c = b.spawn_on_demand(); std::thread::sleep(std::time::Duration::from_millis(2)); rows(&c, np, &mut rr) }
            _ => { let c = b.spawn_on_demand(); c.run_to_completion(); let c = c.join(); rows(&c, np, &mut rr) }
        }
    }));
    if let Ok((rows, givens, ap)) = res {
        let gsx = format!("({})", givens.iter().map(|a| format!("({})", a.iter().map(|x| x.to_string()).collect::<Vec<_>>().join(" "))).collect::<Vec<_>>().join(" "));
        out.m(&format!("helpers {} {} {} {} {}", strat, g.graph_sx(), g.props_sx(), cfg.sx(), gsx),
              &format!("({}) (assert {})", rows.join(" "), if ap { "ok" } else { "panic" }));
        out.stat("helper-cases");
        // direct law of the property statement: assert_properties may only succeed on a check that is done
        if strat == "fresh" && ap {
            out.v("assert-properties-succeeded-on-an-unfinished-check", &format!("a never-run on-demand checker (is_done = false): assert_properties() returned; graph {} props {}", g.graph_sx(), g.props_sx()));
        }
        for row in &rows {
            if row.ends_with("ok ok)") { out.stat("assert_discovery-own-accepted-given-accepted"); }
            else if row.ends_with("ok panic)") { out.stat("assert_discovery-own-accepted-given-rejected"); }
            else if row.ends_with("panic ok)") { out.stat("assert_discovery-own-rejected-given-accepted"); }
            else if row.ends_with("panic panic)") { out.stat("assert_discovery-own-rejected-given-rejected"); }
            else { out.stat("assert_discovery-no-discovery"); }
        }
    } else {
        out.stat("helper-case-panicked");
    }
}

fn main() {
    quiet_panics();
    let mut out = Out::new();
    let mut r = Rng::new(seed());
    let th = thorough();
    let prop = arg_str("--prop").unwrap_or("c01".into());
    let strategies = ["bfs", "dfs", "ondemand"];
    if prop == "c05" {
        contention(&mut out, &mut r, th);
        out.finish();
        return;
    }

    // ---- 1. exhaustive small scope ---------------------------------------------------------
    let mk_props = |n: usize, k: usize| -> Vec<GProp> {
        match k % 3 {
            0 => vec![GProp { exp: 'a', tbl: vec![true; n] }],
            1 => vec![GProp { exp: 'a', tbl: (0..n).map(|s| s != n - 1).collect() }, GProp { exp: 's', tbl: vec![false; n] }],
            _ => vec![GProp { exp: 'e', tbl: (0..n).map(|s| s == n - 1).collect() }, GProp { exp: 'a', tbl: vec![true; n] }],
        }
    };
    let mut counter = 0usize;
    for n in 1..=3usize {
        let stride = match (n, th) { (3, false) => 41, (3, true) => 3, _ => 1 };
        let mut k = 0usize;
        let mut cases: Vec<GraphModel> = vec![];
        small_scope(n, |g| { if k % stride == 0 { cases.push(g); } k += 1; });
        for mut g in cases {
            g.props = mk_props(n, counter);
            let strat = strategies[counter % 3];
            counter += 1;
            case(&mut out, &g, strat, &Cfg::plain(), &prop, true);
            for f in g.features() { out.stat(&format!("graph-{}", f)); }
            out.distinct(&(g.graph_sx(), g.props_sx(), strat));
            out.stat("small-scope-graphs");
        }
    }
    out.sample("small scope: all graphs with <=2 states (and a 1/41 (quick) or 1/3 (thorough) stride of those with 3), out-degree<=2 incl. ignored actions, all boundary masks, all non-empty init subsets; property sets rotate among [always true], [always (s!=n-1), sometimes false], [eventually (s==n-1), always true]");

    // ---- 2. seeded random graphs with 1..5 mixed properties ------------------------------------
    let n_rand = if th { 40_000 } else { 2_500 };
    let plain_cfg = Cfg::plain();
    for c in 0..n_rand {
        let shape = match r.below(10) { 0..=5 => Shape::Any, 6..=7 => Shape::Forest, _ => Shape::Dag };
        // 1-5 properties; one model in 60 has 65-71 of them (bit sets over property indices must not wrap at a machine word)
        let np = if c % 60 == 59 { 65 + r.below(7) } else { r.range(1, 5) };
        if np > 64 { out.stat("models-with-more-than-64-properties"); }
        let g = gen_graph(&mut r, 12, shape, np);
        for f in g.features() { out.stat(&format!("graph-{}", f)); }
        out.stat(match shape { Shape::Any => "shape-any", Shape::Forest => "shape-forest", Shape::Dag => "shape-dag" });
        out.stat(&format!("props-{}", np.min(65)));
        // plain configuration on all three strategies
        for strat in strategies {
            case(&mut out, &g, strat, &Cfg::plain(), &prop, true);
        }
        // one configuration with run controls (C12 single-threaded part; C03 'any finish condition')
        let cfg = Cfg {
            max_depth: if r.chance(1, 3) { Some(r.range(1, 5)) } else { None },
            target: if r.chance(1, 3) { Some(r.range(1, 10)) } else { None },
            finish: match r.below(7) {
                0 => "all".into(), 1 => "any".into(), 2 => "anyf".into(), 3 => "allf".into(),
                4 => format!("(allof {} {})", r.below(np), r.below(np + 1)),
                5 => format!("(anyof {} {})", r.below(np), r.below(np + 1)),
                _ => "all".into(),
            },
        };
        let strat = strategies[r.below(3)];
        case(&mut out, &g, strat, &cfg, &prop, true);
        out.stat("with-run-controls");
        if prop == "c02" || prop == "c03" {
            helpers_case(&mut out, &g, strategies[c % 3], if c % 2 == 0 { &cfg } else { &plain_cfg }, &mut r);
            // (only with an in-boundary initial state: without one the workers leave at once and `is_done` flips
            // to true at a moment that depends on the scheduler)
            if c % 5 == 0 && g.init.iter().any(|s| g.bnd[*s as usize]) {
                helpers_case(&mut out, &g, "fresh", &plain_cfg, &mut r);
                out.stat("helper-cases-on-an-unfinished-check");
            }
        }
        // simulation with a scripted chooser (all initial states inside the boundary so that every trace counts
        // at least one state and the target state count ends the run)
        if prop == "c03" || prop == "c11" || prop == "c12" {
            let mut gs = g.clone();
            for s in gs.init.clone() { gs.bnd[s as usize] = true; }
            let script: Vec<usize> = (0..r.below(40)).map(|_| r.below(12)).collect();
            let scfg = Cfg {
                max_depth: if r.chance(1, 3) { Some(r.range(1, 6)) } else { None },
                target: Some(r.range(1, 12)),
                finish: match r.below(7) { 0 => "any".into(), 1 => "anyf".into(), 2 => "allf".into(),
                    3 => format!("(allof {} {})", r.below(np), r.below(np + 1)), 4 => format!("(anyof {} {})", r.below(np), r.below(np + 1)),
                    _ => "all".into() },
            };
            let obs = observe_sim(&gs, &scfg, &script);
            let (gsx, psx, csx) = (gs.graph_sx(), gs.props_sx(), scfg.sx());
            out.m(&format!("sim {} {} {} ({})", gsx, psx, csx, script.iter().map(|x| x.to_string()).collect::<Vec<_>>().join(" ")), &obs);
            out.o(&format!("o-chk {} sim {} {} {} ({})", prop, gsx, psx, csx, obs));
            out.stat("strategy-simulation");
            if obs.contains("(disc ())") { out.stat("sim-no-discovery"); } else { out.stat("sim-with-discovery"); }
            // seed replay (C12): the same seed and chooser replays the same run
            if prop == "c12" && c % 8 == 0 {
                let obs2 = observe_sim(&gs, &scfg, &script);
                if obs2 != obs { out.v("sim-replay-differs", &format!("graph {} script {:?}", gsx, script)); }
                out.stat("sim-replays-compared");
            }
        }
        out.distinct(&(g.graph_sx(), g.props_sx()));
        if c < 3 { out.sample(&format!("random graph {} props {} cfg {}", g.graph_sx(), g.props_sx(), cfg.sx())); }
    }

    // ---- 3. multi-threaded observational runs on big graphs (harness-side oracle) -----------------
    // The graphs are too big for the list-based Lean oracle; the reference is an independent closure computed
    // here. These are implementation-vs-oracle checks (V lines), not model correspondences.
    if prop == "c01" || prop == "c02" || prop == "c03" {
        let n_big = if th { 60 } else { 8 };
        for c in 0..n_big {
            let n = 3000 + r.below(if th { 40000 } else { 12000 });
            let mut g = GraphModel::big(&mut r, n);
            let reach = g.reach();
            // p0 never discovered (keeps the run exhaustive); p1 sometimes with rare witnesses; p2 always with rare violations
            let rare: Vec<bool> = (0..n).map(|_| r.chance(1, 2000)).collect();
            g.props = vec![
                GProp { exp: 'a', tbl: vec![true; n] },
                GProp { exp: 's', tbl: rare.clone() },
                GProp { exp: 'a', tbl: rare.iter().map(|b| !*b).collect() },
            ];
            let threads = *r.pick(&[2usize, 3, 4, 8]);
            let strat = strategies[c % 3];
            stateright::verif::set_perturbation(r.next() | 1);
            let visits: Arc<Mutex<Vec<Vec<u16>>>> = Arc::new(Mutex::new(vec![]));
            let v2 = visits.clone();
            let workers: Arc<Mutex<std::collections::BTreeSet<String>>> = Arc::new(Mutex::new(Default::default()));
            let w2 = workers.clone();
            let g2 = g.clone();
            let g3 = g.clone();
            let res = catch_unwind(AssertUnwindSafe(move || {
                let b = g2.clone().checker().threads(threads)
                    .visitor(move |p: stateright::Path<u16, u16>| {
                        v2.lock().unwrap().push(path_states(&g3, p, &BAD_VISIT_STEPS));
                        w2.lock().unwrap().insert(std::thread::current().name().unwrap_or("?").to_string());
                    });
                match strat {
                    "bfs" => summarize(&b.spawn_bfs().join()),
                    "dfs" => summarize(&b.spawn_dfs().join()),
                    _ => { let c = b.spawn_on_demand(); c.run_to_completion(); summarize(&c.join()) }
                }
            }));
            stateright::verif::set_perturbation(0);
            let desc = format!("big graph n={} reach={} threads={} strategy={} seed={} case={}", n, reach.len(), threads, strat, seed(), c);
            match res {
                Err(_) => out.v("mt-panic", &desc),
                Ok((uniq, count, _depth, disc)) => {
                    let vs = visits.lock().unwrap();
                    let mut lasts: Vec<u16> = vs.iter().map(|p| *p.last().unwrap()).collect();
                    lasts.sort();
                    let dup = lasts.windows(2).any(|w| w[0] == w[1]);
                    if prop == "c01" {
                        if dup { out.v("mt-state-evaluated-twice", &desc); }
                        if lasts != reach { out.v("mt-evaluated-set-not-reachable-set", &format!("{} evaluated={}", desc, lasts.len())); }
                        if uniq != reach.len() { out.v("mt-unique-count", &format!("{} uniq={}", desc, uniq)); }
                        if count < uniq { out.v("mt-state-count-below-unique", &desc); }
                        if !vs.iter().all(|p| g.is_path(p)) { out.v("mt-visited-path-invalid", &desc); }
                    }
                    if prop == "c02" {
                        let ex1 = reach.iter().any(|s| rare[*s as usize]);
                        if disc.contains_key(&1) != ex1 { out.v("mt-sometimes-verdict", &desc); }
                        if disc.contains_key(&2) != ex1 { out.v("mt-always-verdict", &desc); }
                        if disc.contains_key(&0) { out.v("mt-always-true-discovered", &desc); }
                    }
                    if prop == "c03" || prop == "c02" {
                        for (i, p) in &disc {
                            if !g.is_path(p) { out.v("mt-discovery-path-invalid", &format!("{} prop={}", desc, i)); }
                            if *i >= 1 && !rare[*p.last().unwrap() as usize] { out.v("mt-discovery-not-witness", &format!("{} prop={}", desc, i)); }
                        }
                    }
                    out.stat("mt-runs");
                    if workers.lock().unwrap().len() >= 2 { out.stat("mt-runs-with-2-or-more-threads-evaluating"); }
                    out.stat(&format!("mt-threads-{}", threads));
                    out.stat_n("mt-states-evaluated", lasts.len() as u64);
                    if c < 2 { out.sample(&desc); }
                }
            }
        }
    }

    if prop == "c01" {
        let mut r2 = r.fork();
        contention(&mut out, &mut r2, th);
    }

    // ---- 4. single-threaded runs on LONG and WIDE graphs (more than one 1500-job block) ----------------
    // corridor (every state has one real successor plus a self-loop / ignored action), star (one hub with
    // thousands of leaves), many initial states; the witness of p1/p2 sits at the far end / last leaf.
    if prop == "c01" || prop == "c02" || prop == "c03" || prop == "c13" || prop == "c12" {
        let shapes = ["corridor", "star", "many-init", "comb", "wide-tree"];
        let reps = if th { 6 } else { 1 };
        for rep in 0..reps {
            for shape in shapes {
                let n = if shape == "wide-tree" { 3613 } else { 1800 + r.below(if th { 4000 } else { 1500 }) };
                let mut adj: Vec<Vec<Option<u16>>> = vec![vec![]; n];
                let mut init: Vec<u16> = vec![0];
                match shape {
                    "corridor" => { for s in 0..n - 1 { adj[s] = vec![Some(s as u16), Some((s + 1) as u16), None]; } }
                    "star" => { adj[0] = (1..n).map(|t| Some(t as u16)).collect(); }
                    "wide-tree" => {
                        // root -> 12 -> 144 -> 1728 nodes, each of the 1728 with one more child: the 1500-job block
                        // boundary falls where the queue holds jobs of two depths
                        let b = 12usize;
                        let mut next = 1usize;
                        let mut level: Vec<usize> = vec![0];
                        for _ in 0..3 {
                            let mut nl = vec![];
                            for &u in &level { for _ in 0..b { if next < n { adj[u].push(Some(next as u16)); nl.push(next); next += 1; } } }
                            level = nl;
                        }
                        for &u in &level { if next < n { adj[u].push(Some(next as u16)); next += 1; } }
                    }
                    "many-init" => {
                        // more than 1500 initial states (the first ~85 % of the states), the rest hangs below EARLY initial
                        // states as short chains: whatever is reached from the first initial states lies deeper than the
                        // initial states that are still waiting at the end of the queue
                        let k = (n * 85 / 100).max(1600).min(n);
                        init = (0..k as u16).collect();
                        for s in 0..k { if s % 7 == 0 && s + 1 < k { adj[s] = vec![Some((s + 1) as u16)]; } }
                        for t in k..n {
                            // chains of three hang alternately below the FIRST 400 and the LAST 400 initial states
                            let parent = if t == k || (t - k) % 3 == 0 {
                                if ((t - k) / 3) % 2 == 0 { ((t - k) * 5) % 400 } else { k - 1 - ((t - k) * 5) % 400 }
                            } else { t - 1 };
                            adj[parent].push(Some(t as u16));
                        }
                    }
                    _ => { // comb: a spine with a tooth of length 2 at every spine state
                        let spine = n / 3;
                        for s in 0..spine { let mut v = vec![Some((spine + 2 * s) as u16)]; if s + 1 < spine { v.push(Some((s + 1) as u16)); } adj[s] = v; adj[spine + 2 * s] = vec![Some((spine + 2 * s + 1) as u16)]; }
                    }
                }
                let far = n - 1;
                let tbl_far: Vec<bool> = (0..n).map(|s| s == far).collect();
                let g = GraphModel { n, init, adj, bnd: vec![true; n], props: vec![
                    GProp { exp: 'a', tbl: vec![true; n] },
                    GProp { exp: 's', tbl: tbl_far.clone() },
                    GProp { exp: 'a', tbl: tbl_far.iter().map(|b| !*b).collect() },
                ], panic_at: None };
                let reach = g.reach();
                // EXACT correspondence across 1500-job block boundaries (short paths only, so that the visit log stays small;
                // on-demand is exact only while <= 1500 jobs are pending, so it is left to the harness-side oracle here)
                if rep == 0 && (shape == "star" || shape == "many-init" || shape == "wide-tree") && (prop == "c01" || prop == "c13" || prop == "c12") {
                    for strat in ["bfs", "dfs"] {
                        let cfg = if prop == "c12" { Cfg { max_depth: None, target: Some(1600 + r.below(1500)), finish: "all".into() } } else { Cfg::plain() };
                        let obs = observe(&g, strat, &cfg);
                        out.m(&format!("chk {} {} {} {}", strat, g.graph_sx(), g.props_sx(), cfg.sx()), &obs);
                        out.stat("big-exact-correspondence-runs");
                    }
                }
                for strat in strategies {
                    let visits: Arc<Mutex<Vec<Vec<u16>>>> = Arc::new(Mutex::new(vec![]));
                    let v2 = visits.clone();
                    let g2 = g.clone();
                    let g3 = g.clone();
                    // C12: a target_state_count beyond the first 1500-job block
                    let target: Option<usize> = if prop == "c12" { Some(1600 + r.below(reach.len().saturating_sub(1600).max(1))) } else { None };
                    let res = catch_unwind(AssertUnwindSafe(move || {
                        let mut b = g2.clone().checker().threads(1)
                            .visitor(move |p: stateright::Path<u16, u16>| { v2.lock().unwrap().push(path_states(&g3, p, &BAD_VISIT_STEPS)); });
                        if let Some(t) = target { b = b.target_state_count(t); }
                        match strat {
                            "bfs" => summarize(&b.spawn_bfs().join()),
                            "dfs" => summarize(&b.spawn_dfs().join()),
                            _ => { let c = b.spawn_on_demand(); c.run_to_completion(); summarize(&c.join()) }
                        }
                    }));
                    let desc = format!("{} n={} reach={} strategy={} threads=1 seed={} rep={}", shape, n, reach.len(), strat, seed(), rep);
                    match res {
                        Err(_) => out.v("big1-panic", &desc),
                        Ok((uniq, count, _depth, disc)) => {
                            let vs = visits.lock().unwrap();
                            let mut lasts: Vec<u16> = vs.iter().map(|p| *p.last().unwrap()).collect();
                            lasts.sort();
                            if prop == "c12" {
                                let t = target.unwrap();
                                if lasts != reach && count < t.min(reach.len()) {
                                    out.v("big1-stopped-before-target-state-count", &format!("{} target={} state_count={} evaluated={}", desc, t, count, lasts.len()));
                                }
                                if !lasts.iter().all(|s| reach.binary_search(s).is_ok()) { out.v("big1-evaluated-unreachable", &desc); }
                            }
                            if prop == "c01" {
                                if lasts.windows(2).any(|w| w[0] == w[1]) { out.v("big1-state-evaluated-twice", &desc); }
                                if lasts != reach { out.v("big1-evaluated-set-not-reachable-set", &format!("{} evaluated={}", desc, lasts.len())); }
                                if uniq != reach.len() { out.v("big1-unique-count", &format!("{} uniq={}", desc, uniq)); }
                                if count < uniq { out.v("big1-state-count-below-unique", &desc); }
                                if !vs.iter().all(|p| g.is_path(p)) { out.v("big1-visited-path-invalid", &desc); }
                            }
                            if prop == "c02" {
                                let ex = reach.contains(&(far as u16));
                                if disc.contains_key(&1) != ex { out.v("big1-sometimes-verdict", &desc); }
                                if disc.contains_key(&2) != ex { out.v("big1-always-verdict", &desc); }
                                if disc.contains_key(&0) { out.v("big1-always-true-discovered", &desc); }
                            }
                            if prop == "c03" || prop == "c02" {
                                for (i, p) in &disc {
                                    if !g.is_path(p) || *p.last().unwrap() as usize != far { out.v("big1-discovery-not-witness-path", &format!("{} prop={}", desc, i)); }
                                }
                            }
                            if prop == "c13" && strat == "bfs" {
                                let lens: Vec<usize> = vs.iter().map(|p| p.len()).collect();
                                if lens.windows(2).any(|w| w[0] > w[1]) { out.v("big1-bfs-depths-decrease", &desc); }
                                // independent BFS distances: every visited path and every discovery is shortest
                                let mut dist = vec![usize::MAX; n];
                                let mut q = std::collections::VecDeque::new();
                                for &s0 in &g.init { if g.bnd[s0 as usize] && dist[s0 as usize] == usize::MAX { dist[s0 as usize] = 0; q.push_back(s0); } }
                                while let Some(u) = q.pop_front() {
                                    for t in g.adj[u as usize].iter().flatten() {
                                        if g.bnd[*t as usize] && dist[*t as usize] == usize::MAX { dist[*t as usize] = dist[u as usize] + 1; q.push_back(*t); }
                                    }
                                }
                                if vs.iter().any(|p| p.len() != dist[*p.last().unwrap() as usize] + 1) { out.v("big1-bfs-visited-path-not-shortest", &desc); }
                                for (i, p) in &disc { if p.len() != dist[*p.last().unwrap() as usize] + 1 { out.v("big1-bfs-discovery-not-shortest", &format!("{} prop={}", desc, i)); } }
                            }
                            out.stat("big-single-thread-runs");
                            out.stat(&format!("big-shape-{}", shape));
                        }
                    }
                }
            }
        }
        out.sample("long/wide single-threaded graphs: corridor, star, many-init, comb with 1800-3300 states (more than one 1500-job block)");
    }
    {
        use std::sync::atomic::Ordering::Relaxed;
        let sample = BAD_STEP_SAMPLE.lock().unwrap().clone().unwrap_or_default();
        if BAD_VISIT_STEPS.load(Relaxed) > 0 && (prop == "c01" || prop == "c03" || prop == "c13") {
            out.v("visitor-path-step-not-a-model-transition", &format!("{} steps of paths shown to the visitor carry an action that does not lead to the next state; first: {}", BAD_VISIT_STEPS.load(Relaxed), sample));
        }
        if BAD_DISC_STEPS.load(Relaxed) > 0 {
            out.v("discovery-path-step-not-a-model-transition", &format!("{} steps of discovery paths carry an action that does not lead to the next state; first: {}", BAD_DISC_STEPS.load(Relaxed), sample));
        }
        out.stat("path-action-labels-checked");
    }
    out.finish();
}
