//! Trace validation of the real multi-threaded BFS / DFS / on-demand checkers against the product model
//! lean/SR/Checker/Full.lean (job market × checker machine): runs `spawn_bfs` / `spawn_dfs` / `spawn_on_demand` + `run_to_completion` with 2-4 threads on
//! explicit graphs of a few thousand states with the trace hooks of src/verif.rs switched on, translates
//! fingerprints to state numbers and emits
//!   M  tv <bfs|dfs> <k> <graph> <props> <cfg> (<w> <kind> <a> <b>)*     expected: what the checker reported
//! The Lean driver replays the entries as steps of the product; a run the product cannot perform, or a different
//! final state, is a disagreement.
use srh::gm::*;
use srh::out::*;
use srh::rng::Rng;
use stateright::verif;
use stateright::{Checker, HasDiscoveries, Model};
use std::collections::HashMap;
use std::panic::{catch_unwind, AssertUnwindSafe};

const EXTERNAL: u64 = 99999;

fn props_for(r: &mut Rng, g: &GraphModel, n_props: usize) -> Vec<GProp> {
    let n = g.n;
    let reach = g.reach();
    (0..n_props)
        .map(|_| {
            let exp = *r.pick(&['a', 'a', 's', 's', 'e']);
            let tbl: Vec<bool> = match (exp, r.below(4)) {
                // never discovered
                ('a', 0) => vec![true; n],
                ('s', 0) => vec![false; n],
                // a single witness somewhere among the reachable states (found late or early)
                ('a', 1) => {
                    let mut t = vec![true; n];
                    if !reach.is_empty() { t[*r.pick(&reach) as usize] = false; }
                    t
                }
                ('s', 1) => {
                    let mut t = vec![false; n];
                    if !reach.is_empty() { t[*r.pick(&reach) as usize] = true; }
                    t
                }
                // many witnesses: several workers find one at about the same time
                ('a', _) => (0..n).map(|_| !r.chance(1, 40)).collect(),
                ('s', _) => (0..n).map(|_| r.chance(1, 40)).collect(),
                (_, 0) => vec![false; n],
                (_, _) => (0..n).map(|_| r.chance(1, 3)).collect(),
            };
            GProp { exp, tbl }
        })
        .collect()
}

struct Case {
    g: GraphModel,
    strat: &'static str,
    k: usize,
    finish: &'static str,
    max_depth: Option<usize>,
    perturb: u64,
}

fn finish_of(s: &str) -> HasDiscoveries {
    match s {
        "all" => HasDiscoveries::All,
        "any" => HasDiscoveries::Any,
        "anyf" => HasDiscoveries::AnyFailures,
        _ => HasDiscoveries::AllFailures,
    }
}

fn run(c: &Case) -> Result<(Vec<verif::TraceEntry>, String), String> {
    let g = c.g.clone();
    let (strat, k, finish, max_depth) = (c.strat, c.k, c.finish, c.max_depth);
    verif::set_perturbation(c.perturb);
    verif::trace_start();
    let r = catch_unwind(AssertUnwindSafe(move || {
        let mut b = g.clone().checker().threads(k).finish_when(finish_of(finish));
        if let Some(d) = max_depth {
            b = b.target_max_depth(d);
        }
        if strat == "bfs" {
            let ch = b.spawn_bfs().join();
            // the trace ends with the last worker's Drop; the checker object's own handle is dropped afterwards
            let tr = verif::trace_stop();
            (tr, summary(&ch))
        } else if strat == "dfs" {
            let ch = b.spawn_dfs().join();
            let tr = verif::trace_stop();
            (tr, summary(&ch))
        } else {
            let ch = b.spawn_on_demand();
            ch.run_to_completion();
            let ch = ch.join();
            let tr = verif::trace_stop();
            (tr, summary(&ch))
        }
    }));
    verif::set_perturbation(0);
    match r {
        Ok(x) => Ok(x),
        Err(_) => {
            let _ = verif::trace_stop();
            Err("panic".into())
        }
    }
}

fn summary<C: Checker<GraphModel>>(c: &C) -> String {
    // every discovery with the PATH the checker returns for it (bfs / on-demand: rebuilt from the parent map by
    // `reconstruct_path`; dfs: from the stored fingerprint vector) — the model replays the same inserts in the same order
    let mut discs: Vec<(usize, String)> = c
        .discoveries()
        .into_iter()
        .map(|(n, p)| {
            let states: Vec<String> = p.into_states().iter().map(|s| s.to_string()).collect();
            (NAMES.iter().position(|x| *x == n).unwrap_or(99), format!("({})", states.join(" ")))
        })
        .collect();
    discs.sort();
    format!(
        "ok (uniq {}) (count {}) (disc ({})) (pending 0) (busy 0) (exited t)",
        c.unique_state_count(),
        c.state_count(),
        discs.iter().map(|(i, p)| format!("({} {})", i, p)).collect::<Vec<_>>().join(" ")
    )
}

fn main() {
    let mut out = Out::new();
    let seed = seed();
    let thorough = thorough();
    let n_cases = arg_u64("--cases", if thorough { 60 } else { 8 }) as usize;
    let mut r = Rng::new(seed ^ 0x7476_7476);
    for ci in 0..n_cases {
        // more than one 1500-job block, so that work is shared through the market
        let n = match ci % 4 {
            0 => 1700 + r.below(800),
            1 => 3000 + r.below(2000),
            2 => 400 + r.below(400), // one block: everybody else parks, the market is closed by the last worker
            _ => 2200 + r.below(1500),
        };
        let mut g = GraphModel::big(&mut r, n);
        // half of the cases explore everything (properties that never get a discovery): several blocks per
        // worker, work shared through the market; the others stop early for their finish condition
        let full = ci % 2 == 0;
        let n_props = 1 + r.below(3);
        g.props = props_for(&mut r, &g, n_props);
        if full {
            for p in g.props.iter_mut() {
                match p.exp {
                    'a' => p.tbl = vec![true; g.n],
                    's' => p.tbl = vec![false; g.n],
                    _ => {}
                }
            }
        }
        let c = Case {
            g,
            strat: *r.pick(&["bfs", "dfs", "ondemand"]),
            k: 2 + r.below(3),
            finish: *r.pick(&["all", "all", "any", "anyf", "allf"]),
            max_depth: if r.chance(1, 5) { Some(6 + r.below(30)) } else { None },
            perturb: if r.chance(2, 3) { 1 + r.next() % 1_000_000 } else { 0 },
        };
        let fp_to_state: HashMap<u64, u16> = (0..c.g.n).map(|s| (verif::fingerprint(&(s as u16)), s as u16)).collect();
        match run(&c) {
            Err(e) => out.v("tv-run-panicked", &format!("case {} {} k={}: {}", ci, c.strat, c.k, e)),
            Ok((trace, expected)) => {
                let mut evs = String::new();
                let mut bad = None;
                let (mut parks, mut wakes, mut splits, mut pieces, mut stops) = (0u64, 0u64, 0u64, 0u64, [0u64; 5]);
                let (mut blocks, mut early_block_ends, mut dropped_drained) = (0u64, 0u64, 0u64);
                for (w, kind, a, b) in &trace {
                    let w = if *w == u64::MAX { EXTERNAL } else { *w };
                    let a2 = match *kind {
                        verif::TR_TAKE | verif::TR_EXPAND => match fp_to_state.get(a) {
                            Some(s) => *s as u64,
                            None => {
                                bad = Some(format!("fingerprint {} of no state", a));
                                0
                            }
                        },
                        _ => *a,
                    };
                    match *kind {
                        verif::TR_POP_PARK => parks += 1,
                        verif::TR_POP_GOT | verif::TR_POP_EMPTY if *b == 1 => wakes += 1,
                        verif::TR_SPLIT => splits += 1,
                        verif::TR_SPLIT_PIECE => pieces += 1,
                        verif::TR_STOP => stops[(*a as usize).min(4)] += 1,
                        verif::TR_BLOCK => blocks += 1,
                        verif::TR_BLOCK_END => { early_block_ends += 1; dropped_drained += *a; }
                        _ => {}
                    }
                    evs.push_str(&format!(" ({} {} {} {})", w, kind, a2, b));
                }
                if let Some(b) = bad {
                    out.v("tv-trace-malformed", &b);
                    continue;
                }
                let cfg = format!("(cfg {} none {})", c.max_depth.map(|d| d.to_string()).unwrap_or("none".into()), c.finish);
                out.m(&format!("tv {} {} {} {} {}{}", c.strat, c.k, c.g.graph_sx(), c.g.props_sx(), cfg, evs), &expected);
                out.distinct(&(c.g.graph_sx(), c.strat, c.k, c.perturb));
                out.stat(&format!("tv-{}-threads-{}", c.strat, c.k));
                out.stat_n("tv-trace-entries", trace.len() as u64);
                out.stat_n("tv-parks", parks);
                out.stat_n("tv-wakes-with-outcome", wakes);
                out.stat_n("tv-split-calls", splits);
                out.stat_n("tv-batches-shared", pieces);
                out.stat_n("tv-stop-finish-when", stops[1]);
                out.stat_n("tv-stop-market-shut-down", stops[3]);
                out.stat_n("tv-stop-pop-empty", stops[4]);
                out.stat_n("tv-ondemand-blocks", blocks);
                out.stat_n("tv-ondemand-blocks-returning-early", early_block_ends);
                out.stat_n("tv-ondemand-drained-jobs-dropped", dropped_drained);
                if c.max_depth.is_some() { out.stat("tv-with-depth-limit"); }
                if c.perturb != 0 { out.stat("tv-with-perturbation"); }
                out.stat(&format!("tv-props-{}", c.g.props.len()));
                out.sample(&format!("tv {} k={} n={} props={} finish={} depth={:?} entries={} -> {}", c.strat, c.k, c.g.n, c.g.props.len(), c.finish, c.max_depth, trace.len(), expected));
            }
        }
    }
    out.finish();
}
