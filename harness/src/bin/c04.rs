//! C04 — state identity: implementation side.
//! Stream 1: values of the hashable universe, each built several ways; the recorded `write_*` calls must be
//!           the model's token stream (M) and all builds of one logical value must agree (O, expectation `eq`).
//! Stream 2: near pairs (one small change); recorded streams equal <=> semantically equal <=> `==` (O).
//! Stream 3: reachable states of small actor systems: BFS `unique_state_count` against an independent
//!           structural count (V on mismatch), plus M/O cases on the reachable states themselves.
use srh::hash_util::*;
use srh::out::*;
use srh::rec::{record, toks_sx};
use srh::rng::Rng;
use srh::sx;
use stateright::actor::{ActorModelState, Envelope, Id, Network};
use stateright::util::{DenseNatMap, HashableHashMap, HashableHashSet, VectorClock};
use std::collections::{BTreeMap, BTreeSet, VecDeque};

type StdRS = std::collections::hash_map::RandomState;

fn m_case<T: U>(out: &mut Out, x: &T) -> Vec<srh::rec::Tok> {
    let t = record(x);
    out.m(&format!("toks {} {} {}", T::ty(), x.sx(), graph_sx(&full_graph(x))), &toks_sx(&t));
    t
}
fn o_pair<T: U>(out: &mut Out, a: &T, b: &T, want: &str) -> (bool, bool) {
    let se = record(a) == record(b);
    let ie = a == b;
    out.o(&format!("o-pair {} {} {} {} {} {}", T::ty(), a.sx(), b.sx(), srh::sx::b(se), srh::sx::b(ie), want));
    (se, ie)
}

fn run<T: U>(out: &mut Out, r: &mut Rng, n: usize) {
    let ty = T::ty();
    for i in 0..n {
        let v = T::gen(r, 3);
        let t0 = m_case(out, &v);
        out.distinct(&(ty.clone(), v.sx()));
        // hashing is a function of the VALUE: whatever this thread hashed in between (here: collections nested in
        // collections, maps and sets, which exercise every scratch buffer of the hashable containers), the same value feeds
        // the same stream again
        if i % 3 == 0 {
            let mut inner_m: HashableHashMap<u8, u8> = HashableHashMap::new();
            for k in 0..(1 + r.below(3)) as u8 { inner_m.insert(k, r.below(5) as u8); }
            let mut outer_m: HashableHashSet<HashableHashMap<u8, u8>> = HashableHashSet::new();
            outer_m.insert(inner_m.clone());
            let mut inner_s: HashableHashSet<u8> = HashableHashSet::new();
            for _ in 0..(1 + r.below(3)) { inner_s.insert(r.below(7) as u8); }
            let mut outer_s: HashableHashMap<u8, HashableHashSet<u8>> = HashableHashMap::new();
            outer_s.insert(1, inner_s);
            let _ = record(&outer_m);
            let t1 = record(&v);
            let _ = record(&outer_s);
            let _ = record(&outer_m);
            let t2 = record(&v);
            out.stat("hash-again-after-other-values");
            if t1 != t0 || t2 != t0 {
                out.v("hash-depends-on-what-was-hashed-before", &format!("{} {}: stream {} first, then {} / {} after hashing a set of maps / a map of sets", ty, v.sx(), toks_sx(&t0), toks_sx(&t1), toks_sx(&t2)));
            }
        }
        // several builds of the same logical value
        for _ in 0..2 {
            let b = v.rebuild(r);
            let t = m_case(out, &b);
            let (se, ie) = o_pair(out, &v, &b, "eq");
            out.stat("rebuilds");
            if b.sx() != v.sx() { out.stat("rebuilds-with-different-iteration-order-or-padding"); }
            if !se || !ie || t != t0 { out.stat("rebuilds-DIFFERING"); }
        }
        // near pairs
        for _ in 0..2 {
            let w = v.mutate(r).rebuild(r);
            m_case(out, &w);
            let (se, ie) = o_pair(out, &v, &w, "any");
            out.stat(if ie { "near-pairs-equal" } else { "near-pairs-different" });
            if se != ie { out.stat("near-pairs-stream-vs-eq-DISAGREE"); }
            out.distinct(&(ty.clone(), v.sx(), w.sx()));
        }
        // an unrelated pair
        if i % 4 == 0 {
            let w = T::gen(r, 3);
            o_pair(out, &v, &w, "any");
        }
        if i == 0 { out.sample(&format!("toks {} {} => {}", ty, v.sx(), toks_sx(&t0))); }
    }
    out.stat_n(&format!("type {}", if ty.len() > 60 { &ty[..60] } else { &ty }), n as u64);
}



// ---------------------------------------------------------------- the consistency testers

use stateright::semantics::register::{Register, RegisterOp, RegisterRet};
use stateright::semantics::vec::{VecOp, VecRet};
use stateright::semantics::write_once_register::{WORegister, WORegisterOp, WORegisterRet};
use stateright::semantics::{ConsistencyTester, LinearizabilityTester, SequentialConsistencyTester, SequentialSpec};

/// tree of a `{:?}` rendering (the testers' fields are private; `Debug` is derived, so it shows exactly them)
#[derive(Debug, Clone)]
enum D {
    Num(String),
    Node(String, Vec<D>),
    Fields(Vec<(String, D)>),
    Map(Vec<(D, D)>),
    Seq(Vec<D>),
    Tup(Vec<D>),
}
struct DP<'a> {
    s: &'a [u8],
    i: usize,
}
impl<'a> DP<'a> {
    fn ws(&mut self) {
        while self.i < self.s.len() && (self.s[self.i] == b' ' || self.s[self.i] == b',') {
            self.i += 1;
        }
    }
    fn peek(&mut self) -> u8 {
        self.ws();
        if self.i < self.s.len() { self.s[self.i] } else { 0 }
    }
    fn items(&mut self, close: u8) -> Vec<D> {
        let mut v = vec![];
        while self.peek() != close {
            v.push(self.val());
        }
        self.i += 1;
        v
    }
    fn val(&mut self) -> D {
        let c = self.peek();
        match c {
            b'[' => { self.i += 1; D::Seq(self.items(b']')) }
            b'(' => { self.i += 1; D::Tup(self.items(b')')) }
            b'{' => {
                self.i += 1;
                let mut v = vec![];
                while self.peek() != b'}' {
                    let k = self.val();
                    assert_eq!(self.peek(), b':');
                    self.i += 1;
                    v.push((k, self.val()));
                }
                self.i += 1;
                D::Map(v)
            }
            b'0'..=b'9' => {
                let st = self.i;
                while self.i < self.s.len() && self.s[self.i].is_ascii_digit() { self.i += 1; }
                D::Num(String::from_utf8(self.s[st..self.i].to_vec()).unwrap())
            }
            _ => {
                let st = self.i;
                while self.i < self.s.len() && (self.s[self.i].is_ascii_alphanumeric() || self.s[self.i] == b'_') { self.i += 1; }
                let name = String::from_utf8(self.s[st..self.i].to_vec()).unwrap();
                assert!(!name.is_empty(), "debug parse at {}", self.i);
                if self.i < self.s.len() && self.s[self.i] == b'(' {
                    self.i += 1;
                    D::Node(name, self.items(b')'))
                } else if self.s[self.i..].starts_with(b" {") {
                    self.i += 2;
                    let mut v = vec![];
                    while self.peek() != b'}' {
                        let st = self.i;
                        while self.s[self.i] != b':' { self.i += 1; }
                        let f = String::from_utf8(self.s[st..self.i].to_vec()).unwrap();
                        self.i += 1;
                        v.push((f, self.val()));
                    }
                    self.i += 1;
                    D::Fields(v)
                } else {
                    D::Node(name, vec![])
                }
            }
        }
    }
}
fn dnum(d: &D) -> String {
    match d { D::Num(n) => n.clone(), _ => panic!("number expected: {:?}", d) }
}
fn dopt(d: &D) -> String {
    match d {
        D::Node(n, a) if n == "None" && a.is_empty() => "(0 u)".into(),
        D::Node(n, a) if n == "Some" => format!("(1 {})", dnum(&a[0])),
        _ => panic!("option expected: {:?}", d),
    }
}
/// a derived enum value: variant names in declaration order with the payload converter of each
fn denum(d: &D, variants: &[(&str, Option<fn(&D) -> String>)]) -> String {
    if let D::Node(n, a) = d {
        for (i, (name, conv)) in variants.iter().enumerate() {
            if n == name {
                return match conv { None => format!("({} u)", i), Some(f) => format!("({} {})", i, f(&a[0])) };
            }
        }
    }
    panic!("enum value expected: {:?}", d)
}
/// per reference object: (type codes obj/op/ret, converters)
struct ObjKind {
    tys: (&'static str, &'static str, &'static str),
    obj: fn(&D) -> String,
    op: fn(&D) -> String,
    ret: fn(&D) -> String,
}
const K_REG: ObjKind = ObjKind {
    tys: ("u8", "(enum2 u8 unit)", "(enum2 unit u8)"),
    obj: |d| match d { D::Node(_, a) => dnum(&a[0]), _ => panic!() },
    op: |d| denum(d, &[("Write", Some(dnum)), ("Read", None)]),
    ret: |d| denum(d, &[("WriteOk", None), ("ReadOk", Some(dnum))]),
};
const K_WO: ObjKind = ObjKind {
    tys: ("(opt u8)", "(enum2 u8 unit)", "(enum3 unit unit (opt u8))"),
    obj: |d| match d { D::Node(_, a) => dopt(&a[0]), _ => panic!() },
    op: |d| denum(d, &[("Write", Some(dnum)), ("Read", None)]),
    ret: |d| denum(d, &[("WriteOk", None), ("WriteFail", None), ("ReadOk", Some(dopt))]),
};
const K_VEC: ObjKind = ObjKind {
    tys: ("(vec u8)", "(enum3 u8 unit unit)", "(enum3 unit (opt u8) usize)"),
    obj: |d| match d { D::Seq(a) => sx::list(a.iter().map(dnum)), _ => panic!() },
    op: |d| denum(d, &[("Push", Some(dnum)), ("Pop", None), ("Len", None)]),
    ret: |d| denum(d, &[("PushOk", None), ("PopOk", Some(dopt)), ("LenOk", Some(dnum))]),
};
fn dmap(d: &D, f: &dyn Fn(&D) -> String) -> String {
    match d { D::Map(es) => sx::list(es.iter().map(|(k, v)| format!("({} {})", dnum(k), f(v)))), _ => panic!("map expected: {:?}", d) }
}
/// (type code, value) of a tester from its Debug rendering
fn tester_sx(debug: &str, k: &ObjKind, lin: bool) -> (String, String) {
    let mut p = DP { s: debug.as_bytes(), i: 0 };
    let d = p.val();
    let fs = match d { D::Fields(fs) => fs, _ => panic!("struct expected") };
    let get = |n: &str| fs.iter().find(|(f, _)| f == n).map(|(_, v)| v.clone()).unwrap();
    let obj = (k.obj)(&get("init_ref_obj"));
    let lc = |d: &D| dmap(d, &|v| dnum(v));
    let hist = dmap(&get("history_by_thread"), &|v| match v {
        D::Seq(es) => sx::list(es.iter().map(|e| match e {
            D::Tup(t) if lin => format!("({} ({} {}))", lc(&t[0]), (k.op)(&t[1]), (k.ret)(&t[2])),
            D::Tup(t) => format!("({} {})", (k.op)(&t[0]), (k.ret)(&t[1])),
            _ => panic!(),
        })),
        _ => panic!(),
    });
    let infl = dmap(&get("in_flight_by_thread"), &|v| match v {
        D::Tup(t) if lin => format!("({} {})", lc(&t[0]), (k.op)(&t[1])),
        other => (k.op)(other),
    });
    let valid = match get("is_valid_history") { D::Node(n, _) => if n == "true" { "t" } else { "f" }, _ => panic!() };
    let ty = format!("({} u8 {} {} {})", if lin { "lin" } else { "sc" }, k.tys.0, k.tys.1, k.tys.2);
    (ty, format!("({} ({} ({} {})))", obj, hist, infl, valid))
}

/// one step of a random history: Some(op) = invoke, None = return
#[derive(Clone, Debug)]
enum Ev<Op, Ret> { Inv(u8, Op), Ret(u8, Ret) }

fn run_testers<O, T>(out: &mut Out, r: &mut Rng, count: usize, k: &ObjKind, lin: bool,
    mk: &dyn Fn(O) -> T, init: &dyn Fn(&mut Rng) -> O, gop: &dyn Fn(&mut Rng) -> O::Op, gret: &dyn Fn(&mut Rng) -> O::Ret)
where
    O: SequentialSpec + Clone,
    O::Op: Clone + std::fmt::Debug,
    O::Ret: Clone + std::fmt::Debug + PartialEq,
    T: ConsistencyTester<u8, O> + std::hash::Hash + PartialEq + Clone + std::fmt::Debug,
{
    let apply = |t: &mut T, evs: &[Ev<O::Op, O::Ret>]| {
        for e in evs {
            let _ = match e { Ev::Inv(th, op) => t.on_invoke(*th, op.clone()).map(|_| ()), Ev::Ret(th, ret) => t.on_return(*th, ret.clone()).map(|_| ()) };
        }
    };
    for c in 0..count {
        let obj = init(r);
        // per-thread programs (alternating invoke/return), then a random interleaving
        let threads = 1 + r.below(3);
        let mut progs: Vec<Vec<Ev<O::Op, O::Ret>>> = (0..threads).map(|t| {
            let n = r.below(5);
            (0..n).map(|i| if i % 2 == 0 { Ev::Inv(t as u8, gop(r)) } else { Ev::Ret(t as u8, gret(r)) }).collect()
        }).collect();
        if r.chance(1, 12) && !progs[0].is_empty() { let e = progs[0][0].clone(); progs[0].insert(0, e); } // protocol error => invalid history
        let interleave = |r: &mut Rng, progs: &Vec<Vec<Ev<O::Op, O::Ret>>>| {
            let mut ps = progs.clone();
            let mut evs = vec![];
            while ps.iter().any(|p| !p.is_empty()) {
                let i = r.below(ps.len());
                if !ps[i].is_empty() { evs.push(ps[i].remove(0)); }
            }
            evs
        };
        let evs = interleave(r, &progs);
        let mut a = mk(obj.clone());
        apply(&mut a, &evs);
        let (ty, va) = tester_sx(&format!("{:?}", a), k, lin);
        let ta = record(&a);
        out.m(&format!("toks {} {} ()", ty, va), &toks_sx(&ta));
        out.distinct(&(ty.clone(), va.clone()));
        // another build: the same events again (linearizability: same interleaving; sequential consistency: ANY interleaving
        // of the same per-thread programs gives the same tester unless the protocol error made the history invalid)
        let evs2 = if lin { evs.clone() } else { interleave(r, &progs) };
        let mut b = mk(obj.clone());
        apply(&mut b, &evs2);
        let (_, vb) = tester_sx(&format!("{:?}", b), k, lin);
        let same = va == vb;
        out.o(&format!("o-pair {} {} {} {} {} {}", ty, va, vb, sx::b(ta == record(&b)), sx::b(a == b), if same { "eq" } else { "any" }));
        out.stat(if same { "tester-rebuilds-equal" } else { "tester-rebuilds-different(invalid-history-cut)" });
        // near pair: one more event, or the same history on another initial object
        let mut w = a.clone();
        let th = r.below(threads + 1) as u8;
        match r.below(3) {
            0 => { let _ = w.on_invoke(th, gop(r)).map(|_| ()); }
            1 => { let _ = w.on_return(th, gret(r)).map(|_| ()); }
            _ => { w = mk(init(r)); apply(&mut w, &evs); }
        }
        // near pair for the linearizability tester: ANOTHER interleaving of the same per-thread programs — the same
        // operations and returns per thread, but (usually) different real-time precedence between threads
        if lin {
            let evs3 = interleave(r, &progs);
            let mut x = mk(obj.clone());
            apply(&mut x, &evs3);
            let (_, vx) = tester_sx(&format!("{:?}", x), k, lin);
            out.m(&format!("toks {} {} ()", ty, vx), &toks_sx(&record(&x)));
            out.o(&format!("o-pair {} {} {} {} {} any", ty, va, vx, sx::b(ta == record(&x)), sx::b(a == x)));
            out.stat(if a == x { "tester-other-interleaving-equal" } else { "tester-other-interleaving-different" });
        }
        let (_, vw) = tester_sx(&format!("{:?}", w), k, lin);
        out.m(&format!("toks {} {} ()", ty, vw), &toks_sx(&record(&w)));
        out.o(&format!("o-pair {} {} {} {} {} any", ty, va, vw, sx::b(ta == record(&w)), sx::b(a == w)));
        out.stat(if a == w { "tester-near-pairs-equal" } else { "tester-near-pairs-different" });
        if c == 0 { out.sample(&format!("toks {} {} => {}", ty, va, toks_sx(&ta))); }
    }
    out.stat_n(&format!("testers {} {}", if lin { "linearizability" } else { "sequential-consistency" }, k.tys.0), count as u64);
}

fn testers(out: &mut Out, r: &mut Rng, n: usize) {
    let v = |r: &mut Rng| r.below(3) as u8;
    let ov = |r: &mut Rng| if r.chance(1, 3) { None } else { Some(r.below(3) as u8) };
    let reg_op = move |r: &mut Rng| if r.chance(1, 2) { RegisterOp::Write(v(r)) } else { RegisterOp::Read };
    let reg_ret = move |r: &mut Rng| if r.chance(1, 2) { RegisterRet::WriteOk } else { RegisterRet::ReadOk(v(r)) };
    let wo_op = move |r: &mut Rng| if r.chance(1, 2) { WORegisterOp::Write(v(r)) } else { WORegisterOp::Read };
    let wo_ret = move |r: &mut Rng| match r.below(3) { 0 => WORegisterRet::WriteOk, 1 => WORegisterRet::WriteFail, _ => WORegisterRet::ReadOk(ov(r)) };
    let vec_op = move |r: &mut Rng| match r.below(3) { 0 => VecOp::Push(v(r)), 1 => VecOp::Pop, _ => VecOp::Len };
    let vec_ret = move |r: &mut Rng| match r.below(3) { 0 => VecRet::PushOk, 1 => VecRet::PopOk(ov(r)), _ => VecRet::LenOk(r.below(3)) };
    run_testers::<Register<u8>, _>(out, r, n, &K_REG, true, &LinearizabilityTester::new, &|r| Register(v(r)), &reg_op, &reg_ret);
    run_testers::<Register<u8>, _>(out, r, n, &K_REG, false, &SequentialConsistencyTester::new, &|r| Register(v(r)), &reg_op, &reg_ret);
    run_testers::<WORegister<u8>, _>(out, r, n, &K_WO, true, &LinearizabilityTester::new, &|r| WORegister(ov(r)), &wo_op, &wo_ret);
    run_testers::<WORegister<u8>, _>(out, r, n, &K_WO, false, &SequentialConsistencyTester::new, &|r| WORegister(ov(r)), &wo_op, &wo_ret);
    run_testers::<Vec<u8>, _>(out, r, n, &K_VEC, true, &LinearizabilityTester::new, &|r| (0..r.below(3)).map(|_| v(r)).collect(), &vec_op, &vec_ret);
    run_testers::<Vec<u8>, _>(out, r, n, &K_VEC, false, &SequentialConsistencyTester::new, &|r| (0..r.below(3)).map(|_| v(r)).collect(), &vec_op, &vec_ret);
}

// ---------------------------------------------------------------- stream 3: reachable states of small actor systems

use stateright::actor::{Actor, ActorModel, LossyNetwork, Out as AOut};
use stateright::{Checker, Expectation, Model};
use std::borrow::Cow;

/// An actor whose handlers are a pseudo-random but deterministic function of (seed, event, state, argument).
#[derive(Clone)]
struct SysActor {
    seed: u64,
    n: usize,
}
fn mix(mut z: u64) -> u64 {
    z = z.wrapping_add(0x9E37_79B9_7F4A_7C15);
    z = (z ^ (z >> 30)).wrapping_mul(0xBF58_476D_1CE4_E5B9);
    z = (z ^ (z >> 27)).wrapping_mul(0x94D0_49BB_1331_11EB);
    z ^ (z >> 31)
}
impl SysActor {
    fn roll(&self, id: Id, kind: u64, s: u8, arg: u64, salt: u64) -> u64 {
        mix(mix(self.seed ^ (usize::from(id) as u64) << 56 ^ kind << 48 ^ (s as u64) << 40 ^ arg << 8 ^ salt))
    }
    fn commands(&self, id: Id, kind: u64, s: u8, arg: u64, o: &mut AOut<Self>) {
        let x = self.roll(id, kind, s, arg, 0);
        for j in 0..(x >> 16) % 3 {
            let y = self.roll(id, kind, s, arg, j + 1);
            let a = (y >> 8) % 2;
            match y % 8 {
                0 | 1 => {
                    // mostly to a peer, sometimes to itself or to an actor that does not exist
                    let dst = (usize::from(id) + 1 + ((y >> 20) % 3) as usize) % (self.n + 1);
                    o.send(Id::from(dst), a as u8)
                }
                2 | 3 => o.set_timer(a as u8, stateright::actor::model_timeout()),
                4 => o.cancel_timer(a as u8),
                5 | 6 => o.choose_random(["a", "b"][a as usize], if (y >> 12) % 2 == 0 { vec![0u8, 1] } else { vec![1u8] }),
                _ => o.remove_random(["a", "b"][a as usize]),
            }
        }
    }
    fn react(&self, id: Id, kind: u64, arg: u64, state: &mut Cow<u8>, o: &mut AOut<Self>) {
        let s = **state;
        let x = self.roll(id, kind, s, arg, 0);
        if x % 4 < 2 {
            *state.to_mut() = ((x >> 8) % 3) as u8;
        }
        if x % 8 != 7 {
            self.commands(id, kind, s, arg, o);
        }
    }
}
impl Actor for SysActor {
    type Msg = u8;
    type State = u8;
    type Timer = u8;
    type Random = u8;
    fn on_start(&self, id: Id, o: &mut AOut<Self>) -> u8 {
        self.commands(id, 0, 0, 0, o);
        (self.roll(id, 0, 0, 0, 99) % 3) as u8
    }
    fn on_msg(&self, id: Id, state: &mut Cow<u8>, src: Id, msg: u8, o: &mut AOut<Self>) {
        self.react(id, 1, (usize::from(src) as u64) * 4 + msg as u64, state, o)
    }
    fn on_timeout(&self, id: Id, state: &mut Cow<u8>, timer: &u8, o: &mut AOut<Self>) {
        self.react(id, 2, *timer as u64, state, o)
    }
    fn on_random(&self, id: Id, state: &mut Cow<u8>, random: &u8, o: &mut AOut<Self>) {
        self.react(id, 3, *random as u64, state, o)
    }
}
type SysState = ActorModelState<SysActor, u8>;

/// canonical structural key of a state, computed without `Hash`/`Eq` of the crate's types:
/// every component that can influence future behaviour, hash tables sorted, choice padding ignored
fn canon_key(st: &SysState) -> String {
    let actors: Vec<u8> = st.actor_states.iter().map(|a| **a).collect();
    let timers: Vec<Vec<u8>> = st
        .timers_set
        .iter()
        .map(|t| {
            let mut v: Vec<u8> = t.iter().cloned().collect();
            v.sort();
            v
        })
        .collect();
    let envk = |e: &Envelope<u8>| (usize::from(e.src), usize::from(e.dst), e.msg);
    let net = match &st.network {
        Network::UnorderedDuplicating(s, last) => {
            let mut v: Vec<_> = s.iter().map(envk).collect();
            v.sort();
            format!("UD{:?}last{:?}", v, last.as_ref().map(envk))
        }
        Network::UnorderedNonDuplicating(m) => {
            let mut v: Vec<_> = m.iter().map(|(e, c)| (envk(e), *c)).collect();
            v.sort();
            format!("UN{:?}", v)
        }
        Network::Ordered(m) => {
            // SEMANTIC content: the queued messages per directed flow; a flow without messages is no content at all (it
            // cannot influence any future behaviour), so `{(0,1): []}` and `{}` are the same network
            let v: Vec<_> = m.iter().filter(|(_, q)| !q.is_empty()).map(|((s, d), q)| (usize::from(*s), usize::from(*d), q.iter().cloned().collect::<Vec<u8>>())).collect();
            format!("OR{:?}", v)
        }
    };
    let mut pending = vec![];
    for (i, c) in st.random_choices.iter().enumerate() {
        if !c.map.is_empty() {
            let mut v: Vec<(String, Vec<u8>)> = c.map.iter().map(|(k, v)| (k.clone(), v.clone())).collect();
            v.sort();
            pending.push((i, v));
        }
    }
    format!("{:?}|{}|{:?}|{}|{:?}|{:?}", actors, st.history, timers, net, st.crashed, pending)
}

fn systems(out: &mut Out, r: &mut Rng, count: usize) {
    let mut done = 0;
    let mut attempts = 0;
    while done < count && attempts < count * 20 {
        attempts += 1;
        let n = 1 + r.below(3);
        let seed = r.next();
        let kind = r.below(3);
        let lossy = r.chance(1, 3);
        let max_crashes = r.below(3);
        let limit = 1 + r.below(3);
        let init_env: Vec<Envelope<u8>> =
            (0..r.below(2)).map(|_| Envelope { src: Id::from(r.below(n)), dst: Id::from(r.below(n)), msg: r.below(2) as u8 }).collect();
        let net = match kind {
            0 => Network::new_unordered_duplicating(init_env),
            1 => Network::new_unordered_nonduplicating(init_env),
            _ => Network::new_ordered(init_env),
        };
        let model = ActorModel::<SysActor, usize, u8>::new(limit, 0)
            .actors((0..n).map(|_| SysActor { seed, n }))
            .init_network(net)
            .lossy_network(if lossy { LossyNetwork::Yes } else { LossyNetwork::No })
            .max_crashes(max_crashes)
            .record_msg_in(|_, h, env| if *env.msg == 0 { Some((h + 1) % 3) } else { None })
            .record_msg_out(|_, h, env| if *env.msg == 1 && *h == 0 { Some(2) } else { None })
            .within_boundary(|limit, st| st.network.len() <= *limit)
            .property(Expectation::Always, "true", |_, _| true);
        let desc = format!("n={} seed={} net={} lossy={} max_crashes={} limit={}", n, seed, kind, lossy, max_crashes, limit);

        // independent walk of the Model trait with the canonical structural key
        let cap = 6000;
        let mut seen: BTreeMap<String, SysState> = BTreeMap::new();
        let mut queue: VecDeque<SysState> = VecDeque::new();
        for s in model.init_states() {
            if Model::within_boundary(&model, &s) && !seen.contains_key(&canon_key(&s)) {
                seen.insert(canon_key(&s), s.clone());
                queue.push_back(s);
            }
        }
        let mut too_big = false;
        while let Some(s) = queue.pop_front() {
            let mut acts = vec![];
            model.actions(&s, &mut acts);
            for a in acts {
                if let Some(t) = model.next_state(&s, a) {
                    if !Model::within_boundary(&model, &t) {
                        continue;
                    }
                    let k = canon_key(&t);
                    if !seen.contains_key(&k) {
                        seen.insert(k, t.clone());
                        queue.push_back(t);
                    }
                }
            }
            if seen.len() > cap {
                too_big = true;
                break;
            }
        }
        if too_big {
            out.stat("systems-skipped-too-large");
            continue;
        }
        done += 1;
        let expected = seen.len();
        let checker = model.clone().checker().threads(1).spawn_bfs().join();
        let unique = checker.unique_state_count();
        out.stat("systems");
        out.stat_n("system-states-total", expected as u64);
        out.stat(&format!("system-size-{}", match expected { 0..=1 => "1", 2..=9 => "2..9", 10..=99 => "10..99", 100..=999 => "100..999", _ => ">=1000" }));
        out.stat(&format!("system-net-{}", ["unordered-dup", "unordered-nondup", "ordered"][kind]));
        let states: Vec<&SysState> = seen.values().collect();
        if states.iter().any(|s| s.crashed.iter().any(|c| *c)) { out.stat("systems-with-crashed-states"); }
        if states.iter().any(|s| s.random_choices.iter().any(|c| !c.map.is_empty())) { out.stat("systems-with-pending-choices"); }
        if states.iter().any(|s| s.timers_set.iter().any(|t| t.iter().count() > 0)) { out.stat("systems-with-timers"); }
        if unique != expected {
            out.v("unique-state-count", &format!("system {}: BFS unique_state_count={} but {} structurally distinct reachable states", desc, unique, expected));
        }
        out.distinct(&("system", desc.clone()));
        if done <= 2 { out.sample(&format!("system {} => {} reachable states, BFS unique={}", desc, expected, unique)); }
        // the reachable states themselves through the model, and pairs of them through the oracle
        let ty = state_ty::<SysActor, u8>();
        let pick = 4.min(states.len());
        for _ in 0..pick {
            let a = states[r.below(states.len())];
            let b = states[r.below(states.len())];
            let mut g = Graph::new();
            state_graph(a, &mut g);
            let ta = record(a);
            out.m(&format!("toks {} {} {}", ty, state_sx(a), graph_sx(&g)), &toks_sx(&ta));
            let se = ta == record(b);
            let ie = a == b;
            let same_key = canon_key(a) == canon_key(b);
            out.o(&format!("o-pair {} {} {} {} {} {}", ty, state_sx(a), state_sx(b), srh::sx::b(se), srh::sx::b(ie), if same_key { "eq" } else { "any" }));
            if se && !same_key { out.v("reachable-collision", &format!("system {}: two structurally distinct reachable states feed equal streams: {} / {}", desc, state_sx(a), state_sx(b))); }
            out.stat("reachable-state-pairs");
        }
    }
}

type St1 = ActorModelState<GA<u8, u8, u8, u8>, u8>;
type St2 = ActorModelState<GA<(u8, Vec<Id>), (Id, String), (), Id>, Vec<Envelope<u8>>>;
type St3 = ActorModelState<GA<HashableHashSet<u8>, String, String, (u8, u8)>, ()>;
type St4 = ActorModelState<GA<VectorClock, Option<u8>, Id, Vec<u8>>, HashableHashMap<Id, u8>>;

fn main() {
    if std::env::var("C04_LOUD").is_err() { quiet_panics(); }
    let mut out = Out::new();
    out.max_samples = 12;
    let mut r = Rng::new(seed());
    let k = if thorough() { 36 } else { 3 };
    macro_rules! go { ($n:expr; $($t:ty),* $(,)?) => { $( run::<$t>(&mut out, &mut r, $n * k); )* } }
    // scalars and std containers
    go!(10; u8, u32, u64, usize, bool, (), String, Id, Option<u8>, Option<String>, (u8, u32), (String, String),
        (Option<u8>, Option<u8>), ((), u8));
    go!(30; Vec<u8>, Vec<u32>, Vec<u64>, Vec<usize>, Vec<bool>, Vec<Id>, Vec<String>, Vec<()>, Vec<(u8, u8)>,
        Vec<Option<u8>>, Vec<Vec<u8>>, VecDeque<u8>, VecDeque<String>, VecDeque<Vec<u8>>, BTreeMap<u8, u8>,
        BTreeMap<String, Vec<u8>>, BTreeMap<(Id, Id), VecDeque<u8>>, BTreeSet<u8>, BTreeSet<Id>, BTreeSet<String>,
        (Vec<u8>, Vec<u8>), (Vec<String>, Vec<String>), (BTreeSet<u8>, BTreeSet<u8>), (String, Vec<u8>),
        Vec<BTreeSet<u8>>, Vec<VecDeque<u8>>, DenseNatMap<Id, u8>, DenseNatMap<Id, String>, DenseNatMap<Id, Id>,
        DenseNatMap<Id, Vec<u8>>, (DenseNatMap<Id, u8>, DenseNatMap<Id, u8>));
    // the crate's hashable collections, nested and side by side
    go!(60; HashableHashSet<u8>, HashableHashSet<String>, HashableHashSet<Id>, HashableHashSet<()>,
        HashableHashSet<u8, StdRS>, HashableHashSet<(u8, String)>, HashableHashSet<Option<u8>>,
        HashableHashSet<Vec<u8>>, HashableHashSet<HashableHashSet<u8>>, HashableHashSet<BTreeSet<u8>>,
        HashableHashMap<u8, u8>, HashableHashMap<String, Vec<u8>>, HashableHashMap<u8, u8, StdRS>,
        HashableHashMap<Id, HashableHashSet<u8>>, HashableHashMap<u8, HashableHashMap<u8, u8>>,
        HashableHashMap<Vec<u8>, Vec<u8>>, HashableHashMap<String, String>,
        (HashableHashSet<u8>, HashableHashSet<u8>), (HashableHashSet<String>, HashableHashSet<String>),
        (HashableHashMap<u8, u8>, HashableHashMap<u8, u8>), (HashableHashSet<u8>, HashableHashSet<u8>, HashableHashSet<u8>),
        (HashableHashSet<u8>, Vec<u64>), (HashableHashSet<u64>, HashableHashSet<u64>),
        Vec<HashableHashSet<u8>>, Vec<HashableHashSet<u64>>, Vec<HashableHashMap<u8, u8>>, VecDeque<HashableHashSet<u8>>,
        Option<HashableHashSet<u8>>, BTreeMap<u8, HashableHashSet<u8>>, Vec<Vec<HashableHashSet<u8>>>,
        HashableHashSet<(HashableHashSet<u8>, HashableHashSet<u8>)>, Vec<(HashableHashSet<u8>, HashableHashMap<u8, u8>)>);
    // timers, clocks, envelopes, networks, choices
    go!(60; Timers<u8>, Timers<()>, Timers<String>, Timers<Id>, Vec<Timers<u8>>, Vec<Timers<()>>, Vec<Timers<String>>,
        (Timers<u8>, Timers<u8>), VectorClock, Vec<VectorClock>, (VectorClock, VectorClock), HashableHashSet<VectorClock>,
        (VectorClock, Vec<u32>), Envelope<u8>, Envelope<String>, Vec<Envelope<Id>>, Network<u8>, Network<String>, Network<Id>,
        Network<(u8, Id)>, Network<Vec<u8>>, Network<Option<u8>>, (Network<u8>, Network<u8>), Vec<Network<u8>>,
        HashableHashMap<String, Vec<u8>>, HashableHashMap<String, Vec<Id>>, Vec<HashableHashMap<String, Vec<u8>>>);
    // actor-system states
    go!(250; St1, St2, St3, St4);
    testers(&mut out, &mut r, 150 * k);
    systems(&mut out, &mut r, 120 * k);
    out.finish();
}
