//! C04 — state identity: implementation side.
//! Stream 1: values of the hashable universe, each built several ways; the recorded `write_*` calls must be
//!           the model's token stream (M) and all builds of one logical value must agree (O, expectation `eq`).
//! Stream 2: near pairs (one small change); recorded streams equal <=> semantically equal <=> `==` (O).
//! Stream 3: reachable states of small actor systems: BFS `unique_state_count` against an independent
//!           structural count (V on mismatch), plus M/O cases on the reachable states themselves.
use srh::hash_util::*;
use srh::out::*;
use srh::rec::{record, toks_sx};
use srh::rng::Rng;
use stateright::actor::{ActorModelState, Envelope, Id, Network};
use stateright::util::{DenseNatMap, HashableHashMap, HashableHashSet, VectorClock};
use std::collections::{BTreeMap, BTreeSet, VecDeque};

type StdRS = std::collections::hash_map::RandomState;

fn m_case<T: U>(out: &mut Out, x: &T) -> Vec<srh::rec::Tok> {
    let t = record(x);
    out.m(&format!("toks {} {} {}", T::ty(), x.sx(), graph_sx(&full_graph(x))), &toks_sx(&t));
    t
}
fn o_pair<T: U>(out: &mut Out, a: &T, b: &T, want: &str) -> (bool, bool) {
    let se = record(a) == record(b);
    let ie = a == b;
    out.o(&format!("o-pair {} {} {} {} {} {}", T::ty(), a.sx(), b.sx(), srh::sx::b(se), srh::sx::b(ie), want));
    (se, ie)
}

fn run<T: U>(out: &mut Out, r: &mut Rng, n: usize) {
    let ty = T::ty();
    for i in 0..n {
        let v = T::gen(r, 3);
        let t0 = m_case(out, &v);
        out.distinct(&(ty.clone(), v.sx()));
        // several builds of the same logical value
        for _ in 0..2 {
            let b = v.rebuild(r);
            let t = m_case(out, &b);
            let (se, ie) = o_pair(out, &v, &b, "eq");
            out.stat("rebuilds");
            if b.sx() != v.sx() { out.stat("rebuilds-with-different-iteration-order-or-padding"); }
            if !se || !ie || t != t0 { out.stat("rebuilds-DIFFERING"); }
        }
        // near pairs
        for _ in 0..2 {
            let w = v.mutate(r).rebuild(r);
            m_case(out, &w);
            let (se, ie) = o_pair(out, &v, &w, "any");
            out.stat(if ie { "near-pairs-equal" } else { "near-pairs-different" });
            if se != ie { out.stat("near-pairs-stream-vs-eq-DISAGREE"); }
            out.distinct(&(ty.clone(), v.sx(), w.sx()));
        }
        // an unrelated pair
        if i % 4 == 0 {
            let w = T::gen(r, 3);
            o_pair(out, &v, &w, "any");
        }
        if i == 0 { out.sample(&format!("toks {} {} => {}", ty, v.sx(), toks_sx(&t0))); }
    }
    out.stat_n(&format!("type {}", if ty.len() > 60 { &ty[..60] } else { &ty }), n as u64);
}


// ---------------------------------------------------------------- stream 3: reachable states of small actor systems

use stateright::actor::{Actor, ActorModel, LossyNetwork, Out as AOut};
use stateright::{Checker, Expectation, Model};
use std::borrow::Cow;

/// An actor whose handlers are a pseudo-random but deterministic function of (seed, event, state, argument).
#[derive(Clone)]
struct SysActor {
    seed: u64,
    n: usize,
}
fn mix(mut z: u64) -> u64 {
    z = z.wrapping_add(0x9E37_79B9_7F4A_7C15);
    z = (z ^ (z >> 30)).wrapping_mul(0xBF58_476D_1CE4_E5B9);
    z = (z ^ (z >> 27)).wrapping_mul(0x94D0_49BB_1331_11EB);
    z ^ (z >> 31)
}
impl SysActor {
    fn roll(&self, id: Id, kind: u64, s: u8, arg: u64, salt: u64) -> u64 {
        mix(mix(self.seed ^ (usize::from(id) as u64) << 56 ^ kind << 48 ^ (s as u64) << 40 ^ arg << 8 ^ salt))
    }
    fn commands(&self, id: Id, kind: u64, s: u8, arg: u64, o: &mut AOut<Self>) {
        let x = self.roll(id, kind, s, arg, 0);
        for j in 0..(x >> 16) % 3 {
            let y = self.roll(id, kind, s, arg, j + 1);
            let a = (y >> 8) % 2;
            match y % 8 {
                0 | 1 => {
                    // mostly to a peer, sometimes to itself or to an actor that does not exist
                    let dst = (usize::from(id) + 1 + ((y >> 20) % 3) as usize) % (self.n + 1);
                    o.send(Id::from(dst), a as u8)
                }
                2 | 3 => o.set_timer(a as u8, stateright::actor::model_timeout()),
                4 => o.cancel_timer(a as u8),
                5 | 6 => o.choose_random(["a", "b"][a as usize], if (y >> 12) % 2 == 0 { vec![0u8, 1] } else { vec![1u8] }),
                _ => o.remove_random(["a", "b"][a as usize]),
            }
        }
    }
    fn react(&self, id: Id, kind: u64, arg: u64, state: &mut Cow<u8>, o: &mut AOut<Self>) {
        let s = **state;
        let x = self.roll(id, kind, s, arg, 0);
        if x % 4 < 2 {
            *state.to_mut() = ((x >> 8) % 3) as u8;
        }
        if x % 8 != 7 {
            self.commands(id, kind, s, arg, o);
        }
    }
}
impl Actor for SysActor {
    type Msg = u8;
    type State = u8;
    type Timer = u8;
    type Random = u8;
    fn on_start(&self, id: Id, o: &mut AOut<Self>) -> u8 {
        self.commands(id, 0, 0, 0, o);
        (self.roll(id, 0, 0, 0, 99) % 3) as u8
    }
    fn on_msg(&self, id: Id, state: &mut Cow<u8>, src: Id, msg: u8, o: &mut AOut<Self>) {
        self.react(id, 1, (usize::from(src) as u64) * 4 + msg as u64, state, o)
    }
    fn on_timeout(&self, id: Id, state: &mut Cow<u8>, timer: &u8, o: &mut AOut<Self>) {
        self.react(id, 2, *timer as u64, state, o)
    }
    fn on_random(&self, id: Id, state: &mut Cow<u8>, random: &u8, o: &mut AOut<Self>) {
        self.react(id, 3, *random as u64, state, o)
    }
}
type SysState = ActorModelState<SysActor, u8>;

/// canonical structural key of a state, computed without `Hash`/`Eq` of the crate's types:
/// every component that can influence future behaviour, hash tables sorted, choice padding ignored
fn canon_key(st: &SysState) -> String {
    let actors: Vec<u8> = st.actor_states.iter().map(|a| **a).collect();
    let timers: Vec<Vec<u8>> = st
        .timers_set
        .iter()
        .map(|t| {
            let mut v: Vec<u8> = t.iter().cloned().collect();
            v.sort();
            v
        })
        .collect();
    let envk = |e: &Envelope<u8>| (usize::from(e.src), usize::from(e.dst), e.msg);
    let net = match &st.network {
        Network::UnorderedDuplicating(s, last) => {
            let mut v: Vec<_> = s.iter().map(envk).collect();
            v.sort();
            format!("UD{:?}last{:?}", v, last.as_ref().map(envk))
        }
        Network::UnorderedNonDuplicating(m) => {
            let mut v: Vec<_> = m.iter().map(|(e, c)| (envk(e), *c)).collect();
            v.sort();
            format!("UN{:?}", v)
        }
        Network::Ordered(m) => {
            let v: Vec<_> = m.iter().map(|((s, d), q)| (usize::from(*s), usize::from(*d), q.iter().cloned().collect::<Vec<u8>>())).collect();
            format!("OR{:?}", v)
        }
    };
    let mut pending = vec![];
    for (i, c) in st.random_choices.iter().enumerate() {
        if !c.map.is_empty() {
            let mut v: Vec<(String, Vec<u8>)> = c.map.iter().map(|(k, v)| (k.clone(), v.clone())).collect();
            v.sort();
            pending.push((i, v));
        }
    }
    format!("{:?}|{}|{:?}|{}|{:?}|{:?}", actors, st.history, timers, net, st.crashed, pending)
}

fn systems(out: &mut Out, r: &mut Rng, count: usize) {
    let mut done = 0;
    let mut attempts = 0;
    while done < count && attempts < count * 20 {
        attempts += 1;
        let n = 1 + r.below(3);
        let seed = r.next();
        let kind = r.below(3);
        let lossy = r.chance(1, 3);
        let max_crashes = r.below(3);
        let limit = 1 + r.below(3);
        let init_env: Vec<Envelope<u8>> =
            (0..r.below(2)).map(|_| Envelope { src: Id::from(r.below(n)), dst: Id::from(r.below(n)), msg: r.below(2) as u8 }).collect();
        let net = match kind {
            0 => Network::new_unordered_duplicating(init_env),
            1 => Network::new_unordered_nonduplicating(init_env),
            _ => Network::new_ordered(init_env),
        };
        let model = ActorModel::<SysActor, usize, u8>::new(limit, 0)
            .actors((0..n).map(|_| SysActor { seed, n }))
            .init_network(net)
            .lossy_network(if lossy { LossyNetwork::Yes } else { LossyNetwork::No })
            .max_crashes(max_crashes)
            .record_msg_in(|_, h, env| if *env.msg == 0 { Some((h + 1) % 3) } else { None })
            .record_msg_out(|_, h, env| if *env.msg == 1 && *h == 0 { Some(2) } else { None })
            .within_boundary(|limit, st| st.network.len() <= *limit)
            .property(Expectation::Always, "true", |_, _| true);
        let desc = format!("n={} seed={} net={} lossy={} max_crashes={} limit={}", n, seed, kind, lossy, max_crashes, limit);

        // independent walk of the Model trait with the canonical structural key
        let cap = 6000;
        let mut seen: BTreeMap<String, SysState> = BTreeMap::new();
        let mut queue: VecDeque<SysState> = VecDeque::new();
        for s in model.init_states() {
            if Model::within_boundary(&model, &s) && !seen.contains_key(&canon_key(&s)) {
                seen.insert(canon_key(&s), s.clone());
                queue.push_back(s);
            }
        }
        let mut too_big = false;
        while let Some(s) = queue.pop_front() {
            let mut acts = vec![];
            model.actions(&s, &mut acts);
            for a in acts {
                if let Some(t) = model.next_state(&s, a) {
                    if !Model::within_boundary(&model, &t) {
                        continue;
                    }
                    let k = canon_key(&t);
                    if !seen.contains_key(&k) {
                        seen.insert(k, t.clone());
                        queue.push_back(t);
                    }
                }
            }
            if seen.len() > cap {
                too_big = true;
                break;
            }
        }
        if too_big {
            out.stat("systems-skipped-too-large");
            continue;
        }
        done += 1;
        let expected = seen.len();
        let checker = model.clone().checker().threads(1).spawn_bfs().join();
        let unique = checker.unique_state_count();
        out.stat("systems");
        out.stat_n("system-states-total", expected as u64);
        out.stat(&format!("system-size-{}", match expected { 0..=1 => "1", 2..=9 => "2..9", 10..=99 => "10..99", 100..=999 => "100..999", _ => ">=1000" }));
        out.stat(&format!("system-net-{}", ["unordered-dup", "unordered-nondup", "ordered"][kind]));
        let states: Vec<&SysState> = seen.values().collect();
        if states.iter().any(|s| s.crashed.iter().any(|c| *c)) { out.stat("systems-with-crashed-states"); }
        if states.iter().any(|s| s.random_choices.iter().any(|c| !c.map.is_empty())) { out.stat("systems-with-pending-choices"); }
        if states.iter().any(|s| s.timers_set.iter().any(|t| t.iter().count() > 0)) { out.stat("systems-with-timers"); }
        if unique != expected {
            out.v("unique-state-count", &format!("system {}: BFS unique_state_count={} but {} structurally distinct reachable states", desc, unique, expected));
        }
        out.distinct(&("system", desc.clone()));
        if done <= 2 { out.sample(&format!("system {} => {} reachable states, BFS unique={}", desc, expected, unique)); }
        // the reachable states themselves through the model, and pairs of them through the oracle
        let ty = state_ty::<SysActor, u8>();
        let pick = 4.min(states.len());
        for _ in 0..pick {
            let a = states[r.below(states.len())];
            let b = states[r.below(states.len())];
            let mut g = Graph::new();
            state_graph(a, &mut g);
            let ta = record(a);
            out.m(&format!("toks {} {} {}", ty, state_sx(a), graph_sx(&g)), &toks_sx(&ta));
            let se = ta == record(b);
            let ie = a == b;
            let same_key = canon_key(a) == canon_key(b);
            out.o(&format!("o-pair {} {} {} {} {} {}", ty, state_sx(a), state_sx(b), srh::sx::b(se), srh::sx::b(ie), if same_key { "eq" } else { "any" }));
            if se && !same_key { out.v("reachable-collision", &format!("system {}: two structurally distinct reachable states feed equal streams: {} / {}", desc, state_sx(a), state_sx(b))); }
            out.stat("reachable-state-pairs");
        }
    }
}

type St1 = ActorModelState<GA<u8, u8, u8, u8>, u8>;
type St2 = ActorModelState<GA<(u8, Vec<Id>), (Id, String), (), Id>, Vec<Envelope<u8>>>;
type St3 = ActorModelState<GA<HashableHashSet<u8>, String, String, (u8, u8)>, ()>;
type St4 = ActorModelState<GA<VectorClock, Option<u8>, Id, Vec<u8>>, HashableHashMap<Id, u8>>;

fn main() {
    if std::env::var("C04_LOUD").is_err() { quiet_panics(); }
    let mut out = Out::new();
    out.max_samples = 12;
    let mut r = Rng::new(seed());
    let k = if thorough() { 12 } else { 1 };
    macro_rules! go { ($n:expr; $($t:ty),* $(,)?) => { $( run::<$t>(&mut out, &mut r, $n * k); )* } }
    // scalars and std containers
    go!(10; u8, u32, u64, usize, bool, (), String, Id, Option<u8>, Option<String>, (u8, u32), (String, String),
        (Option<u8>, Option<u8>), ((), u8));
    go!(30; Vec<u8>, Vec<u32>, Vec<u64>, Vec<usize>, Vec<bool>, Vec<Id>, Vec<String>, Vec<()>, Vec<(u8, u8)>,
        Vec<Option<u8>>, Vec<Vec<u8>>, VecDeque<u8>, VecDeque<String>, VecDeque<Vec<u8>>, BTreeMap<u8, u8>,
        BTreeMap<String, Vec<u8>>, BTreeMap<(Id, Id), VecDeque<u8>>, BTreeSet<u8>, BTreeSet<Id>, BTreeSet<String>,
        (Vec<u8>, Vec<u8>), (Vec<String>, Vec<String>), (BTreeSet<u8>, BTreeSet<u8>), (String, Vec<u8>),
        Vec<BTreeSet<u8>>, Vec<VecDeque<u8>>, DenseNatMap<Id, u8>, DenseNatMap<Id, String>, DenseNatMap<Id, Id>,
        DenseNatMap<Id, Vec<u8>>, (DenseNatMap<Id, u8>, DenseNatMap<Id, u8>));
    // the crate's hashable collections, nested and side by side
    go!(60; HashableHashSet<u8>, HashableHashSet<String>, HashableHashSet<Id>, HashableHashSet<()>,
        HashableHashSet<u8, StdRS>, HashableHashSet<(u8, String)>, HashableHashSet<Option<u8>>,
        HashableHashSet<Vec<u8>>, HashableHashSet<HashableHashSet<u8>>, HashableHashSet<BTreeSet<u8>>,
        HashableHashMap<u8, u8>, HashableHashMap<String, Vec<u8>>, HashableHashMap<u8, u8, StdRS>,
        HashableHashMap<Id, HashableHashSet<u8>>, HashableHashMap<u8, HashableHashMap<u8, u8>>,
        HashableHashMap<Vec<u8>, Vec<u8>>, HashableHashMap<String, String>,
        (HashableHashSet<u8>, HashableHashSet<u8>), (HashableHashSet<String>, HashableHashSet<String>),
        (HashableHashMap<u8, u8>, HashableHashMap<u8, u8>), (HashableHashSet<u8>, HashableHashSet<u8>, HashableHashSet<u8>),
        (HashableHashSet<u8>, Vec<u64>), (HashableHashSet<u64>, HashableHashSet<u64>),
        Vec<HashableHashSet<u8>>, Vec<HashableHashSet<u64>>, Vec<HashableHashMap<u8, u8>>, VecDeque<HashableHashSet<u8>>,
        Option<HashableHashSet<u8>>, BTreeMap<u8, HashableHashSet<u8>>, Vec<Vec<HashableHashSet<u8>>>,
        HashableHashSet<(HashableHashSet<u8>, HashableHashSet<u8>)>, Vec<(HashableHashSet<u8>, HashableHashMap<u8, u8>)>);
    // timers, clocks, envelopes, networks, choices
    go!(60; Timers<u8>, Timers<()>, Timers<String>, Timers<Id>, Vec<Timers<u8>>, Vec<Timers<()>>, Vec<Timers<String>>,
        (Timers<u8>, Timers<u8>), VectorClock, Vec<VectorClock>, (VectorClock, VectorClock), HashableHashSet<VectorClock>,
        (VectorClock, Vec<u32>), Envelope<u8>, Envelope<String>, Vec<Envelope<Id>>, Network<u8>, Network<String>, Network<Id>,
        Network<(u8, Id)>, Network<Vec<u8>>, Network<Option<u8>>, (Network<u8>, Network<u8>), Vec<Network<u8>>,
        HashableHashMap<String, Vec<u8>>, HashableHashMap<String, Vec<Id>>, Vec<HashableHashMap<String, Vec<u8>>>);
    // actor-system states
    go!(250; St1, St2, St3, St4);
    systems(&mut out, &mut r, 120 * k);
    out.finish();
}
