use stateright::actor::*;
use stateright::*;
use std::borrow::Cow;
use std::sync::{Arc, Mutex};
#[derive(Clone)]
struct A;
impl Actor for A {
    type Msg = (); type State = u8; type Timer = u8; type Random = ();
    fn on_start(&self, _id: Id, o: &mut Out<Self>) -> u8 {
        for t in 1..=4u8 { o.set_timer(t, model_timeout()); }
        0
    }
    fn on_timeout(&self, _id: Id, state: &mut Cow<u8>, timer: &u8, _o: &mut Out<Self>) {
        if **state == 0 { *state.to_mut() = *timer; }
    }
}
fn first_fired(seed: u64) -> Vec<u8> {
    let seen: Arc<Mutex<Vec<u8>>> = Arc::new(Mutex::new(vec![]));
    let s2 = seen.clone();
    let _ = ActorModel::new((), ()).actor(A)
        .property(Expectation::Always, "true", |_, _| true)
        .checker().threads(1).target_state_count(3).target_max_depth(3)
        .visitor(move |p: Path<ActorModelState<A, ()>, ActorModelAction<(), u8, ()>>| {
            let st = p.last_state();
            s2.lock().unwrap().push(*st.actor_states[0]);
        })
        .spawn_simulation(seed, UniformChooser).join();
    let v = seen.lock().unwrap().clone();
    v
}
fn main() {
    let mut diff = 0;
    for seed in 0..40u64 {
        let a = first_fired(seed);
        let b = first_fired(seed);
        if a.get(1) != b.get(1) { diff += 1; println!("seed {}: {:?} vs {:?}", seed, &a[..a.len().min(3)], &b[..b.len().min(3)]); }
    }
    println!("differing replays: {}/40", diff);
}
