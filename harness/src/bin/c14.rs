//! C14 — sequential-consistency tester: implementation side of the correspondence + oracle inputs.
//! Same generators as C08, run through BOTH testers (model: `sc-run`, `lin-run`; oracle: brute-force
//! definition check for each verdict and returned serialization, inclusion lin ⇒ sc), plus
//! clone-and-extend: a tester is cloned mid-history, original and clone are extended differently and
//! each is compared with the model; the original's observable content must not move when the clone is
//! extended and vice versa.
use srh::out::*;
use srh::rng::Rng;
use srh::sem_util::*;
use stateright::semantics::register::Register;
use stateright::semantics::write_once_register::WORegister;
use stateright::semantics::{LinearizabilityTester, SequentialConsistencyTester};
use std::fmt::Debug;

/// split a history at a random point; extend original with the real tail, the clone with another tail
fn fork_case<O>(out: &mut Out, r: &mut Rng, init: &O)
where
    O: Wire,
    O::Op: Clone + Debug,
    O::Ret: Clone + Debug + PartialEq,
{
    let h = gen_history(r, init, 4, 9, 1, 2);
    let k = r.below(h.len() + 1);
    let (pre, ext_a) = h.split_at(k);
    let h2 = gen_history(r, init, 4, 6, 1, 2);
    let ext_b: Vec<CallOf<O>> = if r.chance(1, 2) { h2 } else { h2.into_iter().rev().collect() };
    let obj = init.obj_sx();
    let full = |ext: &[CallOf<O>]| { let mut v = pre.to_vec(); v.extend_from_slice(ext); v };
    // --- sequential consistency tester
    {
        let mut orig = SequentialConsistencyTester::new(init.clone());
        let rs_pre = drive::<O, _>(&mut orig, pre);
        let before = sc_summary(&orig).2;
        let mut clone = orig.clone();
        let rs_b = drive::<O, _>(&mut clone, &ext_b);
        let mid = sc_summary(&orig).2;
        if mid != before { out.v("value-semantics", &format!("sc: extending a clone changed the original: {} pre={} extB={}", obj, calls_sx::<O>(pre), calls_sx::<O>(&ext_b))); }
        let clone_after_b = sc_summary(&clone).2;
        let rs_a = drive::<O, _>(&mut orig, ext_a);
        let clone_later = sc_summary(&clone).2;
        if clone_later != clone_after_b { out.v("value-semantics", &format!("sc: extending the original changed the clone: {} pre={} extA={}", obj, calls_sx::<O>(pre), calls_sx::<O>(ext_a))); }
        let orig_after = sc_summary(&orig).2;
        let j = |a: &[String], b: &[String]| { let mut v = a.to_vec(); v.extend_from_slice(b); v.join(" | ") };
        out.m(&format!("sc-run n {} {}", obj, calls_sx::<O>(pre)), &format!("{} ;; {}", rs_pre.join(" | "), before));
        out.m(&format!("sc-run n {} {}", obj, calls_sx::<O>(&full(ext_a))), &format!("{} ;; {}", j(&rs_pre, &rs_a), orig_after));
        out.m(&format!("sc-run n {} {}", obj, calls_sx::<O>(&full(&ext_b))), &format!("{} ;; {}", j(&rs_pre, &rs_b), clone_after_b));
        out.stat("fork-sc");
        if clone_after_b != orig_after { out.stat("fork-sc-diverged"); }
    }
    // --- linearizability tester
    {
        let mut orig = LinearizabilityTester::new(init.clone());
        let rs_pre = drive::<O, _>(&mut orig, pre);
        let before = lin_summary(&orig).2;
        let mut clone = orig.clone();
        let rs_b = drive::<O, _>(&mut clone, &ext_b);
        let mid = lin_summary(&orig).2;
        if mid != before { out.v("value-semantics", &format!("lin: extending a clone changed the original: {} pre={} extB={}", obj, calls_sx::<O>(pre), calls_sx::<O>(&ext_b))); }
        let clone_after_b = lin_summary(&clone).2;
        let rs_a = drive::<O, _>(&mut orig, ext_a);
        let clone_later = lin_summary(&clone).2;
        if clone_later != clone_after_b { out.v("value-semantics", &format!("lin: extending the original changed the clone: {} pre={} extA={}", obj, calls_sx::<O>(pre), calls_sx::<O>(ext_a))); }
        let orig_after = lin_summary(&orig).2;
        let j = |a: &[String], b: &[String]| { let mut v = a.to_vec(); v.extend_from_slice(b); v.join(" | ") };
        out.m(&format!("lin-run n {} {}", obj, calls_sx::<O>(pre)), &format!("{} ;; {}", rs_pre.join(" | "), before));
        out.m(&format!("lin-run n {} {}", obj, calls_sx::<O>(&full(ext_a))), &format!("{} ;; {}", j(&rs_pre, &rs_a), orig_after));
        out.m(&format!("lin-run n {} {}", obj, calls_sx::<O>(&full(&ext_b))), &format!("{} ;; {}", j(&rs_pre, &rs_b), clone_after_b));
        out.stat("fork-lin");
        if clone_after_b != orig_after { out.stat("fork-lin-diverged"); }
    }
    out.stat(&format!("fork-split-at-{}", if k == 0 { "start" } else if k == h.len() { "end" } else { "middle" }));
    out.distinct(&(9u8, obj, calls_sx::<O>(pre), calls_sx::<O>(ext_a), calls_sx::<O>(&ext_b)));
}

fn main() {
    quiet_panics();
    let mut out = Out::new();
    let mut r = Rng::new(seed());
    let th = thorough();
    let init = Register(0u8);
    let (nth, len) = if th { (3, 5) } else { (3, 4) };
    let mut n = 0u64;
    exhaustive_register(nth, len, &mut |h| {
        n += 1;
        // thorough: the 5-event layer goes through the sequential-consistency tester only (C08 covers the other)
        emit_history(&mut out, &init, h, if h.len() >= 5 { 2 } else { 3 }, "x-");
        if n % 20000 == 1 { out.sample(&format!("exhaustive: (reg 0) {}", calls_sx::<Register<u8>>(h))); }
    });
    seeded(&mut out, &mut r, arg_u64("--n", if th { 80_000 } else { 8_000 }) as usize, 3);
    let forks = arg_u64("--forks", if th { 15_000 } else { 2_000 });
    for i in 0..forks {
        match i % 3 {
            0 => { let v = r.below(3) as u8; fork_case(&mut out, &mut r, &Register(v)) }
            1 => fork_case(&mut out, &mut r, &WORegister::<u8>(None)),
            _ => fork_case(&mut out, &mut r, &Vec::<u8>::new()),
        }
    }
    out.finish();
}
