//! C10 (c): DFS with symmetry reduction on symmetric models, exact correspondence with the checker machine
//! (key = representative) + the reduction oracle (verdicts as unreduced, a state per class, never more states,
//! paths are executions of the ORIGINAL model).
//! `SymModel`: k identical processes with m local states and a shared local transition table, interleaving
//! semantics; a global state is the vector of local states (encoded base m); the symmetry group permutes the
//! processes; `representative` sorts the vector.  Boundary and property conditions are tables over the
//! representative, hence invariant by construction.
use srh::out::*;
use srh::rng::Rng;
use stateright::{Checker, Expectation, Model, Property, Representative};
use std::collections::BTreeMap;
use std::panic::{catch_unwind, AssertUnwindSafe};
use std::sync::{Arc, Mutex};

#[derive(Clone, Debug, Hash, PartialEq, Eq, PartialOrd, Ord)]
struct SymSt { idx: u16, m: u8, k: u8 }

fn digits(idx: u16, m: u8, k: u8) -> Vec<u8> {
    let mut v = vec![]; let mut x = idx as usize;
    for _ in 0..k { v.push((x % m as usize) as u8); x /= m as usize; }
    v
}
fn encode(d: &[u8], m: u8) -> u16 {
    let mut x = 0usize; for (i, v) in d.iter().enumerate() { x += (*v as usize) * (m as usize).pow(i as u32); } x as u16
}
fn rep_idx(idx: u16, m: u8, k: u8) -> u16 { let mut d = digits(idx, m, k); d.sort(); encode(&d, m) }

impl Representative for SymSt {
    fn representative(&self) -> Self { SymSt { idx: rep_idx(self.idx, self.m, self.k), m: self.m, k: self.k } }
}

#[derive(Clone)]
struct SymModel {
    m: u8, k: u8,
    local: Vec<Vec<Option<u8>>>, // local state -> local actions -> next local state (None = ignored)
    init: Vec<u16>,
    bnd_rep: Vec<bool>,          // indexed by global idx, constant on classes
    props: Vec<(char, Vec<bool>)>, // tables indexed by global idx, constant on classes
}
const NAMES: [&str; 4] = ["p0", "p1", "p2", "p3"];
fn cond<const K: usize>(m: &SymModel, s: &SymSt) -> bool { m.props[K].1[s.idx as usize] }
const CONDS: [fn(&SymModel, &SymSt) -> bool; 4] = [cond::<0>, cond::<1>, cond::<2>, cond::<3>];

impl Model for SymModel {
    type State = SymSt;
    type Action = u16;
    fn init_states(&self) -> Vec<SymSt> { self.init.iter().map(|i| SymSt { idx: *i, m: self.m, k: self.k }).collect() }
    fn actions(&self, s: &SymSt, out: &mut Vec<u16>) {
        let d = digits(s.idx, self.m, self.k);
        for p in 0..self.k as usize { for a in 0..self.local[d[p] as usize].len() { out.push((p * 16 + a) as u16); } }
    }
    fn next_state(&self, s: &SymSt, a: u16) -> Option<SymSt> {
        let (p, a) = ((a / 16) as usize, (a % 16) as usize);
        let mut d = digits(s.idx, self.m, self.k);
        let n = self.local[d[p] as usize][a]?;
        d[p] = n;
        Some(SymSt { idx: encode(&d, self.m), m: self.m, k: self.k })
    }
    fn within_boundary(&self, s: &SymSt) -> bool { self.bnd_rep[s.idx as usize] }
    fn properties(&self) -> Vec<Property<Self>> {
        self.props.iter().enumerate().map(|(i, (e, _))| Property {
            expectation: match e { 'a' => Expectation::Always, 's' => Expectation::Sometimes, _ => Expectation::Eventually },
            name: NAMES[i], condition: CONDS[i] }).collect()
    }
}

impl SymModel {
    fn n(&self) -> usize { (self.m as usize).pow(self.k as u32) }
    fn graph_sx(&self) -> String {
        let n = self.n();
        let adj: Vec<String> = (0..n).map(|s| {
            let st = SymSt { idx: s as u16, m: self.m, k: self.k };
            let mut acts = vec![]; self.actions(&st, &mut acts);
            format!("({})", acts.iter().map(|a| self.next_state(&st, *a).map(|t| t.idx.to_string()).unwrap_or("x".into())).collect::<Vec<_>>().join(" "))
        }).collect();
        format!("({} ({}) ({}) ({}))", n, self.init.iter().map(|x| x.to_string()).collect::<Vec<_>>().join(" "), adj.join(" "),
            self.bnd_rep.iter().map(|b| if *b { "t" } else { "f" }).collect::<Vec<_>>().join(" "))
    }
    fn props_sx(&self) -> String {
        format!("({})", self.props.iter().map(|(e, t)| format!("({} ({}))", e, t.iter().map(|b| if *b { "t" } else { "f" }).collect::<Vec<_>>().join(" "))).collect::<Vec<_>>().join(" "))
    }
    fn rep_sx(&self) -> String {
        format!("({})", (0..self.n()).map(|s| rep_idx(s as u16, self.m, self.k).to_string()).collect::<Vec<_>>().join(" "))
    }
}

fn gen(r: &mut Rng) -> SymModel {
    let m = r.range(2, 3) as u8;
    let k = r.range(2, 3) as u8;
    let local: Vec<Vec<Option<u8>>> = (0..m).map(|_| (0..r.below(3)).map(|_| if r.chance(1, 8) { None } else { Some(r.below(m as usize) as u8) }).collect()).collect();
    let n = (m as usize).pow(k as u32);
    // class-constant tables: choose per representative
    let class_tbl = |r: &mut Rng, p_true: (usize, usize)| -> Vec<bool> {
        let per_rep: Vec<bool> = (0..n).map(|_| r.chance(p_true.0, p_true.1)).collect();
        (0..n).map(|s| per_rep[rep_idx(s as u16, m, k) as usize]).collect()
    };
    let bnd_rep = class_tbl(r, (6, 7));
    // 1-3 initial states, frequently NOT their own representatives and sometimes in one class
    let mut init: Vec<u16> = vec![];
    for _ in 0..r.range(1, 3) { let s = r.below(n) as u16; if !init.contains(&s) { init.push(s); } }
    let np = r.range(1, 4);
    let props = (0..np).map(|_| {
        let e = *r.pick(&['a', 'a', 's', 's', 'e']);
        let t = match (e, r.below(4)) {
            ('a', 0) => vec![true; n], ('a', _) => class_tbl(r, (4, 5)),
            ('s', 0) => vec![false; n], ('s', _) => class_tbl(r, (1, 5)),
            (_, 0) => vec![false; n], (_, _) => class_tbl(r, (1, 3)),
        };
        (e, t)
    }).collect();
    SymModel { m, k, local, init, bnd_rep, props }
}

fn path_sx(p: &[u16]) -> String { format!("({})", p.iter().map(|x| x.to_string()).collect::<Vec<_>>().join(" ")) }

fn observe(g: &SymModel, symmetric: bool, max_depth: Option<usize>) -> String {
    let visits: Arc<Mutex<Vec<Vec<u16>>>> = Arc::new(Mutex::new(vec![]));
    let v2 = visits.clone();
    let g2 = g.clone();
    let r = catch_unwind(AssertUnwindSafe(move || {
        let mut b = g2.clone().checker().threads(1)
            .visitor(move |p: stateright::Path<SymSt, u16>| { v2.lock().unwrap().push(p.into_states().iter().map(|s| s.idx).collect()); });
        if symmetric { b = b.symmetry(); }
        if let Some(d) = max_depth { b = b.target_max_depth(d); }
        let c = b.spawn_dfs().join();
        let mut disc = BTreeMap::new();
        for (name, path) in c.discoveries() {
            let i = NAMES.iter().position(|n| *n == name).unwrap();
            disc.insert(i, path.into_states().iter().map(|s| s.idx).collect::<Vec<u16>>());
        }
        let done = c.is_done();
        let ok = catch_unwind(AssertUnwindSafe(|| c.assert_properties())).is_ok();
        (c.unique_state_count(), c.state_count(), c.max_depth(), disc, done, ok)
    }));
    match r {
        Err(_) => "panic".into(),
        Ok((uniq, count, depth, disc, done, ok)) => {
            let vs = visits.lock().unwrap();
            format!("(visits {}) (uniq {}) (count {}) (depth {}) (disc {}) (done {}) (assert {})",
                format!("({})", vs.iter().map(|p| path_sx(p)).collect::<Vec<_>>().join(" ")), uniq, count, depth,
                format!("({})", disc.iter().map(|(i, p)| format!("({} {})", i, path_sx(p))).collect::<Vec<_>>().join(" ")),
                if done { "t" } else { "f" }, if ok { "ok" } else { "panic" })
        }
    }
}

/// scripted chooser (as in chk.rs): the k-th question of the run is answered with `script[k] % options` (0 afterwards)
#[derive(Clone)]
struct ScriptChooser { script: Arc<Vec<usize>>, pos: Arc<std::sync::atomic::AtomicUsize> }
impl ScriptChooser {
    fn answer(&self, n: usize) -> usize {
        let k = self.pos.fetch_add(1, std::sync::atomic::Ordering::SeqCst);
        if k < self.script.len() { self.script[k] % n } else { 0 }
    }
}
impl stateright::Chooser<SymModel> for ScriptChooser {
    type State = ();
    fn new_state(&self, _seed: u64) {}
    fn choose_initial_state(&self, _: &mut (), initial_states: &[SymSt]) -> usize { self.answer(initial_states.len()) }
    fn choose_action(&self, _: &mut (), _cur: &SymSt, actions: &[u16]) -> usize { self.answer(actions.len()) }
}

/// simulation WITH symmetry (the per-trace loop detection works on representatives), scripted chooser, one thread
fn observe_sim(g: &SymModel, max_depth: Option<usize>, target: usize, script: &[usize]) -> String {
    let visits: Arc<Mutex<Vec<Vec<u16>>>> = Arc::new(Mutex::new(vec![]));
    let v2 = visits.clone();
    let g2 = g.clone();
    let chooser = ScriptChooser { script: Arc::new(script.to_vec()), pos: Arc::new(std::sync::atomic::AtomicUsize::new(0)) };
    let r = catch_unwind(AssertUnwindSafe(move || {
        let mut b = g2.clone().checker().threads(1).symmetry().target_state_count(target)
            .visitor(move |p: stateright::Path<SymSt, u16>| { v2.lock().unwrap().push(p.into_states().iter().map(|s| s.idx).collect()); });
        if let Some(d) = max_depth { b = b.target_max_depth(d); }
        let c = b.spawn_simulation(0, chooser).join();
        let mut disc = BTreeMap::new();
        for (name, path) in c.discoveries() {
            let i = NAMES.iter().position(|n| *n == name).unwrap();
            disc.insert(i, path.into_states().iter().map(|s| s.idx).collect::<Vec<u16>>());
        }
        (c.unique_state_count(), c.state_count(), c.max_depth(), disc)
    }));
    match r {
        Err(_) => "panic".into(),
        Ok((uniq, count, depth, disc)) => {
            let vs = visits.lock().unwrap();
            format!("(visits {}) (uniq {}) (count {}) (depth {}) (disc {})",
                format!("({})", vs.iter().map(|p| path_sx(p)).collect::<Vec<_>>().join(" ")), uniq, count, depth,
                format!("({})", disc.iter().map(|(i, p)| format!("({} {})", i, path_sx(p))).collect::<Vec<_>>().join(" ")))
        }
    }
}

fn main() {
    quiet_panics();
    let mut out = Out::new();
    let mut r = Rng::new(seed());
    let n_cases = if thorough() { 25_000 } else { 1_500 };
    for c in 0..n_cases {
        let g = gen(&mut r);
        let max_depth = if r.chance(1, 6) { Some(r.range(1, 5)) } else { None };
        let cfg = format!("(cfg {} none all)", max_depth.map(|d| d.to_string()).unwrap_or("none".into()));
        let obs = observe(&g, true, max_depth);
        let (gs, ps, rs) = (g.graph_sx(), g.props_sx(), g.rep_sx());
        out.m(&format!("chk-sym {} {} {} {}", gs, ps, cfg, rs), &obs);
        out.o(&format!("o-chk-sym {} {} {} {} ({})", gs, ps, cfg, rs, obs));
        // the unreduced run of the same model: the plain DFS correspondence and the verdict comparison
        let plain = observe(&g, false, max_depth);
        out.m(&format!("chk dfs {} {} {}", gs, ps, cfg), &plain);
        if max_depth.is_none() {
            // direct implementation-vs-implementation check: same set of discovered always/sometimes properties
            let names = |o: &str| -> Vec<String> {
                let d = o.split("(disc ").nth(1).unwrap_or("");
                let mut v = vec![]; let mut depth = 0; let mut cur = String::new();
                for ch in d.chars() { if ch == '(' { depth += 1; if depth == 2 { cur.clear(); } } else if ch == ')' { depth -= 1; } else if depth == 2 && cur.len() < 3 { if ch == ' ' { if !cur.is_empty() { v.push(cur.clone()); cur = "xxx".into(); } } else { cur.push(ch); } } }
                v
            };
            let (a, b) = (names(&obs), names(&plain));
            let nonev: Vec<String> = g.props.iter().enumerate().filter(|(_, p)| p.0 != 'e').map(|(i, _)| i.to_string()).collect();
            let fa: Vec<&String> = a.iter().filter(|x| nonev.contains(x)).collect();
            let fb: Vec<&String> = b.iter().filter(|x| nonev.contains(x)).collect();
            let complete = |o: &str, np: usize| -> bool { names(o).len() < np };
            if complete(&obs, g.props.len()) && complete(&plain, g.props.len()) && fa != fb {
                out.v("symmetry-changes-verdicts", &format!("{} props {} reduced {:?} unreduced {:?}", gs, ps, fa, fb));
            }
        }
        // simulation with symmetry: exact correspondence with the simulation model whose seen-set holds representatives
        if c % 2 == 0 {
            let mut gs2 = g.clone();
            // initial states inside the boundary (whole classes, so the boundary stays invariant): every trace counts
            // at least one state and the target state count ends the run
            for s in gs2.init.clone() { let rp = rep_idx(s, gs2.m, gs2.k); for t in 0..gs2.n() { if rep_idx(t as u16, gs2.m, gs2.k) == rp { gs2.bnd_rep[t] = true; } } }
            let script: Vec<usize> = (0..r.below(40)).map(|_| r.below(12)).collect();
            let sd = if r.chance(1, 3) { Some(r.range(1, 6)) } else { None };
            let target = r.range(1, 12);
            let scfg = format!("(cfg {} {} all)", sd.map(|d| d.to_string()).unwrap_or("none".into()), target);
            let obs = observe_sim(&gs2, sd, target, &script);
            out.m(&format!("sim-sym {} {} {} {} ({})", gs2.graph_sx(), gs2.props_sx(), scfg, gs2.rep_sx(), script.iter().map(|x| x.to_string()).collect::<Vec<_>>().join(" ")), &obs);
            out.stat("simulation-with-symmetry");
            if obs.contains("(disc ())") { out.stat("simulation-with-symmetry-no-discovery"); }
        }
        let noncanon_init = g.init.iter().any(|s| rep_idx(*s, g.m, g.k) != *s);
        if noncanon_init { out.stat("initial-state-not-its-own-representative"); }
        if g.init.len() >= 2 { out.stat("several-initial-states"); }
        if obs != plain { out.stat("reduction-changed-the-run"); }
        out.stat(&format!("procs-{}-locals-{}", g.k, g.m));
        out.distinct(&(gs.clone(), ps.clone(), cfg.clone()));
        if c < 2 { out.sample(&format!("sym model m={} k={} graph {} props {} rep {}", g.m, g.k, gs, ps, rs)); }
    }
    out.finish();
}
