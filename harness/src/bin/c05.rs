//! C05 — implementation side.
//!  (i)  job market under controlled schedules (`srh::market_h`): seeded random sequences, all sequences of
//!       a small alphabet for K = 2, timeout scenarios;
//!  (ii) whole checkers with real threads, each run in a child process with a watchdog (see `runs`).
use srh::graph_big::*;
use srh::market_h::*;
use srh::out::*;
use srh::rng::Rng;
use std::sync::atomic::{AtomicUsize, Ordering};
use std::sync::Mutex;

fn emit(out: &mut Out, o: &SeqOut, tag: &str) {
    out.m(&o.m_req, &o.m_exp);
    out.o(&o.o_req);
    if let Some(e) = &o.err {
        let key = if e.starts_with("hang") { "market-hang" } else { "market-harness" };
        out.v(key, &format!("{} | {} => {}", e, o.m_req, o.m_exp));
    }
    out.stat(&format!("{}-sequences", tag));
    out.stat(&format!("{}-K{}-tc{}", tag, o.k, o.tc));
    out.stat_n("market-ops", o.n_ops as u64);
    out.stat_n("market-parks", o.parks);
    out.stat_n("market-wakes", o.wakes);
    out.stat_n("market-wake-then-wait-again", o.reparks);
    out.stat_n("market-batches-handed-out", o.gots);
    out.stat(&format!("market-max-simultaneously-parked-{}", o.max_parked));
    if o.closed_at_end { out.stat("market-sequence-ends-closed") } else { out.stat("market-sequence-ends-open") }
    for k in &o.op_kinds {
        out.stat(k);
    }
    if o.n_ops >= 2 {
        out.distinct(&o.m_req);
    }
}

/// run `f(slot, i)` for i in 0..n on `threads` OS threads, each owning one reusable set of worker threads
fn parallel<T: Send, F: Fn(Slot, usize) -> (T, Slot) + Sync>(n: usize, threads: usize, f: F) -> Vec<T> {
    let next = AtomicUsize::new(0);
    let res: Mutex<Vec<(usize, T)>> = Mutex::new(Vec::new());
    std::thread::scope(|sc| {
        for _ in 0..threads.min(n.max(1)) {
            sc.spawn(|| {
                let mut slot = Slot::new();
                let mut local = vec![];
                loop {
                    let i = next.fetch_add(1, Ordering::Relaxed);
                    if i >= n {
                        break;
                    }
                    let (r, s2) = f(slot, i);
                    slot = s2;
                    local.push((i, r));
                }
                res.lock().unwrap().append(&mut local);
            });
        }
    });
    let mut v = res.into_inner().unwrap();
    v.sort_by_key(|x| x.0);
    v.into_iter().map(|x| x.1).collect()
}

fn fnv(s: &str) -> u64 {
    let mut h: u64 = 14695981039346656037;
    for b in s.bytes() {
        h = (h ^ b as u64).wrapping_mul(1099511628211);
    }
    h
}

fn market_part(out: &mut Out, thorough: bool, seed: u64) {
    install_callback();
    let n_random = arg_u64("--market-seqs", if thorough { 60000 } else { 3000 }) as usize;
    let outs = parallel(n_random, 8, |slot, i| {
        let mut rng = Rng::new(seed.wrapping_mul(0x9E37_79B9).wrapping_add(i as u64 * 7919 + 13));
        random_sequence(slot, &mut rng, 40)
    });
    for (i, o) in outs.iter().enumerate() {
        emit(out, o, "random");
        if i < 3 {
            out.sample(&format!("{} => {}", o.m_req, o.m_exp));
        }
    }
    // all sequences over the small alphabet, K = 2: every one is run on the real market; those of length
    // <= `ind` are validated one by one, all of them (length <= `depth`) enter the digest the model recomputes
    let depth = arg_u64("--market-exh-depth", if thorough { 7 } else { 5 }) as usize;
    let ind = arg_u64("--market-exh-individual", if thorough { 5 } else { 4 }) as usize;
    let mut frontier: Vec<Vec<u8>> = vec![vec![]];
    let mut digests: std::collections::BTreeMap<u8, (u64, u64)> = Default::default();
    let mut total = 0u64;
    for d in 0..=depth {
        let res = parallel(frontier.len(), 8, |slot, i| {
            let path: Vec<usize> = frontier[i].iter().map(|&x| x as usize).collect();
            let (o, n, slot) = fixed_sequence(slot, 2, 2, &path);
            let h = fnv(&o.items);
            let keep = if path.len() <= ind || o.err.is_some() { Some(o) } else { None };
            ((h, n, keep), slot)
        });
        let mut next = vec![];
        for (i, (h, succ, keep)) in res.iter().enumerate() {
            if !frontier[i].is_empty() {
                let e = digests.entry(frontier[i][0]).or_insert((0, 0));
                e.0 = e.0.wrapping_add(*h);
                e.1 += 1;
                total += 1;
                if let Some(o) = keep {
                    emit(out, o, "exhaustive");
                }
            }
            if d < depth {
                for j in 0..*succ {
                    let mut p = frontier[i].clone();
                    p.push(j as u8);
                    next.push(p);
                }
            }
        }
        frontier = next;
    }
    for (first, (sum, cnt)) in &digests {
        out.m(&format!("mk-exh 2 2 {} {}", depth, first), &format!("{} {}", sum, cnt));
    }
    out.stat_n("exhaustive-all-sequences-in-digest", total);
    // the market's own timeout thread wakes parked workers (1 s poll period)
    let scen: Vec<(usize, usize, u64)> = if thorough {
        vec![(2, 1, 100), (3, 2, 100), (3, 1, 300), (4, 3, 200), (4, 2, 500), (4, 1, 50)]
    } else {
        vec![(3, 2, 100), (3, 1, 300), (4, 3, 200)]
    };
    let res = parallel(scen.len(), scen.len(), |slot, i| (timeout_sequence(scen[i].0, scen[i].1, scen[i].2), slot));
    for o in &res {
        emit(out, o, "timeout");
        out.sample(&format!("{} => {}", o.m_req, o.m_exp));
    }
}


// ---------------------------------------------------------------------------------------------
// (ii) whole checkers, real threads, child processes
// ---------------------------------------------------------------------------------------------
#[derive(Clone, Copy, PartialEq, Debug)]
enum Expect {
    /// nothing stops the run early: evaluated set = closure, counts and discovered names determined
    Complete,
    /// a stop reason is configured: only schedule-independent bounds
    Early,
    /// model code panics at a reachable state: `join` must panic
    Panic,
    /// effectively unbounded model with a timeout
    Timeout,
    /// simulation where ONE worker panics: reported separately (see notes/C05.md)
    SimOnePanics,
}

fn layered(layers: u64, width: u64, seed: u64, props: Vec<PropSpec>) -> ModelSpec {
    ModelSpec { shape: Shape::Layered { layers, width, deg: 3, n_init: 3, oob_mod: 17 }, seed, props, panic_at: None, panic_thread: None }
}
fn p(exp: u8, m: u64, min_layer: u64) -> PropSpec {
    PropSpec { exp, m, min_layer }
}
/// q0 is never discovered (so nothing ends the run early); q1 sometimes / q2 always are hit at rare deep
/// states; q3 is an eventually property that never holds (every terminal state is a counterexample)
fn props_full() -> Vec<PropSpec> {
    vec![p(0, 0, 0), p(2, 4000, 6), p(0, 2500, 9), p(1, 0, 0)]
}
/// every property is discoverable: the run ends because everything is discovered
fn props_alldisc() -> Vec<PropSpec> {
    vec![p(2, 3000, 5), p(0, 2000, 8)]
}

fn describe(c: &RunCfg) -> String {
    format!(
        "{} threads={} fw={} target={:?} depth={:?} timeout={:?} perturb={} panic_seed={} model={:?}/seed{} sim_seed={}",
        c.strategy, c.threads, c.finish_when.sx(), c.target_state_count, c.target_max_depth, c.timeout_ms, c.perturb,
        c.panic_seed, c.model.shape, c.model.seed, c.sim_seed
    )
}

fn build_runs(thorough: bool, rng: &mut Rng) -> Vec<(RunCfg, Expect)> {
    let mut v: Vec<(RunCfg, Expect)> = vec![];
    let threads: Vec<usize> = vec![1, 2, 3, 4, 8, 16];
    let sizes: Vec<(u64, u64)> = if thorough { vec![(24, 400), (40, 1500), (50, 2000)] } else { vec![(24, 400), (36, 900)] };
    let reps = if thorough { 2 } else { 1 };
    for &(layers, width) in &sizes {
        for strat in ["bfs", "dfs", "ondemand"] {
            for &t in &threads {
                for _ in 0..reps {
                    let seed = 1 + rng.below(1_000_000) as u64;
                    let perturb = if rng.chance(1, 5) { 0 } else { 1 + rng.next() % 1_000_000 };
                    let base = |props: Vec<PropSpec>| {
                        let mut c = RunCfg::new(layered(layers, width, seed, props), strat, t);
                        c.perturb = perturb;
                        c
                    };
                    // complete run
                    v.push((base(props_full()), Expect::Complete));
                    if width != sizes[0].1 && !thorough {
                        continue;
                    }
                    // finish_when variants
                    for (kind, names) in [("any", vec![]), ("anyf", vec![]), ("allf", vec![]), ("allof", vec![1usize, 3]), ("anyof", vec![1usize, 2])] {
                        let mut c = base(props_full());
                        c.finish_when = FwSpec { kind: kind.into(), names };
                        v.push((c, Expect::Early));
                    }
                    // everything discovered
                    v.push((base(props_alldisc()), Expect::Early));
                    // targets
                    let mut c = base(props_full());
                    c.target_state_count = Some(3000 + rng.below(4000));
                    v.push((c, Expect::Early));
                    let mut c = base(props_full());
                    c.target_max_depth = Some(6 + rng.below(8));
                    v.push((c, Expect::Early));
                    // panic at a seeded reachable state
                    let mut c = base(props_full());
                    c.panic_seed = 1 + rng.next() % 1000;
                    v.push((c, Expect::Panic));
                }
            }
        }
    }
    // timeouts on the effectively unbounded model (bfs / dfs / on-demand / simulation)
    let bt = |spin: u64| ModelSpec { shape: Shape::BinTree { spin }, seed: 7, props: vec![p(0, 0, 0)], panic_at: None, panic_thread: None };
    for strat in ["bfs", "dfs", "ondemand", "sim"] {
        for &t in &threads {
            if !thorough && (t == 3 || t == 16) {
                continue;
            }
            let mut c = RunCfg::new(bt(4000), strat, t);
            c.timeout_ms = Some(200);
            c.record = false;
            c.closure_cap = 100;
            c.perturb = 1 + rng.next() % 1000;
            v.push((c, Expect::Timeout));
        }
    }
    // simulation: finish_when, target, panic
    for &t in &threads {
        if !thorough && (t == 3 || t == 16) {
            continue;
        }
        let seed = 1 + rng.below(1_000_000) as u64;
        let sim_seed = rng.next() % 1000;
        let small = |props: Vec<PropSpec>| {
            let mut c = RunCfg::new(layered(12, 40, seed, props), "sim", t);
            c.sim_seed = sim_seed;
            c
        };
        for (kind, names) in [("any", vec![]), ("anyof", vec![1usize]), ("allof", vec![1usize, 3])] {
            let mut c = small(vec![p(0, 0, 0), p(2, 40, 3), p(0, 30, 4), p(1, 0, 0)]);
            c.finish_when = FwSpec { kind: kind.into(), names };
            v.push((c, Expect::Early));
        }
        let mut c = small(vec![p(2, 40, 3), p(0, 30, 4)]);
        c.finish_when = FwSpec::all();
        v.push((c, Expect::Early));
        let mut c = small(props_full());
        c.target_state_count = Some(20_000);
        v.push((c, Expect::Early));
        // every trace runs into the panic state quickly (3 nodes per layer): every worker panics
        let mut c = RunCfg::new(
            ModelSpec { shape: Shape::Layered { layers: 8, width: 3, deg: 3, n_init: 1, oob_mod: 0 }, seed, props: vec![p(0, 0, 0)], panic_at: None, panic_thread: None },
            "sim", t,
        );
        c.panic_seed = 1 + rng.next() % 1000;
        c.target_state_count = Some(50_000_000);
        v.push((c, Expect::Panic));
        // ONE worker panics, the others have no reason of their own to stop before the (long) timeout
        if t >= 2 {
            let mut c = small(vec![p(0, 0, 0)]);
            c.model.panic_thread = Some("checker-1".into());
            c.timeout_ms = Some(12_000);
            c.watchdog_ms = 5_000;
            c.record = false;
            v.push((c, Expect::SimOnePanics));
        }
    }
    // simulation, NO timeout: worker 0 is in the middle of a trace that never ends when another worker panics: it must
    // notice at its next step (not only between traces), and the panic must surface from join
    for &t in &[2usize, 4] {
        let mut c = RunCfg::new(
            ModelSpec { shape: Shape::Chain { fuse: 1500 + rng.below(2000) as u64, spin: 2000 }, seed: 1, props: vec![p(0, 0, 0)], panic_at: None, panic_thread: None },
            "sim", t,
        );
        c.chooser = "lane".into();
        c.sim_seed = 1 + rng.next() % 1000;
        c.record = false;
        c.closure_cap = 4000;
        c.watchdog_ms = 12_000;
        v.push((c, Expect::Panic));
    }
    // one worker panics: bfs / dfs / on-demand must stop everybody (market closed by the unwinding Drop)
    for strat in ["bfs", "dfs", "ondemand"] {
        for &t in &[2usize, 4, 8] {
            let mut c = RunCfg::new(layered(40, 1500, 5, vec![p(0, 0, 0)]), strat, t);
            c.panic_seed = 1 + rng.next() % 1000;
            c.perturb = 1 + rng.next() % 1000;
            // half of the panic runs wait with join_and_report (bfs / dfs): the panic must surface from it as well
            c.report_join = strat != "ondemand" && t != 4;
            v.push((c, Expect::Panic));
        }
    }
    v
}

fn runs_part(out: &mut Out, thorough: bool, rng: &mut Rng) {
    let runs = build_runs(thorough, rng);
    let cfgs: Vec<RunCfg> = runs.iter().map(|r| r.0.clone()).collect();
    let watchdog = std::time::Duration::from_secs(arg_u64("--watchdog-s", 60));
    let strict_sim_panic = true; // defect F13 (one simulation worker panics, the others keep running) was repaired in /repo
    let results = run_all(&cfgs, watchdog, 16);
    for ((cfg, exp), res) in runs.iter().zip(results.iter()) {
        let d = describe(cfg);
        out.stat(&format!("run-{}-{:?}", cfg.strategy, exp));
        out.stat(&format!("run-threads-{}", cfg.threads));
        out.distinct(&d);
        let o = match res {
            ChildResult::Hang(el) => {
                if *exp == Expect::SimOnePanics {
                    out.stat("FINDING-simulation-one-worker-panics-others-keep-running(join-blocked-past-watchdog)");
                    out.sample(&format!("simulation, one worker panics, join still blocked after {:?}: {}", el, d));
                    if strict_sim_panic {
                        out.v("sim-panic-not-propagated", &format!("join did not return within {:?} after one simulation worker panicked: {}", el, d));
                    }
                } else {
                    out.v("hang", &format!("join did not return within {:?}: {}", el, d));
                }
                continue;
            }
            ChildResult::Crash(e) => {
                out.v("child-crash", &format!("{}: {}", e, d));
                continue;
            }
            ChildResult::Done(o, _) => o,
        };
        if o.threads_evaluating >= 2 {
            out.stat("runs-with->=2-threads-evaluating-states(work-was-split)");
        }
        if o.parks > 0 {
            out.stat("runs-where-a-worker-parked");
        }
        if o.wakes > 0 {
            out.stat("runs-where-a-parked-worker-woke");
        }
        out.stat_n("states-evaluated-total", o.visited as u64);
        let mut bad: Vec<String> = vec![];
        let is_sim = cfg.strategy == "sim";
        if o.bad_paths > 0 {
            bad.push(format!("{} visited paths are not model paths", o.bad_paths));
        }
        for b in &o.bad_disc {
            bad.push(format!("not a genuine witness: {}", b));
        }
        out.stat_n("discoveries-of-child-runs-validated", o.disc.len() as u64);
        if o.visited_not_reachable > 0 {
            bad.push(format!("{} evaluated states are not reachable", o.visited_not_reachable));
        }
        if !is_sim && o.dup_visits > 0 {
            bad.push(format!("{} states evaluated more than once", o.dup_visits));
        }
        match exp {
            Expect::Complete => {
                if o.joined != "ok" {
                    bad.push("join panicked".into());
                }
                if o.missing > 0 {
                    bad.push(format!("{} reachable states never evaluated (closure {})", o.missing, o.closure));
                }
                if o.unique != o.closure {
                    bad.push(format!("unique_state_count {} != closure {}", o.unique, o.closure));
                }
                let det: Vec<usize> = o.disc.iter().copied().filter(|i| !o.undetermined.contains(i)).collect();
                if det != o.expected_disc {
                    bad.push(format!("discovered {:?} but the single-threaded/closure result is {:?}", det, o.expected_disc));
                }
                if !o.is_done {
                    bad.push("is_done() false after join".into());
                }
                out.sample(&format!("complete {}: closure={} visited={} threads_evaluating={} parks={} wakes={} disc={:?}", d, o.closure, o.visited, o.threads_evaluating, o.parks, o.wakes, o.disc));
            }
            Expect::Early | Expect::Timeout => {
                if o.joined != "ok" {
                    bad.push("join panicked".into());
                }
                if !is_sim && o.unique > o.closure && o.closure < cfg.closure_cap {
                    bad.push(format!("unique_state_count {} > closure {}", o.unique, o.closure));
                }
                for i in &o.disc {
                    if !o.expected_disc.contains(i) && !o.undetermined.contains(i) {
                        bad.push(format!("property {} discovered although no reachable state witnesses it", i));
                    }
                }
                if o.missing > 0 {
                    out.stat("early-stop-runs-that-did-stop-early");
                }
            }
            Expect::Panic => {
                if o.joined != "panic" {
                    bad.push(format!("model code panicked at reachable state {:?} but join returned normally", o.panic_state));
                }
            }
            Expect::SimOnePanics => {
                out.stat("simulation-one-worker-panics:join-returned-within-watchdog");
            }
        }
        for b in bad {
            out.v("run-mismatch", &format!("{}: {}", b, d));
        }
    }
}

fn main() {
    maybe_child();
    quiet_panics();
    let mut out = Out::new();
    let th = thorough();
    let only = arg_str("--only");
    if only.as_deref().map(|s| s == "market").unwrap_or(true) {
        market_part(&mut out, th, seed());
    }
    if only.as_deref().map(|s| s == "runs").unwrap_or(true) {
        let mut rng = Rng::new(seed() ^ 0x5151);
        runs_part(&mut out, th, &mut rng);
    }
    out.finish();
}
