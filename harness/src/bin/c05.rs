//! C05 — implementation side.
//!  (i)  job market under controlled schedules (`srh::market_h`): seeded random sequences, all sequences of
//!       a small alphabet for K = 2, timeout scenarios;
//!  (ii) whole checkers with real threads, each run in a child process with a watchdog (see `runs`).
use srh::market_h::*;
use srh::out::*;
use srh::rng::Rng;
use std::sync::atomic::{AtomicUsize, Ordering};
use std::sync::Mutex;

fn emit(out: &mut Out, o: &SeqOut, tag: &str) {
    out.m(&o.m_req, &o.m_exp);
    out.o(&o.o_req);
    if let Some(e) = &o.err {
        let key = if e.starts_with("hang") { "market-hang" } else { "market-harness" };
        out.v(key, &format!("{} | {} => {}", e, o.m_req, o.m_exp));
    }
    out.stat(&format!("{}-sequences", tag));
    out.stat(&format!("{}-K{}-tc{}", tag, o.k, o.tc));
    out.stat_n("market-ops", o.n_ops as u64);
    out.stat_n("market-parks", o.parks);
    out.stat_n("market-wakes", o.wakes);
    out.stat_n("market-wake-then-wait-again", o.reparks);
    out.stat_n("market-batches-handed-out", o.gots);
    out.stat(&format!("market-max-simultaneously-parked-{}", o.max_parked));
    if o.closed_at_end { out.stat("market-sequence-ends-closed") } else { out.stat("market-sequence-ends-open") }
    for k in &o.op_kinds {
        out.stat(k);
    }
    if o.n_ops >= 2 {
        out.distinct(&o.m_req);
    }
}

/// run `f(slot, i)` for i in 0..n on `threads` OS threads, each owning one reusable set of worker threads
fn parallel<T: Send, F: Fn(Slot, usize) -> (T, Slot) + Sync>(n: usize, threads: usize, f: F) -> Vec<T> {
    let next = AtomicUsize::new(0);
    let res: Mutex<Vec<(usize, T)>> = Mutex::new(Vec::new());
    std::thread::scope(|sc| {
        for _ in 0..threads.min(n.max(1)) {
            sc.spawn(|| {
                let mut slot = Slot::new();
                let mut local = vec![];
                loop {
                    let i = next.fetch_add(1, Ordering::Relaxed);
                    if i >= n {
                        break;
                    }
                    let (r, s2) = f(slot, i);
                    slot = s2;
                    local.push((i, r));
                }
                res.lock().unwrap().append(&mut local);
            });
        }
    });
    let mut v = res.into_inner().unwrap();
    v.sort_by_key(|x| x.0);
    v.into_iter().map(|x| x.1).collect()
}

fn fnv(s: &str) -> u64 {
    let mut h: u64 = 14695981039346656037;
    for b in s.bytes() {
        h = (h ^ b as u64).wrapping_mul(1099511628211);
    }
    h
}

fn market_part(out: &mut Out, thorough: bool, seed: u64) {
    install_callback();
    let n_random = arg_u64("--market-seqs", if thorough { 60000 } else { 3000 }) as usize;
    let outs = parallel(n_random, 8, |slot, i| {
        let mut rng = Rng::new(seed.wrapping_mul(0x9E37_79B9).wrapping_add(i as u64 * 7919 + 13));
        random_sequence(slot, &mut rng, 40)
    });
    for (i, o) in outs.iter().enumerate() {
        emit(out, o, "random");
        if i < 3 {
            out.sample(&format!("{} => {}", o.m_req, o.m_exp));
        }
    }
    // all sequences over the small alphabet, K = 2: every one is run on the real market; those of length
    // <= `ind` are validated one by one, all of them (length <= `depth`) enter the digest the model recomputes
    let depth = arg_u64("--market-exh-depth", if thorough { 7 } else { 5 }) as usize;
    let ind = arg_u64("--market-exh-individual", if thorough { 5 } else { 4 }) as usize;
    let mut frontier: Vec<Vec<u8>> = vec![vec![]];
    let mut digests: std::collections::BTreeMap<u8, (u64, u64)> = Default::default();
    let mut total = 0u64;
    for d in 0..=depth {
        let res = parallel(frontier.len(), 8, |slot, i| {
            let path: Vec<usize> = frontier[i].iter().map(|&x| x as usize).collect();
            let (o, n, slot) = fixed_sequence(slot, 2, 2, &path);
            let h = fnv(&o.items);
            let keep = if path.len() <= ind || o.err.is_some() { Some(o) } else { None };
            ((h, n, keep), slot)
        });
        let mut next = vec![];
        for (i, (h, succ, keep)) in res.iter().enumerate() {
            if !frontier[i].is_empty() {
                let e = digests.entry(frontier[i][0]).or_insert((0, 0));
                e.0 = e.0.wrapping_add(*h);
                e.1 += 1;
                total += 1;
                if let Some(o) = keep {
                    emit(out, o, "exhaustive");
                }
            }
            if d < depth {
                for j in 0..*succ {
                    let mut p = frontier[i].clone();
                    p.push(j as u8);
                    next.push(p);
                }
            }
        }
        frontier = next;
    }
    for (first, (sum, cnt)) in &digests {
        out.m(&format!("mk-exh 2 2 {} {}", depth, first), &format!("{} {}", sum, cnt));
    }
    out.stat_n("exhaustive-all-sequences-in-digest", total);
    // the market's own timeout thread wakes parked workers (1 s poll period)
    let scen: Vec<(usize, usize, u64)> = if thorough {
        vec![(2, 1, 100), (3, 2, 100), (3, 1, 300), (4, 3, 200), (4, 2, 500), (4, 1, 50)]
    } else {
        vec![(3, 2, 100), (3, 1, 300), (4, 3, 200)]
    };
    let res = parallel(scen.len(), scen.len(), |slot, i| (timeout_sequence(scen[i].0, scen[i].1, scen[i].2), slot));
    for o in &res {
        emit(out, o, "timeout");
        out.sample(&format!("{} => {}", o.m_req, o.m_exp));
    }
}

fn main() {
    quiet_panics();
    let mut out = Out::new();
    let th = thorough();
    let only = arg_str("--only");
    if only.as_deref().map(|s| s == "market").unwrap_or(true) {
        market_part(&mut out, th, seed());
    }
    out.finish();
}
