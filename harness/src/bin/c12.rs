//! C12 — run controls: implementation side.
//!  part 1: `HasDiscoveries::matches`, exhaustive (all six variants x all discovery subsets x property
//!          lists of <= 4 with all expectation mixes and a foreign name) + duplicate-name lists.
//!  part 2: timing / timeout / limits / seed replay on the real checkers (child processes), see `timing`.
use srh::graph_big::*;
use srh::out::*;
use srh::rng::Rng;
use srh::sx;
use stateright::{HasDiscoveries, Property};
use std::collections::BTreeSet;

// ---------------------------------------------------------------------------------------------
// part 1: matches
// ---------------------------------------------------------------------------------------------
const NAMES: [&str; 6] = ["p0", "p1", "p2", "p3", "p4", "foreign"];
const FOREIGN: usize = 5;

fn t(_: &(), _: &()) -> bool {
    true
}
fn mk_prop(name: usize, exp: u8) -> Property<()> {
    match exp {
        0 => Property::always(NAMES[name], t),
        1 => Property::eventually(NAMES[name], t),
        _ => Property::sometimes(NAMES[name], t),
    }
}
fn exp_sx(e: u8) -> &'static str {
    match e {
        0 => "a",
        1 => "e",
        _ => "s",
    }
}
#[derive(Clone, Debug)]
enum Cond {
    All,
    Any,
    AnyF,
    AllF,
    AllOf(Vec<usize>),
    AnyOf(Vec<usize>),
}
impl Cond {
    fn real(&self) -> HasDiscoveries {
        let set = |s: &Vec<usize>| s.iter().map(|&i| NAMES[i]).collect::<BTreeSet<_>>();
        match self {
            Cond::All => HasDiscoveries::All,
            Cond::Any => HasDiscoveries::Any,
            Cond::AnyF => HasDiscoveries::AnyFailures,
            Cond::AllF => HasDiscoveries::AllFailures,
            Cond::AllOf(s) => HasDiscoveries::AllOf(set(s)),
            Cond::AnyOf(s) => HasDiscoveries::AnyOf(set(s)),
        }
    }
    fn sx(&self) -> String {
        match self {
            Cond::All => "all".into(),
            Cond::Any => "any".into(),
            Cond::AnyF => "anyf".into(),
            Cond::AllF => "allf".into(),
            Cond::AllOf(s) => format!("(allof {})", sx::nums(s)),
            Cond::AnyOf(s) => format!("(anyof {})", sx::nums(s)),
        }
    }
    fn kind(&self) -> &'static str {
        match self {
            Cond::All => "all",
            Cond::Any => "any",
            Cond::AnyF => "anyf",
            Cond::AllF => "allf",
            Cond::AllOf(_) => "allof",
            Cond::AnyOf(_) => "anyof",
        }
    }
}
fn subset(universe: &[usize], mask: usize) -> Vec<usize> {
    universe.iter().enumerate().filter(|(i, _)| mask >> i & 1 == 1).map(|(_, &x)| x).collect()
}

fn matches_case(out: &mut Out, cond: &Cond, d: &[usize], props: &[(usize, u8)]) {
    let real_props: Vec<Property<()>> = props.iter().map(|&(n, e)| mk_prop(n, e)).collect();
    let dset: BTreeSet<&'static str> = d.iter().map(|&i| NAMES[i]).collect();
    let r = cond.real().matches(&dset, &real_props);
    // the set as the implementation sees it: sorted, duplicate-free (names sort like their indices)
    let mut dcanon: Vec<usize> = d.to_vec();
    dcanon.sort();
    dcanon.dedup();
    let ps = sx::list(props.iter().map(|&(n, e)| format!("({} {})", n, exp_sx(e))));
    let req = format!("{} {} {}", cond.sx(), sx::nums(&dcanon), ps);
    out.m(&format!("hd-matches {}", req), &sx::b(r));
    out.o(&format!("o-hd {} {}", req, sx::b(r)));
    out.stat(&format!("matches-{}-{}", cond.kind(), if r { "true" } else { "false" }));
    if d.contains(&FOREIGN) {
        out.stat("matches-with-foreign-discovery");
    }
    if !(props.is_empty() && d.is_empty()) {
        out.distinct(&(cond.sx(), dcanon, props.to_vec()));
    }
}

fn matches_part(out: &mut Out, thorough: bool, rng: &mut Rng) {
    for n in 0..=4usize {
        // names p0..p(n-1), all expectation mixes
        let n_exp = 3usize.pow(n as u32);
        let mut universe: Vec<usize> = (0..n).collect();
        universe.push(FOREIGN);
        let n_sub = 1usize << universe.len();
        for em in 0..n_exp {
            let mut props = Vec::new();
            let mut x = em;
            for i in 0..n {
                props.push((i, (x % 3) as u8));
                x /= 3;
            }
            for dm in 0..n_sub {
                let d = subset(&universe, dm);
                for c in [Cond::All, Cond::Any, Cond::AnyF, Cond::AllF] {
                    matches_case(out, &c, &d, &props);
                }
                for sm in 0..n_sub {
                    // quick: for 4 properties the name sets of AllOf/AnyOf are sampled (1 in 6)
                    if n == 4 && !thorough && rng.below(6) != 0 {
                        continue;
                    }
                    let s = subset(&universe, sm);
                    matches_case(out, &Cond::AllOf(s.clone()), &d, &props);
                    matches_case(out, &Cond::AnyOf(s), &d, &props);
                }
            }
        }
    }
    // property lists with duplicate names (outside the theorem's hypothesis for `All`; correspondence only)
    let reps = if thorough { 6000 } else { 600 };
    for _ in 0..reps {
        let n = rng.range(1, 4);
        let props: Vec<(usize, u8)> = (0..n).map(|_| (rng.below(3), rng.below(3) as u8)).collect();
        let universe = [0usize, 1, 2, FOREIGN];
        let d = subset(&universe, rng.below(16));
        let s = subset(&universe, rng.below(16));
        let c = match rng.below(6) {
            0 => Cond::All,
            1 => Cond::Any,
            2 => Cond::AnyF,
            3 => Cond::AllF,
            4 => Cond::AllOf(s),
            _ => Cond::AnyOf(s),
        };
        out.stat("matches-duplicate-name-list");
        matches_case(out, &c, &d, &props);
    }
    out.sample("hd-matches all (0 5) ((0 a) (1 s)) => t   (`All` compares lengths: a foreign discovery counts)");
}

// ---------------------------------------------------------------------------------------------
// part 2: timing / limits / seed replay on the real checkers (each run in a child process)
// ---------------------------------------------------------------------------------------------
fn pr(exp: u8, m: u64, min_layer: u64) -> PropSpec {
    PropSpec { exp, m, min_layer }
}
fn layered(layers: u64, width: u64, n_init: u64, seed: u64, props: Vec<PropSpec>) -> ModelSpec {
    ModelSpec { shape: Shape::Layered { layers, width, deg: 3, n_init, oob_mod: 17 }, seed, props, panic_at: None, panic_thread: None }
}
fn describe(c: &RunCfg) -> String {
    format!(
        "{} threads={} fw={} target={:?} depth={:?} timeout={:?} chooser={} sim_seed={} model={:?}/seed{}",
        c.strategy, c.threads, c.finish_when.sx(), c.target_state_count, c.target_max_depth, c.timeout_ms, c.chooser, c.sim_seed,
        c.model.shape, c.model.seed
    )
}
fn done<'a>(out: &mut Out, what: &str, cfg: &RunCfg, r: &'a ChildResult) -> Option<&'a RunOut> {
    match r {
        ChildResult::Done(o, _) => {
            if o.joined != "ok" {
                out.v("run-panicked", &format!("{}: {}", what, describe(cfg)));
                None
            } else {
                // whatever stopped the run (timeout, target, finish condition): a reported discovery must be genuine
                for b in &o.bad_disc {
                    out.v("discovery-not-a-genuine-witness", &format!("{}: {}: {}", what, b, describe(cfg)));
                }
                out.stat_n("discoveries-of-child-runs-validated", o.disc.len() as u64);
                Some(o)
            }
        }
        ChildResult::Hang(el) => {
            out.v("hang", &format!("{}: join did not return within {:?}: {}", what, el, describe(cfg)));
            None
        }
        ChildResult::Crash(e) => {
            out.v("child-crash", &format!("{}: {}: {}", what, e, describe(cfg)));
            None
        }
    }
}

fn timing_part(out: &mut Out, thorough: bool, rng: &mut Rng) {
    let wd = std::time::Duration::from_secs(60);
    // (a) an expired timeout is observed within timeout + 1 s (poll period) + 6 s of slack for a loaded machine, for every
    //     thread count (the defects this guards against miss it by an order of magnitude or never return: watchdog)
    let mut cfgs = vec![];
    for strat in ["bfs", "dfs", "sim", "ondemand"] {
        for &t in &[1usize, 2, 4] {
            for &ms in &[200u64, 600] {
                let mut c = RunCfg::new(
                    ModelSpec { shape: Shape::BinTree { spin: 4000 }, seed: 3, props: vec![pr(0, 0, 0)], panic_at: None, panic_thread: None },
                    strat, t,
                );
                c.timeout_ms = Some(ms);
                c.record = false;
                c.closure_cap = 50;
                c.watchdog_ms = 20_000;
                c.perturb = if rng.chance(1, 2) { 0 } else { 1 + rng.next() % 1000 };
                cfgs.push(c);
                if strat != "sim" && t >= 2 {
                    // NARROW frontier (an endless chain: one pending state at any time): the worker that holds it never
                    // shares, its colleagues are PARKED in the job market when the timeout expires — they must be woken
                    let mut c = RunCfg::new(
                        ModelSpec { shape: Shape::Chain { fuse: u64::MAX >> 8, spin: 2000 }, seed: 1, props: vec![pr(0, 0, 0)], panic_at: None, panic_thread: None },
                        strat, t,
                    );
                    c.timeout_ms = Some(ms);
                    c.record = false;
                    c.closure_cap = 50;
                    c.watchdog_ms = 20_000;
                    cfgs.push(c);
                }
                if strat == "sim" {
                    // traces that NEVER end (two endless lanes), an eventually-property that never holds: the timeout
                    // interrupts every worker in the middle of a trace; no counterexample may be reported for a trace
                    // that was merely cut off (validated by `discovery_defect` in the child)
                    let mut c = RunCfg::new(
                        ModelSpec { shape: Shape::Chain { fuse: u64::MAX >> 8, spin: 2000 }, seed: 1, props: vec![pr(0, 0, 0), pr(1, 0, 0)], panic_at: None, panic_thread: None },
                        strat, t,
                    );
                    c.chooser = "lane".into();
                    c.sim_seed = 1 + rng.next() % 1000;
                    c.timeout_ms = Some(ms);
                    c.record = false;
                    c.closure_cap = 50;
                    c.watchdog_ms = 20_000;
                    cfgs.push(c);
                }
            }
        }
    }
    let res = run_all(&cfgs, wd, 8);
    for (c, r) in cfgs.iter().zip(res.iter()) {
        out.stat(&format!("timeout-run-{}-threads{}", c.strategy, c.threads));
        out.distinct(&describe(c));
        if let Some(o) = done(out, "expired timeout", c, r) {
            let bound = c.timeout_ms.unwrap() + 1000 + 6000;
            if (c.strategy == "bfs" && c.threads == 4) || (c.strategy == "sim" && c.threads == 1) || (c.strategy == "dfs" && c.threads == 2) {
                out.sample(&format!("timeout {} ms, {} threads={}: join after {} ms ({} states)", c.timeout_ms.unwrap(), c.strategy, c.threads, o.wall_ms, o.state_count));
            }
            if o.wall_ms > bound {
                out.v("timeout-not-honoured", &format!("join returned after {} ms > {} ms: {}", o.wall_ms, bound, describe(c)));
            }
            if o.wall_ms < c.timeout_ms.unwrap() {
                out.v("timeout-stopped-too-early", &format!("join returned after {} ms, before the timeout: {}", o.wall_ms, describe(c)));
            }
        }
    }
    // (a') the timeout limits the EXECUTION of the check: a builder configured with `.timeout(T)` and spawned only after a
    //      pause longer than T must still run its check in full (finite model that takes a few ms; results as without timeout)
    let mut cfgs = vec![];
    for strat in ["bfs", "dfs", "ondemand", "sim"] {
        for &t in &[1usize, 3] {
            for (timeout, delay) in [(None, 0u64), (Some(400u64), 900u64)] {
                let mut c = RunCfg::new(layered(12, 300, 2, 77, vec![pr(0, 0, 0), pr(2, 2_000, 8)]), strat, t);
                c.timeout_ms = timeout;
                c.spawn_delay_ms = delay;
                c.record = false;
                c.watchdog_ms = 30_000;
                if strat == "sim" { c.target_state_count = Some(3_000); c.chooser = "lcg".into(); }
                cfgs.push(c);
            }
        }
    }
    let res = run_all(&cfgs, wd, 8);
    for i in (0..cfgs.len()).step_by(2) {
        let (c0, c1) = (&cfgs[i], &cfgs[i + 1]);
        out.stat(&format!("timeout-set-long-before-spawn-{}-threads{}", c0.strategy, c0.threads));
        let (a, b) = (done(out, "no timeout", c0, &res[i]), done(out, "timeout configured 900 ms before spawn", c1, &res[i + 1]));
        if let (Some(a), Some(b)) = (a, b) {
            let sim = c0.strategy == "sim";
            // exhaustive strategies: identical counts and discoveries; simulation: the target must be reached either way
            let same = if sim { b.state_count >= 3_000 && a.state_count >= 3_000 } else { a.unique == b.unique && a.disc == b.disc };
            if !same && b.wall_ms < 400 {
                out.v("timeout-counted-from-builder-configuration", &format!(
                    "a 400 ms timeout configured 900 ms before spawn cut the check short after {} ms: unique {} vs {} without timeout, state_count {} vs {}, disc {:?} vs {:?}: {}",
                    b.wall_ms, b.unique, a.unique, b.state_count, a.state_count, b.disc, a.disc, describe(c1)));
            } else if !same {
                out.stat("timeout-set-long-before-spawn-run-slower-than-the-timeout");
            }
        }
    }
    // (b) an unexpired timeout (1000 s) changes neither results nor progress: ~3*10^5 states
    let mut cfgs = vec![];
    let seeds: Vec<u64> = (0..if thorough { 2 } else { 1 }).map(|_| 1 + rng.below(100000) as u64).collect();
    for &seed in &seeds {
        for strat in ["bfs", "dfs"] {
            for &t in &[1usize, 2, 4] {
                for timeout in [None, Some(1_000_000u64)] {
                    let mut c = RunCfg::new(layered(60, 6500, 3, seed, vec![pr(0, 0, 0), pr(2, 50_000, 10), pr(0, 70_000, 20)]), strat, t);
                    c.timeout_ms = timeout;
                    c.record = t == 1;
                    c.watchdog_ms = 120_000;
                    cfgs.push(c);
                }
            }
        }
    }
    let res = run_all(&cfgs, wd, 8);
    for i in (0..cfgs.len()).step_by(2) {
        let (c0, c1) = (&cfgs[i], &cfgs[i + 1]);
        out.stat(&format!("unexpired-timeout-pair-{}-threads{}", c0.strategy, c0.threads));
        out.distinct(&describe(c1));
        let (a, b) = (done(out, "no timeout", c0, &res[i]), done(out, "unexpired timeout", c1, &res[i + 1]));
        if let (Some(a), Some(b)) = (a, b) {
            if c0.threads != 2 {
                out.sample(&format!("unexpired timeout {} threads={}: {} states, {} ms without vs {} ms with", c0.strategy, c0.threads, a.unique, a.wall_ms, b.wall_ms));
            }
            let same = a.unique == b.unique && a.state_count == b.state_count && a.disc == b.disc
                && (c0.threads > 1 || (a.max_depth == b.max_depth && a.order_digest == b.order_digest && a.visited == b.visited));
            if !same {
                out.v("unexpired-timeout-changes-results", &format!(
                    "unique {} vs {}, state_count {} vs {}, disc {:?} vs {:?}, max_depth {} vs {}, visited {} vs {}: {}",
                    a.unique, b.unique, a.state_count, b.state_count, a.disc, b.disc, a.max_depth, b.max_depth, a.visited, b.visited, describe(c1)));
            }
            if a.unique != a.closure {
                out.v("run-mismatch", &format!("unique {} != closure {}: {}", a.unique, a.closure, describe(c0)));
            }
            if b.wall_ms > 8 * a.wall_ms + 5000 {
                out.v("unexpired-timeout-slows-down", &format!("{} ms with vs {} ms without: {}", b.wall_ms, a.wall_ms, describe(c1)));
            }
        }
    }
    // (c) finish_when x target_state_count x target_max_depth: observational bounds, judged by the Lean oracle
    let mut cfgs = vec![];
    let fws: Vec<(&str, Vec<usize>)> = vec![("all", vec![]), ("any", vec![]), ("anyf", vec![]), ("allf", vec![]), ("allof", vec![1, 2]), ("anyof", vec![2, 3]), ("allof", vec![0]), ("anyof", vec![])];
    let n_c = if thorough { 700 } else { 110 };
    for _ in 0..n_c {
        let strat = *rng.pick(&["bfs", "dfs", "ondemand", "sim"]);
        let t = *rng.pick(&[1usize, 1, 2, 4]);
        let seed = 1 + rng.below(1_000_000) as u64;
        // q0 never discovered, q1 sometimes (hit), q2 always (hit), q3 eventually never satisfied
        let props = if rng.chance(1, 4) { vec![pr(2, 900, 4), pr(0, 700, 6)] } else { vec![pr(0, 0, 0), pr(2, 900, 4), pr(0, 700, 6), pr(1, 0, 0)] };
        let (layers, width) = if strat == "sim" { (10, 30) } else { (22, 500) };
        let mut c = RunCfg::new(layered(layers, width, 3, seed, props.clone()), strat, t);
        let (k, names) = rng.pick(&fws).clone();
        c.finish_when = FwSpec { kind: k.into(), names: names.into_iter().filter(|&i| i < props.len() || rng.chance(1, 2)).collect() };
        // incl. targets that fall between `state_count` and `state_count + pending jobs` at some block boundary of the
        // ~11 000-state, ~33 000-transition model (a check that stops on an over-estimate of the generated states)
        c.target_state_count = match rng.below(4) { 0 => None, 1 => Some(1 + rng.below(4000)), 2 => Some(4000 + rng.below(26000)), _ => Some(100_000 + rng.below(100_000)) };
        c.target_max_depth = match rng.below(3) { 0 | 1 => None, _ => Some(2 + rng.below(12)) };
        if strat == "sim" {
            // a simulation needs some reason to stop
            c.timeout_ms = Some(300);
            c.sim_seed = rng.next() % 1000;
        }
        c.perturb = if rng.chance(1, 3) { 0 } else { 1 + rng.next() % 1000 };
        c.watchdog_ms = 30_000;
        cfgs.push(c);
    }
    let res = run_all(&cfgs, wd, 12);
    for (c, r) in cfgs.iter().zip(res.iter()) {
        out.stat(&format!("limits-run-{}", c.strategy));
        out.stat(&format!("limits-fw-{}", c.finish_when.kind));
        out.distinct(&describe(c));
        if let Some(o) = done(out, "limits", c, r) {
            let is_sim = c.strategy == "sim";
            let early = is_sim || o.missing > 0;
            let timed_out = is_sim && o.wall_ms >= c.timeout_ms.unwrap_or(u64::MAX);
            if early { out.stat("limits-run-stopped-early") } else { out.stat("limits-run-complete") }
            let ps = srh::sx::list(c.model.props.iter().enumerate().map(|(i, p)| format!("({} {})", i, exp_sx(p.exp))));
            let opt = |x: Option<usize>| match x { None => "none".to_string(), Some(v) => format!("(some {})", v) };
            out.o(&format!(
                "o-c12-stop {} {} {} {} {} {} {} {} {} {}",
                c.finish_when.sx(), srh::sx::nums(&o.disc), ps, srh::sx::b(early), o.state_count, opt(c.target_state_count),
                opt(c.target_max_depth), o.max_path_len, srh::sx::b(timed_out), srh::sx::b(is_sim)
            ));
            if let Some(l) = c.target_max_depth {
                if o.max_path_len == l { out.stat("limits-sim-evaluates-depth==limit(one-deeper-than-bfs/dfs)") }
            }
            if o.visited_not_reachable > 0 || o.bad_paths > 0 || (!is_sim && o.dup_visits > 0) {
                out.v("run-mismatch", &format!("not reachable {} / bad paths {} / evaluated twice {}: {}", o.visited_not_reachable, o.bad_paths, o.dup_visits, describe(c)));
            }
            // single-threaded BFS still evaluates every state nearer than the depth limit (when nothing else stops it)
            if c.strategy == "bfs" && c.threads == 1 && c.target_max_depth.is_some() {
                let stopped_otherwise = o.disc.len() == c.model.props.len()
                    || c.target_state_count.map(|t| t <= o.state_count).unwrap_or(false)
                    || fw_holds(&c.finish_when, &o.disc, &c.model.props);
                if !stopped_otherwise {
                    out.stat("bfs-depth-complete-checked");
                    if o.missing_within_depth > 0 {
                        out.v("bfs-depth-incomplete", &format!("{} states nearer than the depth limit were not evaluated: {}", o.missing_within_depth, describe(c)));
                    }
                }
            }
        }
    }
    // (d) simulation seed replay: same seed + chooser => same first trace; lcg / scripted choosers follow the
    //     independent walk `expected_first_trace`
    let mut cfgs = vec![];
    let n_d = if thorough { 120 } else { 24 };
    for i in 0..n_d {
        let seed = 1 + rng.below(1_000_000) as u64;
        let chooser = ["lcg", "script", "uniform"][i % 3];
        let t = if i % 4 == 3 { 3 } else { 1 };
        let mut c = RunCfg::new(layered(14, 25, 4, seed, vec![pr(0, 0, 0)]), "sim", t);
        c.chooser = chooser.into();
        c.script = (0..1 + rng.below(7)).map(|_| rng.below(10)).collect();
        c.sim_seed = rng.next() % 100_000;
        c.target_state_count = Some(1);
        c.target_max_depth = if rng.chance(1, 3) { Some(3 + rng.below(8)) } else { None };
        c.watchdog_ms = 20_000;
        cfgs.push(c.clone());
        cfgs.push(c);
    }
    let res = run_all(&cfgs, wd, 12);
    for i in (0..cfgs.len()).step_by(2) {
        let c = &cfgs[i];
        out.stat(&format!("replay-{}-threads{}", c.chooser, c.threads));
        out.distinct(&describe(c));
        let (a, b) = (done(out, "replay 1", c, &res[i]), done(out, "replay 2", c, &res[i + 1]));
        if let (Some(a), Some(b)) = (a, b) {
            if a.first_trace != b.first_trace {
                out.v("seed-replay-differs", &format!("{:?} vs {:?}: {}", a.first_trace, b.first_trace, describe(c)));
            }
            if a.first_trace.len() >= 2 {
                out.stat("replay-trace-of-length>=2");
            }
            let m = BigModel { spec: c.model.clone() };
            let expected = match c.chooser.as_str() {
                "lcg" => {
                    let mut st = c.sim_seed;
                    Some(expected_first_trace(&m, |n| lcg_next(&mut st) % n, c.target_max_depth))
                }
                "script" => {
                    let mut pos = (c.sim_seed % 1000) as usize;
                    let sc = c.script.clone();
                    Some(expected_first_trace(&m, |n| { pos += 1; sc[(pos - 1) % sc.len()] % n }, c.target_max_depth))
                }
                _ => None,
            };
            if let Some(e) = expected {
                if e != a.first_trace {
                    out.v("first-trace-not-a-function-of-seed-and-chooser", &format!("expected {:?} observed {:?}: {}", e, a.first_trace, describe(c)));
                }
            }
            if i < 4 {
                out.sample(&format!("replay {} seed {}: first trace {:?}", c.chooser, c.sim_seed, a.first_trace));
            }
        }
    }
}

/// the harness's own reading of a finish condition (used only to decide whether a depth-limited BFS run was
/// ALSO stopped by something else; the judgement of early stops is the Lean oracle's)
fn fw_holds(fw: &FwSpec, disc: &[usize], props: &[PropSpec]) -> bool {
    let has = |i: &usize| disc.contains(i);
    match fw.kind.as_str() {
        "all" => disc.len() == props.len(),
        "any" => !disc.is_empty(),
        "anyf" => (0..props.len()).any(|i| props[i].exp != 2 && has(&i)),
        "allf" => (0..props.len()).all(|i| props[i].exp == 2 || has(&i)),
        "allof" => fw.names.iter().all(has),
        _ => fw.names.iter().any(has),
    }
}

/// (e) seed replay on ACTOR systems: the order in which `ActorModel::actions` offers the deliverable envelopes comes from
/// iterating the network's hash containers, so "same seed, same chooser => same first trace" also depends on the networks
/// built by the `Network::new_*` constructors iterating in a reproducible order.  Two separately built models (same spec),
/// same seed, UniformChooser, one thread: the fingerprint paths shown to the visitor must coincide.  In-process, judged here.
fn actor_replay_part(out: &mut Out, thorough: bool, rng: &mut Rng) {
    use srh::table_actor::*;
    use stateright::{Checker, Model};
    use std::sync::{Arc, Mutex};
    let n = if thorough { 60 } else { 12 };
    for i in 0..n {
        let mut rr = rng.fork();
        let p = GenParams { actors: (2, 4), density: 45, max_crashes: (0, 1), ..Default::default() };
        let mut spec = gen_sys(&mut rr, &p);
        spec.kind = [NetKind::NonDup, NetKind::Dup, NetKind::Ordered][i % 3];
        spec.last = None;
        // several envelopes in flight from the start, all different
        let na = spec.tables.len();
        spec.init_envs = (0..(4 + rr.below(5))).map(|k| (k % na, (k + 1 + rr.below(2)) % na, (k % 3) as u8)).collect();
        spec.init_envs.sort();
        spec.init_envs.dedup();
        let seed = rr.next() % 1000;
        let run = |spec: &SysSpec| -> Vec<String> {
            let seen: Arc<Mutex<Vec<String>>> = Arc::new(Mutex::new(vec![]));
            let s2 = seen.clone();
            // a property that never gets a discovery keeps the traces going
            let model = spec.model(spec.table_actors::<TMsg>(None)).property(stateright::Expectation::Always, "true", |_, _| true);
            let _ = model
                .checker()
                .threads(1)
                .target_state_count(300)
                .target_max_depth(25)
                .visitor(move |p: stateright::Path<_, _>| s2.lock().unwrap().push(p.encode()))
                .spawn_simulation(seed, stateright::UniformChooser)
                .join();
            let v = seen.lock().unwrap().clone();
            // the first trace: up to (excluding) the second path of length 1
            let mut tr = vec![];
            for (k, e) in v.iter().enumerate() {
                if k > 0 && e.matches('/').count() == 0 { break; }
                tr.push(e.clone());
            }
            tr
        };
        let (a, b) = (run(&spec), run(&spec));
        out.stat(&format!("actor-replay-{}", spec.kind.name()));
        if a.len() >= 3 { out.stat("actor-replay-trace-of-length>=3"); }
        out.stat(&format!("actor-replay-trace-length-{}", a.len().min(6)));
        out.distinct(&(spec.to_sx(&[]), seed));
        if a != b {
            let k = a.iter().zip(b.iter()).position(|(x, y)| x != y).unwrap_or(a.len().min(b.len()));
            out.v("actor-seed-replay-differs", &format!("two models built from the same spec, seed {}: first traces differ at step {} ({:?} vs {:?}); system {}", seed, k, a.get(k), b.get(k), spec.to_sx(&[])));
        }
    }
}

/// Seed replay on models built from the PROVIDED ordered-reliable-link wrapper (src/actor/ordered_reliable_link.rs): a
/// sender wrapped in the link sends several messages to one peer; on an ordered network the link's resend timer puts
/// everything that is still unacknowledged back on the wire. Two separately built instances of the same model, same seed,
/// same chooser, one thread, must replay the same first trace — and the simulation must not die in `Path::from_fingerprints`
/// because re-executing the model from the initial state yields another successor than the first execution did.
fn orl_replay_part(out: &mut Out, thorough: bool, rng: &mut Rng) {
    use stateright::actor::ordered_reliable_link::*;
    use stateright::actor::*;
    use stateright::{Checker, Expectation, Model};
    use std::borrow::Cow;
    use std::sync::{Arc, Mutex};
    #[derive(Clone)]
    struct S(u8);
    impl Actor for S {
        type Msg = u8; type State = u8; type Timer = (); type Random = ();
        fn on_start(&self, id: Id, o: &mut Out<Self>) -> u8 {
            if usize::from(id) == 0 { for m in 1..=self.0 { o.send(Id::from(1), m); } }
            0
        }
        fn on_msg(&self, _id: Id, state: &mut Cow<u8>, _src: Id, msg: u8, _o: &mut Out<Self>) { *state.to_mut() = msg; }
    }
    let n = if thorough { 40 } else { 10 };
    for i in 0..n {
        let seed = rng.next() % 10_000;
        let n_msgs = 2 + (i % 4) as u8;
        let ordered = i % 5 != 4;
        let run = move || -> Result<Vec<String>, ()> {
            let seen: Arc<Mutex<Vec<String>>> = Arc::new(Mutex::new(vec![]));
            let s2 = seen.clone();
            let r = std::panic::catch_unwind(std::panic::AssertUnwindSafe(|| {
                let net = if ordered { Network::new_ordered([]) } else { Network::new_unordered_nonduplicating([]) };
                let _ = ActorModel::new((), ())
                    .actor(ActorWrapper::with_default_timeout(S(n_msgs))).actor(ActorWrapper::with_default_timeout(S(n_msgs)))
                    .init_network(net)
                    .property(Expectation::Always, "true", |_, _| true)
                    .checker().threads(1).target_state_count(400).target_max_depth(12)
                    .visitor(move |p: stateright::Path<_, _>| s2.lock().unwrap().push(p.encode()))
                    .spawn_simulation(seed, stateright::UniformChooser).join();
            }));
            if r.is_err() { return Err(()); }
            let v = seen.lock().unwrap().clone();
            let mut tr = vec![];
            for (k, e) in v.iter().enumerate() {
                if k > 0 && e.matches('/').count() == 0 { break; }
                tr.push(e.clone());
            }
            Ok(tr)
        };
        let (a, b) = (run(), run());
        out.stat(if ordered { "orl-replay-ordered-network" } else { "orl-replay-unordered-network" });
        out.distinct(&("orl-replay", seed, n_msgs, ordered));
        match (a, b) {
            (Ok(a), Ok(b)) => {
                if a.len() >= 4 { out.stat("orl-replay-trace-of-length>=4"); }
                if a != b {
                    let k = a.iter().zip(b.iter()).position(|(x, y)| x != y).unwrap_or(a.len().min(b.len()));
                    out.v("orl-seed-replay-differs", &format!("ordered-reliable-link model ({} messages to one peer, {} network), two instances, seed {}: first traces differ at step {}", n_msgs, if ordered { "ordered" } else { "unordered" }, seed, k));
                }
            }
            _ => out.v("orl-simulation-panicked", &format!("ordered-reliable-link model ({} messages to one peer, {} network), seed {}: the single-threaded simulation panicked (a path could not be rebuilt from its fingerprints: re-executing the model gave other successors)", n_msgs, if ordered { "ordered" } else { "unordered" }, seed)),
        }
    }
}

/// "An unexpired timeout changes neither results nor PROGRESS" at the level of the job market (src/job_market.rs through
/// the `stateright::verif::Market` facade): on a market created with a deadline one hour away, `n` workers wait in `pop()`;
/// another thread then publishes work — `push` of one batch per waiting worker, or one `split_and_push` of a deque with
/// enough jobs. Every waiting worker must come back with a non-empty batch within 3 s, exactly as on a market without a
/// timeout (the timeout thread must not take part in the hand-over). Harness-side oracle (V line).
fn market_timeout_neutral_part(out: &mut Out, thorough: bool, rng: &mut Rng) {
    use stateright::verif::Market;
    use std::collections::VecDeque;
    use std::sync::mpsc::channel;
    use std::time::{Duration, SystemTime};
    let rounds = if thorough { 60 } else { 12 };
    // the Park hook tells, without sleeping, that a worker has reached the condition variable
    static PARKS: std::sync::atomic::AtomicUsize = std::sync::atomic::AtomicUsize::new(0);
    stateright::verif::set_market_callback(Some(std::sync::Arc::new(|ev| {
        if ev == stateright::verif::MarketEvent::Park { PARKS.fetch_add(1, std::sync::atomic::Ordering::SeqCst); }
    })));
    for round in 0..rounds {
        PARKS.store(0, std::sync::atomic::Ordering::SeqCst);
        let n_wait = 1 + rng.below(3);
        let tc = n_wait + 1;
        let with_timeout = round % 4 != 3; // every fourth round is the control without a timeout
        let by_split = rng.chance(1, 2);
        let close_at = if with_timeout { Some(SystemTime::now() + Duration::from_secs(3600)) } else { None };
        let market: Market<u32> = Market::new(tc, close_at);
        let (tx, rx) = channel();
        let mut handles = vec![];
        for w in 0..n_wait {
            let mut m = market.clone();
            let tx = tx.clone();
            handles.push(std::thread::spawn(move || {
                let jobs = m.pop();
                let _ = tx.send((w, jobs.len()));
                // keep the handle until told to stop, so that no Drop closes the market under the others
                std::thread::sleep(Duration::from_millis(50));
                std::mem::forget(m);
            }));
        }
        // wait until every worker waits on the condition variable (Park hook; the callback runs under the market lock
        // just before the wait, so once the producer gets the lock the worker is waiting)
        let tw = std::time::Instant::now();
        while PARKS.load(std::sync::atomic::Ordering::SeqCst) < n_wait && tw.elapsed() < Duration::from_secs(20) {
            std::thread::sleep(Duration::from_millis(1));
        }
        if PARKS.load(std::sync::atomic::Ordering::SeqCst) < n_wait {
            out.stat("market-handover-round-skipped-workers-did-not-start");
            drop(market);
            continue;
        }
        let mut producer = market.clone();
        if by_split {
            let mut dq: VecDeque<u32> = (0..(4 * (n_wait as u32 + 1))).collect();
            producer.split_and_push(&mut dq);
        } else {
            for b in 0..n_wait {
                producer.push((0..3).map(|i| (b * 10 + i) as u32).collect());
            }
        }
        let mut got = 0;
        let t0 = std::time::Instant::now();
        while got < n_wait && t0.elapsed() < Duration::from_secs(3) {
            if let Ok((_, len)) = rx.recv_timeout(Duration::from_millis(100)) {
                if len > 0 { got += 1; }
                else { out.v("market-timeout-neutral", &format!("round {}: a waiting worker came back EMPTY-handed from an open market (timeout configured: {})", round, with_timeout)); got += 1; }
            }
        }
        out.stat(if with_timeout { "market-handover-with-unexpired-timeout" } else { "market-handover-without-timeout" });
        if got < n_wait {
            out.v("market-timeout-neutral", &format!(
                "round {}: {} of {} workers waiting in pop() were not handed the published work within 3 s on a market with{} an unexpired timeout ({})",
                round, n_wait - got, n_wait, if with_timeout { "" } else { "out" }, if by_split { "split_and_push" } else { "push" }));
            // the stuck threads are leaked; closing the market lets them go
        }
        drop(producer);
        drop(market);
        for h in handles { if h.is_finished() { let _ = h.join(); } }
    }
    stateright::verif::set_market_callback(None);
}

/// `--only simcut` (used by C03 and C11): simulation runs whose traces are CUT by a timeout in the middle — endless lanes
/// (no trace ever ends: no eventually-counterexample may be reported at all) and the binary tree (a genuine
/// counterexample ends in the terminal state at depth 56) — with every returned discovery re-validated in the child.
fn simcut_part(out: &mut Out, thorough: bool, rng: &mut Rng) {
    let wd = std::time::Duration::from_secs(60);
    let mut cfgs = vec![];
    for &t in if thorough { &[1usize, 2, 3, 4][..] } else { &[1usize, 3][..] } {
        for &ms in &[150u64, 400] {
            for endless in [true, false] {
                let shape = if endless { Shape::Chain { fuse: u64::MAX >> 8, spin: 2000 } } else { Shape::BinTree { spin: 4000 } };
                let mut c = RunCfg::new(
                    ModelSpec { shape, seed: 1, props: vec![pr(0, 0, 0), pr(1, 0, 0)], panic_at: None, panic_thread: None },
                    "sim", t,
                );
                if endless { c.chooser = "lane".into(); }
                c.sim_seed = 1 + rng.next() % 1000;
                c.timeout_ms = Some(ms);
                c.record = false;
                c.closure_cap = 50;
                c.watchdog_ms = 20_000;
                cfgs.push(c);
            }
        }
    }
    let res = run_all(&cfgs, wd, 8);
    for (c, r) in cfgs.iter().zip(res.iter()) {
        out.stat(&format!("simulation-cut-by-timeout-threads{}", c.threads));
        out.distinct(&describe(c));
        if let Some(o) = done(out, "simulation cut by a timeout", c, r) {
            if matches!(c.model.shape, Shape::Chain { .. }) && o.disc.contains(&1) {
                out.v("eventually-counterexample-for-a-trace-that-was-cut-off", &format!("no trace of this model ever ends, yet a counterexample was reported: {}", describe(c)));
            }
            out.sample(&format!("simulation {} threads={} timeout {} ms: join after {} ms, {} states, discoveries {:?}", if matches!(c.model.shape, Shape::Chain { .. }) { "endless lanes" } else { "binary tree" }, c.threads, c.timeout_ms.unwrap(), o.wall_ms, o.state_count, o.disc));
        }
    }
}

fn main() {
    maybe_child();
    quiet_panics();
    let mut out = Out::new();
    out.max_samples = 16;
    let mut rng = Rng::new(seed());
    let th = thorough();
    if arg_str("--only").as_deref() == Some("simcut") {
        simcut_part(&mut out, th, &mut rng);
        out.finish();
        return;
    }
    if arg_str("--only").map(|s| s != "timing").unwrap_or(true) {
        matches_part(&mut out, th, &mut rng);
    }
    if arg_str("--only").map(|s| s != "matches").unwrap_or(true) {
        market_timeout_neutral_part(&mut out, th, &mut rng);
        timing_part(&mut out, th, &mut rng);
        actor_replay_part(&mut out, th, &mut rng);
        orl_replay_part(&mut out, th, &mut rng);
    }
    out.finish();
}
