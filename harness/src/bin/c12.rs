//! C12 — run controls: implementation side.
//!  part 1: `HasDiscoveries::matches`, exhaustive (all six variants x all discovery subsets x property
//!          lists of <= 4 with all expectation mixes and a foreign name) + duplicate-name lists.
//!  part 2: timing / timeout / limits / seed replay on the real checkers (child processes), see `timing`.
use srh::out::*;
use srh::rng::Rng;
use srh::sx;
use stateright::{HasDiscoveries, Property};
use std::collections::BTreeSet;

// ---------------------------------------------------------------------------------------------
// part 1: matches
// ---------------------------------------------------------------------------------------------
const NAMES: [&str; 6] = ["p0", "p1", "p2", "p3", "p4", "foreign"];
const FOREIGN: usize = 5;

fn t(_: &(), _: &()) -> bool {
    true
}
fn mk_prop(name: usize, exp: u8) -> Property<()> {
    match exp {
        0 => Property::always(NAMES[name], t),
        1 => Property::eventually(NAMES[name], t),
        _ => Property::sometimes(NAMES[name], t),
    }
}
fn exp_sx(e: u8) -> &'static str {
    match e {
        0 => "a",
        1 => "e",
        _ => "s",
    }
}
#[derive(Clone, Debug)]
enum Cond {
    All,
    Any,
    AnyF,
    AllF,
    AllOf(Vec<usize>),
    AnyOf(Vec<usize>),
}
impl Cond {
    fn real(&self) -> HasDiscoveries {
        let set = |s: &Vec<usize>| s.iter().map(|&i| NAMES[i]).collect::<BTreeSet<_>>();
        match self {
            Cond::All => HasDiscoveries::All,
            Cond::Any => HasDiscoveries::Any,
            Cond::AnyF => HasDiscoveries::AnyFailures,
            Cond::AllF => HasDiscoveries::AllFailures,
            Cond::AllOf(s) => HasDiscoveries::AllOf(set(s)),
            Cond::AnyOf(s) => HasDiscoveries::AnyOf(set(s)),
        }
    }
    fn sx(&self) -> String {
        match self {
            Cond::All => "all".into(),
            Cond::Any => "any".into(),
            Cond::AnyF => "anyf".into(),
            Cond::AllF => "allf".into(),
            Cond::AllOf(s) => format!("(allof {})", sx::nums(s)),
            Cond::AnyOf(s) => format!("(anyof {})", sx::nums(s)),
        }
    }
    fn kind(&self) -> &'static str {
        match self {
            Cond::All => "all",
            Cond::Any => "any",
            Cond::AnyF => "anyf",
            Cond::AllF => "allf",
            Cond::AllOf(_) => "allof",
            Cond::AnyOf(_) => "anyof",
        }
    }
}
fn subset(universe: &[usize], mask: usize) -> Vec<usize> {
    universe.iter().enumerate().filter(|(i, _)| mask >> i & 1 == 1).map(|(_, &x)| x).collect()
}

fn matches_case(out: &mut Out, cond: &Cond, d: &[usize], props: &[(usize, u8)]) {
    let real_props: Vec<Property<()>> = props.iter().map(|&(n, e)| mk_prop(n, e)).collect();
    let dset: BTreeSet<&'static str> = d.iter().map(|&i| NAMES[i]).collect();
    let r = cond.real().matches(&dset, &real_props);
    // the set as the implementation sees it: sorted, duplicate-free (names sort like their indices)
    let mut dcanon: Vec<usize> = d.to_vec();
    dcanon.sort();
    dcanon.dedup();
    let ps = sx::list(props.iter().map(|&(n, e)| format!("({} {})", n, exp_sx(e))));
    let req = format!("{} {} {}", cond.sx(), sx::nums(&dcanon), ps);
    out.m(&format!("hd-matches {}", req), &sx::b(r));
    out.o(&format!("o-hd {} {}", req, sx::b(r)));
    out.stat(&format!("matches-{}-{}", cond.kind(), if r { "true" } else { "false" }));
    if d.contains(&FOREIGN) {
        out.stat("matches-with-foreign-discovery");
    }
    if !(props.is_empty() && d.is_empty()) {
        out.distinct(&(cond.sx(), dcanon, props.to_vec()));
    }
}

fn matches_part(out: &mut Out, thorough: bool, rng: &mut Rng) {
    for n in 0..=4usize {
        // names p0..p(n-1), all expectation mixes
        let n_exp = 3usize.pow(n as u32);
        let mut universe: Vec<usize> = (0..n).collect();
        universe.push(FOREIGN);
        let n_sub = 1usize << universe.len();
        for em in 0..n_exp {
            let mut props = Vec::new();
            let mut x = em;
            for i in 0..n {
                props.push((i, (x % 3) as u8));
                x /= 3;
            }
            for dm in 0..n_sub {
                let d = subset(&universe, dm);
                for c in [Cond::All, Cond::Any, Cond::AnyF, Cond::AllF] {
                    matches_case(out, &c, &d, &props);
                }
                for sm in 0..n_sub {
                    // quick: for 4 properties the name sets of AllOf/AnyOf are sampled (1 in 6)
                    if n == 4 && !thorough && rng.below(6) != 0 {
                        continue;
                    }
                    let s = subset(&universe, sm);
                    matches_case(out, &Cond::AllOf(s.clone()), &d, &props);
                    matches_case(out, &Cond::AnyOf(s), &d, &props);
                }
            }
        }
    }
    // property lists with duplicate names (outside the theorem's hypothesis for `All`; correspondence only)
    let reps = if thorough { 6000 } else { 600 };
    for _ in 0..reps {
        let n = rng.range(1, 4);
        let props: Vec<(usize, u8)> = (0..n).map(|_| (rng.below(3), rng.below(3) as u8)).collect();
        let universe = [0usize, 1, 2, FOREIGN];
        let d = subset(&universe, rng.below(16));
        let s = subset(&universe, rng.below(16));
        let c = match rng.below(6) {
            0 => Cond::All,
            1 => Cond::Any,
            2 => Cond::AnyF,
            3 => Cond::AllF,
            4 => Cond::AllOf(s),
            _ => Cond::AnyOf(s),
        };
        out.stat("matches-duplicate-name-list");
        matches_case(out, &c, &d, &props);
    }
    out.sample("hd-matches all (0 5) ((0 a) (1 s)) => t   (`All` compares lengths: a foreign discovery counts)");
}

fn timing_part(_out: &mut Out, _thorough: bool, _rng: &mut Rng) {}

fn main() {
    quiet_panics();
    let mut out = Out::new();
    let mut rng = Rng::new(seed());
    let th = thorough();
    if arg_str("--only").map(|s| s != "timing").unwrap_or(true) {
        matches_part(&mut out, th, &mut rng);
    }
    if arg_str("--only").map(|s| s != "matches").unwrap_or(true) {
        timing_part(&mut out, th, &mut rng);
    }
    out.finish();
}
