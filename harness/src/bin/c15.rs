//! C15 — actor adapters are transparent.
//! (i) every handler of every adapter (`Choice<A,Never>`, `Choice<A1,A2>` in each position and nested,
//!     `RegisterActor::Server`, `WORegisterActor::Server`, and nestings of these) against the unwrapped
//!     `TableActor` on every (state, event) of random tables using messages, timers and random choices;
//! (ii) the reachable graphs of wrapped and unwrapped systems (walked through `Model`) are isomorphic under the lift;
//! (iii) both against the Lean model. Plus the scripted `Vec<(Id, Msg)>` client, alone and against echo servers.
use choice::{Choice, Never};
use srh::out::*;
use srh::rng::Rng;
use srh::table_actor::*;
use stateright::actor::register::{RegisterActor, RegisterActorState, RegisterMsg};
use stateright::actor::write_once_register::{WORegisterActor, WORegisterActorState, WORegisterMsg};
use stateright::actor::{Actor, Command, Id, Out as AOut};
use std::borrow::Cow;
use std::panic::{catch_unwind, AssertUnwindSafe};
use std::sync::Arc;

type RM = RegisterMsg<u64, char, u8>;
type WM = WORegisterMsg<u64, char, u8>;

fn out_sx<A: Actor>(o: &AOut<A>) -> String
where
    A::Msg: Code,
    A::Timer: Code,
    A::Random: Code,
{
    let v: Vec<String> = o.iter().map(|c| match c {
        Command::Send(d, m) => format!("(s {} {})", usize::from(*d), m.code()),
        Command::SetTimer(t, _) => format!("(t {})", t.code()),
        Command::CancelTimer(t) => format!("(c {})", t.code()),
        Command::ChooseRandom(k, cs) => {
            let mut s = format!("(r {}", key_index(k));
            for c in cs { s.push_str(&format!(" {}", c.code())); }
            s.push(')');
            s
        }
    }).collect();
    format!("({})", v.join(" "))
}

#[derive(Clone, Debug)]
enum Evt { Start, Msg(usize, u8), Timeout(u8), Random(u8) }
impl Evt {
    fn sx(&self, id: usize) -> String {
        match self {
            Evt::Start => format!("(start {})", id),
            Evt::Msg(src, m) => format!("(msg {} {} {})", id, src, m),
            Evt::Timeout(t) => format!("(timeout {} {})", id, t),
            Evt::Random(r) => format!("(random {} {})", id, r),
        }
    }
}

/// run one handler; returns canonical result text (`panic` | `(ns cmds)`; for start `(state cmds)`)
fn call<A>(a: &A, id: usize, st: Option<&A::State>, ev: &Evt, ust: &dyn Fn(&A::State) -> String) -> String
where
    A: Actor<Timer = TTimer, Random = TRandom>,
    A::Msg: Code,
{
    let r = catch_unwind(AssertUnwindSafe(|| {
        let mut o = AOut::new();
        match ev {
            Evt::Start => { let s = a.on_start(Id::from(id), &mut o); format!("({} {})", ust(&s), out_sx(&o)) }
            _ => {
                let mut cow = Cow::Borrowed(st.unwrap());
                match ev {
                    Evt::Msg(src, m) => a.on_msg(Id::from(id), &mut cow, Id::from(*src), A::Msg::from_code(*m as u64), &mut o),
                    Evt::Timeout(t) => a.on_timeout(Id::from(id), &mut cow, &TTimer(*t), &mut o),
                    Evt::Random(x) => a.on_random(Id::from(id), &mut cow, &TRandom(*x), &mut o),
                    Evt::Start => unreachable!(),
                }
                let ns = match &cow { Cow::Borrowed(_) => "-".to_string(), Cow::Owned(s) => ust(s) };
                format!("({} {})", ns, out_sx(&o))
            }
        }
    }));
    r.unwrap_or_else(|_| "panic".into())
}

fn log_sx(l: &Log) -> String {
    format!("({})", take_log(l).iter().map(|i| i.to_sx()).collect::<Vec<_>>().join(" "))
}

fn wrap_sx(path: &str, inner: String) -> String {
    let mut s = inner;
    for c in path.chars().rev() { s = format!("({} {})", if c == 'O' { 'L' } else { c }, s); }
    s
}
fn actor_sx(path: &str, t: &Table) -> String {
    let mut s = t.to_sx();
    for c in path.chars().rev() { s = format!("({} {})", c, s); }
    s
}

/// (i) all handlers of one wrapped actor against the unwrapped one
fn handler_cases<A, M>(out: &mut Out, r: &mut Rng, path: &str, table: &Arc<Table>, n_states: u8, n_actors: usize,
                        mk: &dyn Fn(TableActor<M>) -> A, tag: &dyn Fn(TState) -> A::State, ust: &dyn Fn(&A::State) -> String,
                        mismatch: Option<&A::State>, mismatch_sx: &str)
where
    M: Code,
    A: Actor<Msg = M, Timer = TTimer, Random = TRandom>,
{
    let lu = new_log();
    let lw = new_log();
    let plain: TableActor<M> = TableActor::new(table.clone(), Some(lu.clone()));
    let wrapped: A = mk(TableActor::new(table.clone(), Some(lw.clone())));
    let asx = actor_sx(path, table);
    let path_sx = format!("({})", path.chars().map(|c| c.to_string()).collect::<Vec<_>>().join(" "));
    let id = r.below(n_actors);
    let mut events = vec![Evt::Start];
    // every message code the table knows (register wrappers: 7 codes = all client-facing variants + Internal)
    let n_msg_codes = if path.contains('S') || path.contains('W') { 7u8 } else { 3u8 };
    for s in 0..n_actors + 1 { for m in 0..n_msg_codes { events.push(Evt::Msg(s, m)); } }
    for t in 0..3u8 { events.push(Evt::Timeout(t)); events.push(Evt::Random(t)); }
    for ev in &events {
        let states: Vec<u8> = if matches!(ev, Evt::Start) { vec![0] } else { (0..n_states).collect() };
        for s in states {
            let ru = call(&plain, id, Some(&TState(s)), ev, &|x: &TState| x.0.to_string());
            let ws = tag(TState(s));
            let rw = call(&wrapped, id, Some(&ws), ev, ust);
            let (l1, l2) = (log_sx(&lu), log_sx(&lw));
            out.m(&format!("wrap-h {} {} {}", asx, ust(&ws), ev.sx(id)), &rw);
            out.o(&format!("o-handler {} {} {} {} {}", path_sx, ru, rw, l1, l2));
            out.stat(match ev { Evt::Start => "handler-start", Evt::Msg(..) => "handler-msg", Evt::Timeout(_) => "handler-timeout", Evt::Random(_) => "handler-random" });
            if ru.starts_with("(-") { out.stat("handler-result-borrowed"); } else if !matches!(ev, Evt::Start) { out.stat("handler-result-owned"); }
            if ru.ends_with("())") { out.stat("handler-no-commands"); } else { out.stat("handler-with-commands"); }
            out.distinct(&(path.to_string(), asx.clone(), s, ev.sx(id)));
        }
    }
    // a state whose tag does not match the actor: `unreachable!()` in Choice (panic), `_ => {}` in the register actors
    if let Some(ms) = mismatch {
        for ev in [Evt::Msg(0, 0), Evt::Timeout(0), Evt::Random(0)] {
            let rw = call(&wrapped, id, Some(ms), &ev, ust);
            take_log(&lw);
            if !mismatch_sx.is_empty() {
                out.m(&format!("wrap-h {} {} {}", asx, mismatch_sx, ev.sx(id)), &rw);
            } else if rw != "(- ())" {
                out.v("server-with-client-state", &format!("{} on a Client state answered {}", path, rw));
            }
            out.stat(if rw == "panic" { "mismatched-tag-panics" } else { "mismatched-tag-noop" });
        }
    }
}

/// (ii)+(iii) wrapped vs unwrapped system walks
fn system_case<A, M>(out: &mut Out, spec: &SysSpec, wraps: &[String], bound: usize, mk: &dyn Fn(usize, TableActor<M>) -> A,
                      ust: &dyn Fn(&A::State) -> String, sample: bool)
where
    M: Code,
    A: Actor<Msg = M, Timer = TTimer, Random = TRandom>,
{
    let lu = new_log();
    let lw = new_log();
    let mu = spec.model(spec.table_actors::<M>(Some(&lu)));
    let gu = explore(&mu, bound, &tstate_sx, Some(&lu));
    let actors: Vec<A> = spec.tables.iter().enumerate().map(|(i, t)| mk(i, TableActor::new(t.clone(), Some(lw.clone())))).collect();
    let mw = spec.model(actors);
    let gw = explore(&mw, bound, &ust, Some(&lw));
    let wr: Vec<&str> = wraps.iter().map(|s| s.as_str()).collect();
    let sxw = spec.to_sx(&wr);
    out.m(&format!("graph {} {}", sxw, bound), &gw.to_sx());
    let wraps_sx = format!("({})", wraps.iter().map(|w| format!("({})", w.chars().map(|c| c.to_string()).collect::<Vec<_>>().join(" "))).collect::<Vec<_>>().join(" "));
    out.o(&format!("o-iso {} {} {}", wraps_sx, gu.to_sx(), gw.to_sx()));
    // the C06 oracle on the wrapped walk: the inner actors were invoked exactly as the step relation says
    out.o(&format!("o-graph {} {} ({})", sxw, gw.to_sx_with_log(), gw.init_log.iter().map(|i| i.to_sx()).collect::<Vec<_>>().join(" ")));
    let mut kinds: Vec<&str> = wraps.iter().map(|s| s.as_str()).collect();
    kinds.sort(); kinds.dedup();
    out.stat(&format!("system-adapters-{}", kinds.join("+")));
    out.stat_n("system-transitions", gw.transitions() as u64);
    out.stat_n("system-states", gw.states.len() as u64);
    let uses = |k: &str| spec.tables.iter().any(|t| t.all_cmds().any(|c| c.kind() == k));
    if uses("set-timer") { out.stat("system-uses-timers"); }
    if uses("choose-random") { out.stat("system-uses-random"); }
    if gw.transitions() > 0 { out.distinct(&sxw); }
    if sample { out.sample(&format!("wrapped system {} -> {} states / unwrapped {} states", sxw, gw.states.len(), gu.states.len())); }
}

// ---- the concrete adapter stacks ----------------------------------------------------------------------
type T = TableActor<TMsg>;
type C1 = Choice<T, Never>;
type C2 = Choice<T, T>;
type C3 = Choice<T, Choice<T, Choice<T, Never>>>;
type S1 = RegisterActor<TableActor<RM>>;
type W1 = WORegisterActor<TableActor<WM>>;
type SC = RegisterActor<Choice<TableActor<RM>, TableActor<RM>>>;
type CS = Choice<RegisterActor<TableActor<RM>>, Never>;

fn u1(s: &<C1 as Actor>::State) -> String { match s { Choice::L(x) => format!("(L {})", x.0), Choice::R(_) => unreachable!() } }
fn u2(s: &<C2 as Actor>::State) -> String { match s { Choice::L(x) => format!("(L {})", x.0), Choice::R(x) => format!("(R {})", x.0) } }
fn u3(s: &<C3 as Actor>::State) -> String {
    match s {
        Choice::L(x) => format!("(L {})", x.0),
        Choice::R(Choice::L(x)) => format!("(R (L {}))", x.0),
        Choice::R(Choice::R(Choice::L(x))) => format!("(R (R (L {})))", x.0),
        Choice::R(Choice::R(Choice::R(_))) => unreachable!(),
    }
}
fn us(s: &<S1 as Actor>::State) -> String { match s { RegisterActorState::Server(x) => format!("(S {})", x.0), _ => "client".into() } }
fn uw(s: &<W1 as Actor>::State) -> String { match s { WORegisterActorState::Server(x) => format!("(W {})", x.0), _ => "client".into() } }
fn usc(s: &<SC as Actor>::State) -> String {
    match s { RegisterActorState::Server(Choice::L(x)) => format!("(S (L {}))", x.0), RegisterActorState::Server(Choice::R(x)) => format!("(S (R {}))", x.0), _ => "client".into() }
}
fn ucs(s: &<CS as Actor>::State) -> String {
    match s { Choice::L(RegisterActorState::Server(x)) => format!("(L (S {}))", x.0), _ => "client".into() }
}

// ---- scripted Vec client ---------------------------------------------------------------------------------
#[derive(Clone, Debug, PartialEq)]
struct Echo;
impl Actor for Echo {
    type Msg = u8;
    type State = u8;
    type Timer = ();
    type Random = ();
    fn on_start(&self, _: Id, _: &mut AOut<Self>) -> u8 { 0 }
    fn on_msg(&self, _: Id, state: &mut Cow<u8>, src: Id, msg: u8, o: &mut AOut<Self>) {
        o.send(src, (msg + 1) % 3);
        *state = Cow::Owned((**state + 1) % 2);
    }
}
fn echo_table(n: usize) -> Table {
    let mut t = Table::default();
    for s in 0..2u8 { for src in 0..n { for m in 0..3u8 { t.msg.insert((s, src, m), Row { ns: Some((s + 1) % 2), cmds: vec![TCmd::Send(src, (m + 1) % 3)] }); } } }
    t
}
type VC = Choice<Vec<(Id, u8)>, Choice<Echo, Never>>;
fn uvc(s: &<VC as Actor>::State) -> String {
    match s { Choice::L(k) => format!("(L {})", k), Choice::R(Choice::L(x)) => format!("(R (L {}))", x), Choice::R(Choice::R(_)) => unreachable!() }
}

fn vec_sx(sc: &[(Id, u8)]) -> String {
    format!("(vec{})", sc.iter().map(|(d, m)| format!(" ({} {})", usize::from(*d), m)).collect::<String>())
}

fn vec_cases(out: &mut Out, r: &mut Rng, bound: usize) {
    let len = r.below(6);
    let n = r.range(2, 3);
    let script: Vec<(Id, u8)> = (0..len).map(|_| (Id::from(r.below(n)), r.below(3) as u8)).collect();
    let ssx = format!("({})", script.iter().map(|(d, m)| format!("({} {})", usize::from(*d), m)).collect::<Vec<_>>().join(" "));
    // alone: on_start then k messages
    for k in 0..=len + 1 {
        let mut sends: Vec<(usize, u8)> = Vec::new();
        let mut o: AOut<Vec<(Id, u8)>> = AOut::new();
        let mut st = script.on_start(Id::from(0), &mut o);
        for c in o.iter() { if let Command::Send(d, m) = c { sends.push((usize::from(*d), *m)); } }
        for j in 0..k {
            let mut o: AOut<Vec<(Id, u8)>> = AOut::new();
            let mut cow = Cow::Borrowed(&st);
            script.on_msg(Id::from(0), &mut cow, Id::from(1), (j % 3) as u8, &mut o);
            let ns = match &cow { Cow::Borrowed(_) => "-".to_string(), Cow::Owned(s) => s.to_string() };
            let osx = format!("({})", o.iter().filter_map(|c| if let Command::Send(d, m) = c { Some(format!("(s {} {})", usize::from(*d), m)) } else { None }).collect::<Vec<_>>().join(" "));
            out.m(&format!("wrap-h {} {} (msg 0 1 {})", vec_sx(&script), st, j % 3), &format!("({} {})", ns, osx));
            for c in o.iter() { if let Command::Send(d, m) = c { sends.push((usize::from(*d), *m)); } }
            if let Cow::Owned(s) = cow { st = s; }
        }
        out.o(&format!("o-vec {} {} ({})", ssx, k, sends.iter().map(|(d, m)| format!("({} {})", d, m)).collect::<Vec<_>>().join(" ")));
        out.stat(&format!("vec-script-len-{}", len));
        out.distinct(&("vec", ssx.clone(), k));
    }
    // against echo servers: actor 0..c-1 clients, the rest echo servers
    let clients = r.range(1, n - 1);
    let kind = *r.pick(&NetKind::all());
    let mut actors: Vec<VC> = Vec::new();
    let mut actor_sx: Vec<String> = Vec::new();
    for i in 0..n {
        if i < clients {
            let l = r.below(4);
            let sc: Vec<(Id, u8)> = (0..l).map(|_| (Id::from(r.range(clients.min(n - 1), n - 1)), r.below(3) as u8)).collect();
            actor_sx.push(format!("(L {})", vec_sx(&sc)));
            actors.push(Choice::L(sc));
        } else {
            actor_sx.push(format!("(R (O {}))", echo_table(n).to_sx()));
            actors.push(Choice::R(Choice::new(Echo)));
        }
    }
    let spec = SysSpec { kind, lossy: r.chance(1, 2), max_crashes: r.below(2), hist: HistCfg { in_mode: 0, out_mode: if r.chance(1, 2) { 1 } else { 0 } },
        init_envs: vec![], last: None, tables: (0..n).map(|_| Arc::new(Table::default())).collect() };
    let model = spec.model(actors);
    let g = explore(&model, bound, &uvc, None);
    out.m(&format!("graph {} {}", spec.to_sx_with_actors(&actor_sx), bound), &g.to_sx());
    out.stat("vec-client-system");
    out.stat_n("vec-system-transitions", g.transitions() as u64);
}

fn main() {
    quiet_panics();
    let mut out = Out::new();
    let mut r = Rng::new(seed());
    let th = thorough();
    let n_act = arg_u64("--actors", if th { 10_000 } else { 500 }) as usize;
    let n_sys = arg_u64("--systems", if th { 2_500 } else { 150 }) as usize;
    let bound = arg_u64("--bound", if th { 150 } else { 80 }) as usize;
    let client_rs = RegisterActorState::Client { awaiting: None, op_count: 0 };
    let client_ws = WORegisterActorState::Client { awaiting: None, op_count: 0 };
    for i in 0..n_act {
        let mut rr = r.fork();
        let n_actors = rr.range(1, 3);
        // the register wrappers (i % 9 >= 5) get a message alphabet of 7 codes: codes 1..=5 are the CLIENT-FACING variants
        // (Put, Get, PutOk, GetOk, PutFail) — a wrapped server may itself be a client of another server and must be
        // handed the reply variants too — the others are Internal(..)
        let p = GenParams { density: 55, msgs: if i % 9 >= 5 { 7 } else { 3 }, ..Default::default() };
        let t = Arc::new(gen_table(&mut rr, &p, n_actors));
        let ns = 4u8;
        match i % 9 {
            0 => handler_cases::<C1, TMsg>(&mut out, &mut rr, "O", &t, ns, n_actors, &|a| Choice::new(a), &|s| Choice::new(s), &u1, None, ""),
            1 => handler_cases::<C2, TMsg>(&mut out, &mut rr, "L", &t, ns, n_actors, &|a| Choice::L(a), &|s| Choice::L(s), &u2, Some(&Choice::R(TState(1))), "(R 1)"),
            2 => handler_cases::<C2, TMsg>(&mut out, &mut rr, "R", &t, ns, n_actors, &|a| Choice::R(a), &|s| Choice::R(s), &u2, Some(&Choice::L(TState(0))), "(L 0)"),
            3 => handler_cases::<C3, TMsg>(&mut out, &mut rr, "RL", &t, ns, n_actors, &|a| Choice::R(Choice::L(a)), &|s| Choice::R(Choice::L(s)), &u3, Some(&Choice::R(Choice::R(Choice::L(TState(2))))), "(R (R (L 2)))"),
            4 => handler_cases::<C3, TMsg>(&mut out, &mut rr, "RRO", &t, ns, n_actors, &|a| Choice::R(Choice::R(Choice::new(a))), &|s| Choice::R(Choice::R(Choice::new(s))), &u3, Some(&Choice::L(TState(0))), "(L 0)"),
            5 => handler_cases::<S1, RM>(&mut out, &mut rr, "S", &t, ns, n_actors, &|a| RegisterActor::Server(a), &|s| RegisterActorState::Server(s), &us, Some(&client_rs), ""),
            6 => handler_cases::<W1, WM>(&mut out, &mut rr, "W", &t, ns, n_actors, &|a| WORegisterActor::Server(a), &|s| WORegisterActorState::Server(s), &uw, Some(&client_ws), ""),
            7 => handler_cases::<SC, RM>(&mut out, &mut rr, "SR", &t, ns, n_actors, &|a| RegisterActor::Server(Choice::R(a)), &|s| RegisterActorState::Server(Choice::R(s)), &usc, Some(&RegisterActorState::Server(Choice::L(TState(3)))), "(S (L 3))"),
            _ => handler_cases::<CS, RM>(&mut out, &mut rr, "OS", &t, ns, n_actors, &|a| Choice::new(RegisterActor::Server(a)), &|s| Choice::new(RegisterActorState::Server(s)), &ucs, None, ""),
        }
        out.stat(&format!("adapter-{}", ["O", "L", "R", "RL", "RRO", "S", "W", "SR", "OS"][i % 9]));
    }
    // `Out::append` itself, with a receiver that already holds commands (the crate's adapters always append into an
    // empty `Out`, a user-written wrapper need not): the result is the receiver's commands followed by the appended
    // ones, in order, and the argument is left empty.  Direct law, judged here.
    for _ in 0..(if th { 4000 } else { 400 }) {
        let mut rr = r.fork();
        let p = GenParams { density: 55, ..Default::default() };
        let mk = |rr: &mut Rng| -> Vec<TCmd> { (0..rr.below(5)).map(|_| gen_cmd(rr, &p, 3)).collect() };
        let (a, b) = (mk(&mut rr), mk(&mut rr));
        let fill = |cs: &[TCmd]| -> AOut<TableActor<TMsg>> {
            let mut o = AOut::<TableActor<TMsg>>::new();
            for c in cs {
                match c {
                    TCmd::Send(d, m) => o.send(Id::from(*d), TMsg::from_code(*m as u64)),
                    TCmd::SetTimer(t) => o.set_timer(TTimer(*t), stateright::actor::model_timeout()),
                    TCmd::CancelTimer(t) => o.cancel_timer(TTimer(*t)),
                    TCmd::ChooseRandom(k, cs) => o.choose_random(key_name(*k), cs.iter().map(|c| TRandom(*c)).collect()),
                }
            }
            o
        };
        let mut oa = fill(&a);
        let mut ob = fill(&b);
        let mut all = a.clone();
        all.extend(b.iter().cloned());
        let expect = format!("{:?}", fill(&all));
        oa.append(&mut ob);
        if format!("{:?}", oa) != expect || !ob.is_empty() {
            out.v("out-append", &format!("Out::append: receiver {} + argument {} gave {:?} (argument left with {} commands)", cmds_sx(&a), cmds_sx(&b), oa, ob.len()));
        }
        out.stat("out-append-laws");
        if !a.is_empty() && !b.is_empty() { out.stat("out-append-both-nonempty"); }
    }
    for i in 0..n_sys {
        let mut rr = r.fork();
        let p = GenParams { actors: (1, 3), density: 35, max_crashes: (0, 1), msgs: if i % 6 >= 3 { 7 } else { 3 }, ..Default::default() };
        let spec = gen_sys(&mut rr, &p);
        let n = spec.tables.len();
        let sample = i < 2;
        match i % 6 {
            0 => system_case::<C1, TMsg>(&mut out, &spec, &vec!["O".to_string(); n], bound, &|_, a| Choice::new(a), &u1, sample),
            1 => {
                let w: Vec<String> = (0..n).map(|_| if rr.chance(1, 2) { "L".to_string() } else { "R".to_string() }).collect();
                let w2 = w.clone();
                system_case::<C2, TMsg>(&mut out, &spec, &w, bound, &move |i, a| if w2[i] == "L" { Choice::L(a) } else { Choice::R(a) }, &u2, sample)
            }
            2 => {
                let w: Vec<String> = (0..n).map(|_| ["L", "RL", "RRO"][rr.below(3)].to_string()).collect();
                let w2 = w.clone();
                system_case::<C3, TMsg>(&mut out, &spec, &w, bound, &move |i, a| match w2[i].as_str() { "L" => Choice::L(a), "RL" => Choice::R(Choice::L(a)), _ => Choice::R(Choice::R(Choice::new(a))) }, &u3, sample)
            }
            3 => system_case::<S1, RM>(&mut out, &spec, &vec!["S".to_string(); n], bound, &|_, a| RegisterActor::Server(a), &us, sample),
            4 => system_case::<W1, WM>(&mut out, &spec, &vec!["W".to_string(); n], bound, &|_, a| WORegisterActor::Server(a), &uw, sample),
            _ => {
                let w: Vec<String> = (0..n).map(|_| if rr.chance(1, 2) { "SL".to_string() } else { "SR".to_string() }).collect();
                let w2 = w.clone();
                system_case::<SC, RM>(&mut out, &spec, &w, bound, &move |i, a| RegisterActor::Server(if w2[i] == "SL" { Choice::L(a) } else { Choice::R(a) }), &usc, sample)
            }
        }
    }
    let n_vec = if th { 1500 } else { 120 };
    for _ in 0..n_vec {
        let mut rr = r.fork();
        vec_cases(&mut out, &mut rr, bound);
    }
    out.finish();
}
