//! obs — observation APIs of the checker (coverage-gap closing, worker W-G1); implementation side.
//!
//!  1. `Checker::report` / `Checker::join_and_report` with `WriteReporter` (src/checker.rs, src/report.rs) after
//!     single-threaded bfs / dfs / on-demand / simulation runs on generated graphs whose property NAMES are drawn from a
//!     pool in which name order differs from index order:
//!       M  report <strat> ..        exact text against the Lean model `reportLines` run on the machine's final state
//!       M  report-text ..           simulation: the text as a function of the checker's own counts / discoveries
//!       O  o-report ..              the laws of SR/Props/Report.lean evaluated on the parsed text
//!       V                           join_and_report != join + report, report not idempotent, malformed `Checking.` line
//!  2. `PathRecorder` / `StateRecorder` (src/checker/visitor.rs) against a closure visitor (V lines).
//!  3. `Model` trait defaults (src/lib.rs) on a model that overrides nothing, `Checker` defaults (V lines).
//!  4. `Path::from_fingerprints` failure branches through `discoveries()` / `discovery()` on a model that stops being a
//!     function of its state after the check (V lines).
//!  5. simulation whose chosen initial state is outside the boundary:  M  sim ..  (command of Drv/Chk.lean).
use srh::gm::*;
use srh::out::*;
use srh::rng::Rng;
use stateright::report::{ReportData, ReportDiscovery, Reporter, WriteReporter};
use stateright::{Checker, Expectation, HasDiscoveries, Model, Path, PathRecorder, Property, StateRecorder};
use std::collections::{BTreeMap, BTreeSet, HashSet};
use std::fmt::Debug;
use std::hash::Hash;
use std::num::NonZeroU64;
use std::panic::{catch_unwind, AssertUnwindSafe};
use std::sync::atomic::{AtomicU32, AtomicUsize, Ordering};
use std::sync::{mpsc, Arc, Mutex};
use std::time::Duration;

// ------------------------------------------------------------------------------------------------------------
// the model: a `GraphModel` with free property names and a switch that makes it stop being a function of its state
// ------------------------------------------------------------------------------------------------------------

/// names: lexicographic (byte) order differs from any index order; prefixes, upper/lower case, digits, punctuation
const POOL: [&str; 14] = ["p0", "p10", "p2", "P1", "a", "ab", "b", "_z", "Zed", "p1", "q9", "aa", "p", "a-b"];

const SHIFT: u16 = 1000;

#[derive(Clone, Debug)]
struct NG {
    g: GraphModel,
    names: Vec<&'static str>,
    /// 0 honest; 1 `init_states` shifted; 2 `next_state` of state `broken` shifted; 3 `actions` of state `broken` empty
    mode: Arc<AtomicU32>,
    broken: Arc<AtomicU32>,
}

fn ncond<const K: usize>(m: &NG, s: &u16) -> bool {
    m.g.props[K].tbl.get(*s as usize).copied().unwrap_or(false)
}
const NCONDS: [fn(&NG, &u16) -> bool; 6] = [ncond::<0>, ncond::<1>, ncond::<2>, ncond::<3>, ncond::<4>, ncond::<5>];

impl NG {
    fn new(g: GraphModel, names: Vec<&'static str>) -> Self {
        NG { g, names, mode: Arc::new(AtomicU32::new(0)), broken: Arc::new(AtomicU32::new(0)) }
    }
    /// same graph and names, own switches
    fn fresh(&self) -> Self {
        NG::new(self.g.clone(), self.names.clone())
    }
    fn names_sx(&self) -> String {
        format!("({})", self.names.join(" "))
    }
    fn idx(&self, name: &str) -> usize {
        self.names.iter().position(|n| *n == name).unwrap_or(99)
    }
    fn is_broken(&self, s: u16) -> bool {
        self.broken.load(Ordering::SeqCst) == s as u32
    }
}

impl Model for NG {
    type State = u16;
    type Action = u16;
    fn init_states(&self) -> Vec<u16> {
        if self.mode.load(Ordering::SeqCst) == 1 {
            self.g.init.iter().map(|s| s + SHIFT).collect()
        } else {
            self.g.init.clone()
        }
    }
    fn actions(&self, s: &u16, actions: &mut Vec<u16>) {
        if self.mode.load(Ordering::SeqCst) == 3 && self.is_broken(*s) {
            return;
        }
        if let Some(row) = self.g.adj.get(*s as usize) {
            for a in 0..row.len() {
                actions.push(a as u16);
            }
        }
    }
    fn next_state(&self, s: &u16, a: u16) -> Option<u16> {
        let t = self.g.adj.get(*s as usize)?.get(a as usize).copied().flatten()?;
        if self.mode.load(Ordering::SeqCst) == 2 && self.is_broken(*s) {
            Some(t + SHIFT)
        } else {
            Some(t)
        }
    }
    fn within_boundary(&self, s: &u16) -> bool {
        self.g.bnd.get(*s as usize).copied().unwrap_or(false)
    }
    fn properties(&self) -> Vec<Property<Self>> {
        self.g
            .props
            .iter()
            .enumerate()
            .map(|(k, p)| {
                let e = match p.exp {
                    'a' => Expectation::Always,
                    's' => Expectation::Sometimes,
                    _ => Expectation::Eventually,
                };
                Property { expectation: e, name: self.names[k], condition: NCONDS[k] }
            })
            .collect()
    }
}

#[derive(Clone, Debug)]
struct Cfg {
    max_depth: Option<usize>,
    target: Option<usize>,
    finish: String,
}
impl Cfg {
    fn plain() -> Self {
        Cfg { max_depth: None, target: None, finish: "all".into() }
    }
    fn sx(&self) -> String {
        format!(
            "(cfg {} {} {})",
            self.max_depth.map(|d| d.to_string()).unwrap_or("none".into()),
            self.target.map(|d| d.to_string()).unwrap_or("none".into()),
            self.finish
        )
    }
    fn has_disc(&self, m: &NG) -> HasDiscoveries {
        let names = |s: &str| -> BTreeSet<&'static str> {
            s.trim_matches(|c| c == '(' || c == ')')
                .split(' ')
                .skip(1)
                .filter_map(|x| x.parse::<usize>().ok())
                .map(|i| if i < m.names.len() { m.names[i] } else { "foreign" })
                .collect()
        };
        match self.finish.as_str() {
            "all" => HasDiscoveries::All,
            "any" => HasDiscoveries::Any,
            "anyf" => HasDiscoveries::AnyFailures,
            "allf" => HasDiscoveries::AllFailures,
            s if s.starts_with("(allof") => HasDiscoveries::AllOf(names(s)),
            s => HasDiscoveries::AnyOf(names(s)),
        }
    }
}

/// the k-th question of the run is answered with `script[k] % options` (0 once the script is exhausted)
#[derive(Clone)]
struct ScriptChooser {
    script: Arc<Vec<usize>>,
    pos: Arc<AtomicUsize>,
}
impl ScriptChooser {
    fn new(script: &[usize]) -> Self {
        ScriptChooser { script: Arc::new(script.to_vec()), pos: Arc::new(AtomicUsize::new(0)) }
    }
    fn answer(&self, n: usize) -> usize {
        let k = self.pos.fetch_add(1, Ordering::SeqCst);
        if k < self.script.len() { self.script[k] % n } else { 0 }
    }
}
impl stateright::Chooser<NG> for ScriptChooser {
    type State = ();
    fn new_state(&self, _seed: u64) {}
    fn choose_initial_state(&self, _: &mut (), initial_states: &[u16]) -> usize {
        self.answer(initial_states.len())
    }
    fn choose_action(&self, _: &mut (), _cur: &u16, actions: &[u16]) -> usize {
        self.answer(actions.len())
    }
}

/// builder with the run controls of `cfg`, one thread
fn builder(m: &NG, cfg: &Cfg) -> stateright::CheckerBuilder<NG> {
    let mut b = m.clone().checker().threads(1).finish_when(cfg.has_disc(m));
    if let Some(d) = cfg.max_depth {
        b = b.target_max_depth(d);
    }
    if let Some(t) = cfg.target {
        b = b.target_state_count(t);
    }
    b
}

/// spawn the checker of the strategy (on-demand: told to run to completion) and evaluate `$body` with it bound to `$c`
macro_rules! with_checker {
    ($b:expr, $strat:expr, $script:expr, $c:ident => $body:expr) => {
        match $strat {
            "bfs" => {
                let $c = $b.spawn_bfs();
                $body
            }
            "dfs" => {
                let $c = $b.spawn_dfs();
                $body
            }
            "sim" => {
                let $c = $b.spawn_simulation(0, ScriptChooser::new($script));
                $body
            }
            _ => {
                let $c = $b.spawn_on_demand();
                $c.run_to_completion();
                $body
            }
        }
    };
}

/// run `f` on its own thread; `Err("panic" | "hang")`
fn guarded<T: Send + 'static>(secs: u64, f: impl FnOnce() -> T + Send + 'static) -> Result<T, String> {
    let (tx, rx) = mpsc::channel();
    std::thread::spawn(move || {
        let r = catch_unwind(AssertUnwindSafe(f));
        let _ = tx.send(r);
    });
    match rx.recv_timeout(Duration::from_secs(secs)) {
        Ok(Ok(v)) => Ok(v),
        Ok(Err(e)) => Err(format!("panic: {}", panic_text(&e))),
        Err(_) => Err("hang".into()),
    }
}

fn panic_text(e: &Box<dyn std::any::Any + Send>) -> String {
    if let Some(s) = e.downcast_ref::<String>() {
        s.clone()
    } else if let Some(s) = e.downcast_ref::<&str>() {
        s.to_string()
    } else {
        "?".into()
    }
}

fn nums<T: ToString>(xs: &[T]) -> String {
    format!("({})", xs.iter().map(|x| x.to_string()).collect::<Vec<_>>().join(" "))
}

// ------------------------------------------------------------------------------------------------------------
// 1. report / join_and_report
// ------------------------------------------------------------------------------------------------------------

/// a `WriteReporter` whose `delay()` is 1 ms (so that the polling thread of `join_and_report` / the loop of `report`
/// runs many times within a test)
struct Fast<'a, W>(WriteReporter<'a, W>);
impl<'a, M: Model, W: std::io::Write> Reporter<M> for Fast<'a, W> {
    fn report_checking(&mut self, data: ReportData) {
        Reporter::<M>::report_checking(&mut self.0, data)
    }
    fn report_discoveries(&mut self, discoveries: BTreeMap<&'static str, ReportDiscovery<M>>)
    where
        M::Action: Debug,
        M::State: Debug + Hash,
    {
        self.0.report_discoveries(discoveries)
    }
    fn delay(&self) -> Duration {
        Duration::from_millis(1)
    }
}

/// fingerprint -> state number
fn fp_table(n: usize) -> BTreeMap<u64, u16> {
    (0..n as u16).map(|s| (stateright::verif::fingerprint(&s), s)).collect()
}

/// canonical one-line form of a report text: lines joined by `|`, `sec=<digits>` -> `sec=_`, fingerprints -> state numbers
fn canon(text: &str, fps: &BTreeMap<u64, u16>) -> Result<Vec<String>, String> {
    if text.is_empty() {
        return Ok(vec![]);
    }
    if !text.ends_with('\n') {
        return Err("text-does-not-end-with-newline".into());
    }
    let mut out = vec![];
    for line in text[..text.len() - 1].split('\n') {
        if line.starts_with("Done. ") {
            match line.rfind(", sec=") {
                Some(k) if line[k + 6..].chars().all(|c| c.is_ascii_digit()) && line.len() > k + 6 => {
                    out.push(format!("{}, sec=_", &line[..k]))
                }
                _ => return Err(format!("done-line-without-seconds: {}", line)),
            }
        } else if let Some(rest) = line.strip_prefix("Fingerprint path: ") {
            let parts: Vec<String> = rest
                .split('/')
                .map(|p| match p.parse::<u64>().ok().and_then(|fp| fps.get(&fp)) {
                    Some(s) => s.to_string(),
                    None => format!("?{}", p),
                })
                .collect();
            out.push(format!("Fingerprint path: {}", parts.join("/")));
        } else {
            out.push(line.to_string());
        }
    }
    Ok(out)
}

fn parse_counts(line: &str, prefix: &str) -> Option<(u64, u64, u64)> {
    let rest = line.strip_prefix(prefix)?;
    let rest = rest.strip_prefix("states=")?;
    let (a, rest) = rest.split_once(", unique=")?;
    let (b, rest) = rest.split_once(", depth=")?;
    let c = rest.strip_suffix(", sec=_").unwrap_or(rest);
    Some((a.parse().ok()?, b.parse().ok()?, c.parse().ok()?))
}

/// the canonical lines after the `Checking.` lines, parsed: `(done S U D)` and `((name cls k (acts) (states)) ..)`
fn parse_report(lines: &[String]) -> Result<((u64, u64, u64), Vec<String>), String> {
    if lines.is_empty() {
        return Err("empty".into());
    }
    let done = parse_counts(&lines[0], "Done. ").ok_or_else(|| format!("first line is not a Done line: {}", lines[0]))?;
    if !lines[0].ends_with(", sec=_") {
        return Err("done-line-without-seconds".into());
    }
    let mut entries = vec![];
    let mut i = 1;
    while i < lines.len() {
        let l = &lines[i];
        let rest = l.strip_prefix("Discovered \"").ok_or_else(|| format!("expected a Discovered line: {}", l))?;
        let (name, rest) = rest.split_once("\" ").ok_or("no closing quote")?;
        let (cls, rest) = rest.split_once(' ').ok_or("no classification")?;
        let k = rest.strip_prefix("Path[").and_then(|r| r.strip_suffix("]:")).ok_or("no path header")?;
        if name.is_empty() || name.contains(|c: char| c == ' ' || c == '(' || c == ')') || cls.contains(|c: char| c == '(' || c == ')') {
            return Err("bad name".into());
        }
        k.parse::<u64>().map_err(|_| "bad path length")?;
        i += 1;
        let mut acts = vec![];
        while i < lines.len() && lines[i].starts_with("- ") {
            acts.push(lines[i][2..].parse::<u64>().map_err(|_| format!("bad action line: {}", lines[i]))?);
            i += 1;
        }
        let fpl = lines.get(i).and_then(|l| l.strip_prefix("Fingerprint path: ")).ok_or("missing Fingerprint path line")?;
        let mut states = vec![];
        for p in fpl.split('/') {
            states.push(p.parse::<u64>().map_err(|_| format!("fingerprint of no state: {}", p))?);
        }
        i += 1;
        entries.push(format!("({} {} {} {} {})", name, cls, k, nums(&acts), nums(&states)));
    }
    Ok((done, entries))
}

struct Reported {
    counts: (usize, usize, usize),
    /// `discoveries()`: name -> (state, action) list
    disc: BTreeMap<&'static str, Vec<(u16, Option<u16>)>>,
    /// text of `join()` then `report(WriteReporter)`
    after_join: String,
    /// the same call once more on the checker `report` returned
    again: String,
    /// text of `join_and_report(Fast)`
    joined: String,
    done_after_join: bool,
}

fn run_reports(m: &NG, strat: &'static str, cfg: &Cfg, script: &[usize]) -> Result<Reported, String> {
    let (m, cfg, script) = (m.fresh(), cfg.clone(), script.to_vec());
    guarded(20, move || {
        let b = builder(&m, &cfg);
        let (counts, disc, after_join, again, done_after_join) = with_checker!(b, strat, &script, c => {
            let c = c.join();
            let counts = (c.state_count(), c.unique_state_count(), c.max_depth());
            let disc: BTreeMap<&'static str, Vec<(u16, Option<u16>)>> = c.discoveries().into_iter().map(|(k, p)| (k, p.into_vec())).collect();
            let done = c.is_done();
            let mut buf: Vec<u8> = vec![];
            let c = c.report(&mut WriteReporter::new(&mut buf));
            let mut buf2: Vec<u8> = vec![];
            let _c = c.report(&mut WriteReporter::new(&mut buf2));
            (counts, disc, String::from_utf8_lossy(&buf).to_string(), String::from_utf8_lossy(&buf2).to_string(), done)
        });
        let b = builder(&m.fresh(), &cfg);
        let joined = with_checker!(b, strat, &script, c => {
            let mut buf: Vec<u8> = vec![];
            let mut r = Fast(WriteReporter::new(&mut buf));
            let _c = c.join_and_report(&mut r);
            String::from_utf8_lossy(&buf).to_string()
        });
        Reported { counts, disc, after_join, again, joined, done_after_join }
    })
}

/// `Checking.` lines: exact shape, counts never decrease
fn checking_lines_ok(lines: &[String]) -> Result<usize, String> {
    let mut last = (0u64, 0u64, 0u64);
    for l in lines {
        let c = parse_counts(l, "Checking. ").ok_or_else(|| format!("malformed Checking line: {}", l))?;
        if format!("Checking. states={}, unique={}, depth={}", c.0, c.1, c.2) != *l {
            return Err(format!("malformed Checking line: {}", l));
        }
        if c.0 < last.0 || c.1 < last.1 || c.2 < last.2 {
            return Err(format!("counts decrease between Checking lines: {:?} then {:?}", last, c));
        }
        last = c;
    }
    Ok(lines.len())
}

fn report_case(out: &mut Out, m: &NG, strat: &'static str, cfg: &Cfg, script: &[usize]) {
    let desc = format!("strat={} graph={} props={} names={} cfg={} script={}", strat, m.g.graph_sx(), m.g.props_sx(), m.names_sx(), cfg.sx(), nums(script));
    let r = match run_reports(m, strat, cfg, script) {
        Ok(r) => r,
        Err(e) => {
            out.v(if e == "hang" { "report-hang" } else { "report-panic" }, &format!("{} {}", e, desc));
            return;
        }
    };
    out.stat(&format!("report-{}", strat));
    let fps = fp_table(m.g.n);
    let a = match canon(&r.after_join, &fps) {
        Ok(a) => a,
        Err(e) => { out.v("report-text-malformed", &format!("{} {}", e, desc)); return; }
    };
    // `report` on a finished checker prints no `Checking.` line
    if !r.done_after_join { out.stat("report-checker-not-done-after-join"); }
    if a.iter().any(|l| l.starts_with("Checking.")) && r.done_after_join {
        out.v("report-checking-line-on-a-finished-checker", &desc);
    }
    if canon(&r.again, &fps).ok().as_ref() != Some(&a) {
        out.v("report-twice-differs", &format!("{} first={:?} second={:?}", desc, r.after_join, r.again));
    }
    // join_and_report = optional Checking lines, then exactly the text of join + report
    match canon(&r.joined, &fps) {
        Err(e) => out.v("join_and_report-text-malformed", &format!("{} {}", e, desc)),
        Ok(j) => {
            // The polling thread of join_and_report runs concurrently with the final report: a `Checking.` line it had
            // already decided to print may come out AFTER `Done.` (or between `Done.` and the discovery summary; never inside
            // a discovery block: the reporter is locked for the whole summary). So the `Checking.` lines are validated on
            // their own, wherever they stand, and the rest must be exactly the text of join + report.
            let checking: Vec<String> = j.iter().filter(|l| l.starts_with("Checking.")).cloned().collect();
            let j: Vec<String> = j.iter().filter(|l| !l.starts_with("Checking.")).cloned().collect();
            let k = 0usize;
            match checking_lines_ok(&checking[..]) {
                Ok(n) => { if n > 0 { out.stat("join_and_report-with-checking-lines"); out.stat_n("checking-lines", n as u64); } }
                Err(e) => out.v("checking-line", &format!("{} {}", e, desc)),
            }
            if j[k..] != a[..] {
                out.v("join_and_report-differs-from-join-then-report", &format!("{} join_and_report={:?} join+report={:?}", desc, j, a));
            }
        }
    }
    let text = a.join("|");
    let (gs, ps, ns, cs) = (m.g.graph_sx(), m.g.props_sx(), m.names_sx(), cfg.sx());
    let disc_sx = format!(
        "({})",
        r.disc.iter().map(|(name, p)| format!("({} {})", m.idx(name), nums(&p.iter().map(|x| x.0).collect::<Vec<_>>()))).collect::<Vec<_>>().join(" ")
    );
    if strat == "sim" {
        out.m(&format!("report-text {} {} {} ({} {} {}) {}", gs, ps, ns, r.counts.0, r.counts.1, r.counts.2, disc_sx), &text);
    } else {
        out.m(&format!("report {} {} {} {} {}", strat, gs, ps, ns, cs), &text);
        // the text is also a function of what the checker itself exposes
        if out.cases % 4 == 0 {
            out.m(&format!("report-text {} {} {} ({} {} {}) {}", gs, ps, ns, r.counts.0, r.counts.1, r.counts.2, disc_sx), &text);
        }
    }
    match parse_report(&a) {
        Err(e) => out.v("report-unparsable", &format!("{} {} text={:?}", e, desc, text)),
        Ok((done, entries)) => {
            let dn: Vec<&str> = r.disc.keys().copied().collect();
            out.o(&format!(
                "o-report {} {} {} (counts {} {} {}) (done {} {} {}) ({}) ({})",
                gs, ps, ns, r.counts.0, r.counts.1, r.counts.2, done.0, done.1, done.2, dn.join(" "), entries.join(" ")
            ));
            out.stat(&format!("report-discoveries-{}", entries.len()));
            let idx: Vec<usize> = dn.iter().map(|n| m.idx(n)).collect();
            if idx.windows(2).any(|w| w[0] > w[1]) { out.stat("report-name-order-differs-from-index-order"); }
            if entries.iter().any(|e| e.contains(" example ")) { out.stat("report-with-example"); }
            if entries.iter().any(|e| e.contains(" counterexample ")) { out.stat("report-with-counterexample"); }
        }
    }
    out.distinct(&(gs, ps, ns, cs, strat));
}

/// `report` / `join_and_report` on a checker that is still RUNNING (bigger graphs): every line has the documented shape:
/// `Checking.` lines (counts never decrease), ONE `Done.` line, discoveries in strictly ascending name order
fn live_reports(out: &mut Out, r: &mut Rng, th: bool) {
    let reps = if th { 40 } else { 6 };
    for rep in 0..reps {
        let n = 6000 + r.below(20000);
        let mut g = GraphModel::big(r, n);
        let rare: Vec<bool> = (0..n).map(|_| r.chance(1, 3000)).collect();
        g.props = vec![
            GProp { exp: 'a', tbl: vec![true; n] },
            GProp { exp: 's', tbl: rare.clone() },
            GProp { exp: 'a', tbl: rare.iter().map(|b| !*b).collect() },
        ];
        let mut names: Vec<&'static str> = POOL.to_vec();
        r.shuffle(&mut names);
        names.truncate(3);
        let m = NG::new(g, names);
        let strat = ["bfs", "dfs", "ondemand"][rep % 3];
        let joined = rep % 2 == 0;
        let threads = 1 + r.below(3);
        let m2 = m.fresh();
        let res = guarded(60, move || {
            let b = m2.clone().checker().threads(threads);
            with_checker!(b, strat, &[], c => {
                let mut buf: Vec<u8> = vec![];
                let mut rp = Fast(WriteReporter::new(&mut buf));
                let c = if joined { c.join_and_report(&mut rp) } else { c.report(&mut rp).join() };
                let counts = (c.state_count() as u64, c.unique_state_count() as u64, c.max_depth() as u64);
                let names: BTreeSet<&'static str> = c.discoveries().into_keys().collect();
                (String::from_utf8_lossy(&buf).to_string(), counts, names)
            })
        });
        let desc = format!("live report n={} strategy={} threads={} call={} seed={} rep={}", n, strat, threads, if joined { "join_and_report" } else { "report" }, seed(), rep);
        match res {
            Err(e) => out.v(if e == "hang" { "live-report-hang" } else { "live-report-panic" }, &format!("{} {}", e, desc)),
            Ok((text, counts, names)) => {
                // fingerprints stay as they are (`?fp`): only the shape is checked here
                let lines = match canon(&text, &BTreeMap::new()) { Ok(l) => l, Err(e) => { out.v("live-report-malformed", &format!("{} {}", e, desc)); continue; } };
                let k = lines.iter().take_while(|l| l.starts_with("Checking.")).count();
                match checking_lines_ok(&lines[..k]) {
                    Ok(nl) => { out.stat_n("live-checking-lines", nl as u64); if nl > 0 { out.stat("live-runs-with-checking-lines"); } }
                    Err(e) => out.v("checking-line", &format!("{} {}", e, desc)),
                }
                let rest = &lines[k..];
                let dones = rest.iter().filter(|l| l.starts_with("Done.")).count();
                if dones != 1 || !rest.first().map(|l| l.starts_with("Done. ")).unwrap_or(false) {
                    out.v("live-report-not-exactly-one-done-line-after-the-checking-lines", &desc);
                    continue;
                }
                let done = parse_counts(&rest[0], "Done. ");
                // join_and_report prints the Done line after all threads were joined: the counts are final
                if joined && done != Some(counts) { out.v("live-join_and_report-done-counts-not-final", &format!("{} done={:?} final={:?}", desc, done, counts)); }
                if let (Some(d), Some(last)) = (done, lines[..k].last().and_then(|l| parse_counts(l, "Checking. "))) {
                    if d.0 < last.0 || d.1 < last.1 || d.2 < last.2 { out.v("live-done-counts-below-last-checking-line", &desc); }
                }
                let listed: Vec<&str> = rest.iter().filter_map(|l| l.strip_prefix("Discovered \"")).filter_map(|l| l.split_once('"').map(|x| x.0)).collect();
                if listed.windows(2).any(|w| w[0] >= w[1]) { out.v("live-report-names-not-strictly-ascending", &format!("{} {:?}", desc, listed)); }
                if listed.iter().any(|n| !m.names.contains(n)) { out.v("live-report-unknown-name", &format!("{} {:?}", desc, listed)); }
                if joined && listed.iter().copied().collect::<BTreeSet<_>>() != names { out.v("live-join_and_report-names-differ-from-discoveries", &format!("{} listed={:?} discoveries={:?}", desc, listed, names)); }
                for (i, l) in rest.iter().enumerate().skip(1) {
                    let ok = l.starts_with("Discovered \"") && l.ends_with("]:") || l.starts_with("- ") && l[2..].parse::<u16>().is_ok() || l.starts_with("Fingerprint path: ?");
                    if !ok { out.v("live-report-unexpected-line", &format!("{} line {}: {}", desc, i, l)); break; }
                }
                out.stat("live-report-runs");
                out.stat(if joined { "live-join_and_report" } else { "live-report" });
                out.distinct(&(n, strat, threads, joined, rep));
                if rep == 0 { out.sample(&desc); }
            }
        }
    }
}

// ------------------------------------------------------------------------------------------------------------
// 2. PathRecorder / StateRecorder
// ------------------------------------------------------------------------------------------------------------

fn recorder_case(out: &mut Out, m: &NG, strat: &'static str, cfg: &Cfg, script: &[usize]) {
    let desc = format!("strat={} graph={} props={} cfg={} script={}", strat, m.g.graph_sx(), m.g.props_sx(), cfg.sx(), nums(script));
    let (m2, cfg2, script2) = (m.fresh(), cfg.clone(), script.to_vec());
    let res = guarded(20, move || {
        // the paths a closure visitor is shown, in order
        let log: Arc<Mutex<Vec<Path<u16, u16>>>> = Arc::new(Mutex::new(vec![]));
        let l2 = log.clone();
        let b = builder(&m2.fresh(), &cfg2).visitor(move |p: Path<u16, u16>| l2.lock().unwrap().push(p));
        with_checker!(b, strat, &script2, c => { c.join(); });
        let (pr, pacc) = PathRecorder::<NG>::new_with_accessor();
        let before = pacc().len();
        let b = builder(&m2.fresh(), &cfg2).visitor(pr);
        with_checker!(b, strat, &script2, c => { c.join(); });
        let (sr, sacc) = StateRecorder::<NG>::new_with_accessor();
        let sbefore = sacc().len();
        let b = builder(&m2.fresh(), &cfg2).visitor(sr);
        with_checker!(b, strat, &script2, c => { c.join(); });
        let shown = log.lock().unwrap().clone();
        (shown, pacc(), sacc(), before, sbefore)
    });
    match res {
        Err(e) => out.v(if e == "hang" { "recorder-hang" } else { "recorder-panic" }, &format!("{} {}", e, desc)),
        Ok((shown, paths, states, before, sbefore)) => {
            if before != 0 || sbefore != 0 { out.v("recorder-not-empty-at-start", &desc); }
            let shown_set: HashSet<Path<u16, u16>> = shown.iter().cloned().collect();
            if shown_set != paths {
                out.v("path-recorder-set-differs-from-paths-shown-to-a-closure", &format!("{} shown={} recorded={}", desc, shown_set.len(), paths.len()));
            }
            let lasts: Vec<u16> = shown.iter().map(|p| *p.last_state()).collect();
            if lasts != states {
                out.v("state-recorder-differs-from-last-states-shown-to-a-closure", &format!("{} shown={:?} recorded={:?}", desc, lasts, states));
            }
            out.stat(&format!("recorder-{}", strat));
            out.stat_n("recorder-paths-compared", shown.len() as u64);
            if shown_set.len() < shown.len() { out.stat("recorder-run-with-a-path-shown-twice"); }
            if shown.is_empty() { out.stat("recorder-run-without-visits"); }
        }
    }
}

// ------------------------------------------------------------------------------------------------------------
// 3. Model / Checker defaults
// ------------------------------------------------------------------------------------------------------------

#[derive(Clone, Debug, PartialEq, Eq, Hash)]
struct MS {
    id: u16,
    tag: Vec<u8>,
    flag: Option<bool>,
}
#[derive(Clone, Debug, PartialEq, Eq, Hash)]
enum MA {
    Go(u16),
    Skip { k: u16 },
    Unit,
}
/// a model that overrides NOTHING
#[derive(Clone, Debug)]
struct Min {
    init: Vec<u16>,
    states: Vec<MS>,
    adj: Vec<Vec<(MA, Option<u16>)>>,
}
impl Model for Min {
    type State = MS;
    type Action = MA;
    fn init_states(&self) -> Vec<MS> {
        self.init.iter().map(|i| self.states[*i as usize].clone()).collect()
    }
    fn actions(&self, s: &MS, actions: &mut Vec<MA>) {
        for (a, _) in &self.adj[s.id as usize] {
            actions.push(a.clone());
        }
    }
    fn next_state(&self, s: &MS, a: MA) -> Option<MS> {
        self.adj[s.id as usize].iter().find(|(b, _)| *b == a).and_then(|(_, t)| t.map(|t| self.states[t as usize].clone()))
    }
}

fn gen_min(r: &mut Rng, max_n: usize) -> Min {
    let n = r.range(1, max_n);
    let states: Vec<MS> = (0..n)
        .map(|i| MS { id: i as u16, tag: (0..r.below(4)).map(|_| r.below(256) as u8).collect(), flag: match r.below(3) { 0 => None, 1 => Some(true), _ => Some(false) } })
        .collect();
    let adj = (0..n)
        .map(|_| {
            let mut row: Vec<(MA, Option<u16>)> = vec![];
            for k in 0..r.below(5) {
                let a = match r.below(3) { 0 => MA::Go(k as u16), 1 => MA::Skip { k: k as u16 }, _ => MA::Unit };
                if row.iter().any(|(b, _)| *b == a) { continue; }
                row.push((a, if r.chance(1, 3) { None } else { Some(r.below(n) as u16) }));
            }
            row
        })
        .collect();
    let k = r.range(1, 3.min(n));
    let init = (0..k).map(|_| r.below(n) as u16).collect();
    Min { init, states, adj }
}

fn defaults_min(out: &mut Out, r: &mut Rng, th: bool) {
    let cases = if th { 3000 } else { 300 };
    for c in 0..cases {
        let m = gen_min(r, 8);
        let desc = format!("min-model {:?}", m);
        let res = catch_unwind(AssertUnwindSafe(|| {
            let mut bad: Vec<String> = vec![];
            let mut stats: Vec<&'static str> = vec![];
            if !m.properties().is_empty() { bad.push("properties-default-not-empty".into()); }
            for s in &m.states {
                if !m.within_boundary(s) { bad.push(format!("within_boundary-default-false at {}", s.id)); }
                let row = &m.adj[s.id as usize];
                let want_steps: Vec<(MA, MS)> = row.iter().filter_map(|(a, t)| t.map(|t| (a.clone(), m.states[t as usize].clone()))).collect();
                let want_states: Vec<MS> = want_steps.iter().map(|x| x.1.clone()).collect();
                if m.next_steps(s) != want_steps { bad.push(format!("next_steps at {}: {:?}", s.id, m.next_steps(s))); }
                if m.next_states(s) != want_states { bad.push(format!("next_states at {}: {:?}", s.id, m.next_states(s))); }
                if want_steps.len() < row.len() { stats.push("defaults-state-with-ignored-action"); }
                for (a, t) in row {
                    if m.format_action(a) != format!("{:?}", a) { bad.push(format!("format_action {:?}: {}", a, m.format_action(a))); }
                    let want = t.map(|t| format!("{:#?}", m.states[t as usize]));
                    let got = m.format_step(s, a.clone());
                    if got != want { bad.push(format!("format_step at {} {:?}: {:?}", s.id, a, got)); }
                    stats.push(if want.is_some() { "defaults-format_step-some" } else { "defaults-format_step-none" });
                }
                // an action the state does not offer
                if m.format_step(s, MA::Go(99)).is_some() { bad.push("format_step-of-an-unknown-action-is-some".into()); }
            }
            // as_svg of a random walk
            let s0 = m.states[m.init[0] as usize].clone();
            let mut acts: Vec<MA> = vec![];
            let mut cur = s0.clone();
            for _ in 0..r.below(5) {
                let steps = m.next_steps(&cur);
                if steps.is_empty() { break; }
                let (a, t) = steps[r.below(steps.len())].clone();
                acts.push(a);
                cur = t;
            }
            match Path::from_actions(&m, s0, acts.iter()) {
                None => bad.push("from_actions-rejected-a-real-walk".into()),
                Some(p) => {
                    if *p.last_state() != cur { bad.push("from_actions-last-state".into()); }
                    if m.as_svg(p).is_some() { bad.push("as_svg-default-not-none".into()); }
                }
            }
            // `property(name)` of a model without properties panics for every name, with the documented message
            for name in ["x", "p0"] {
                match catch_unwind(AssertUnwindSafe(|| m.property(name))) {
                    Ok(_) => bad.push(format!("property({})-returned-on-a-model-without-properties", name)),
                    Err(e) => {
                        let want = format!("Unknown property. requested={}, available=[]", name);
                        if panic_text(&e) != want { bad.push(format!("property({}) message: {}", name, panic_text(&e))); }
                    }
                }
            }
            (bad, stats)
        }));
        match res {
            Err(e) => out.v("defaults-panic", &format!("{} {}", panic_text(&e), desc)),
            Ok((bad, stats)) => {
                for b in bad { out.v("model-default", &format!("{} {}", b, desc)); }
                for s in stats { out.stat(s); }
            }
        }
        // a checker on a model without properties: nothing to discover, `assert_properties` holds
        if c % 10 == 0 {
            let m2 = m.clone();
            let strat = ["bfs", "dfs", "ondemand"][(c / 10) % 3];
            let res = guarded(20, move || {
                let b = m2.checker().threads(1);
                match strat {
                    "bfs" => { let c = b.spawn_bfs().join(); c.assert_properties(); (c.discoveries().len(), c.is_done()) }
                    "dfs" => { let c = b.spawn_dfs().join(); c.assert_properties(); (c.discoveries().len(), c.is_done()) }
                    _ => { let c = b.spawn_on_demand(); c.run_to_completion(); let c = c.join(); c.assert_properties(); (c.discoveries().len(), c.is_done()) }
                }
            });
            match res {
                Ok((0, true)) => out.stat("defaults-checker-on-a-model-without-properties"),
                other => out.v("defaults-checker-on-a-model-without-properties", &format!("{:?} {}", other, desc)),
            }
        }
        out.stat("defaults-min-models");
        out.distinct(&format!("{:?}", m));
        if c == 0 { out.sample(&desc); }
    }
}

/// `Model::property` on a model WITH properties; `check_fingerprint` / `run_to_completion` on bfs / dfs checkers
fn defaults_ng(out: &mut Out, m: &NG, strat: &'static str, cfg: &Cfg, r: &mut Rng) {
    let desc = format!("strat={} graph={} props={} names={} cfg={}", strat, m.g.graph_sx(), m.g.props_sx(), m.names_sx(), cfg.sx());
    for (k, name) in m.names.iter().enumerate() {
        match catch_unwind(AssertUnwindSafe(|| m.property(name))) {
            Err(e) => out.v("property-of-a-known-name-panicked", &format!("{} {} {}", name, panic_text(&e), desc)),
            Ok(p) => {
                let exp = match p.expectation { Expectation::Always => 'a', Expectation::Sometimes => 's', Expectation::Eventually => 'e' };
                let same_cond = (0..m.g.n as u16).all(|s| (p.condition)(m, &s) == m.g.props[k].tbl[s as usize]);
                if p.name != *name || exp != m.g.props[k].exp || !same_cond { out.v("property-lookup-wrong", &format!("{} {}", name, desc)); }
                out.stat("property-lookups-known");
            }
        }
    }
    let unknown: Vec<&'static str> = POOL.iter().copied().filter(|n| !m.names.contains(n)).collect();
    let name = *r.pick(&unknown);
    match catch_unwind(AssertUnwindSafe(|| m.property(name))) {
        Ok(_) => out.v("property-of-an-unknown-name-returned", &format!("{} {}", name, desc)),
        Err(e) => {
            let want = format!("Unknown property. requested={}, available={:?}", name, m.names);
            if panic_text(&e) != want { out.v("property-unknown-name-message", &format!("got={:?} want={:?} {}", panic_text(&e), want, desc)); }
            out.stat("property-lookups-unknown");
        }
    }
    if strat == "ondemand" { return; }
    let (m2, cfg2) = (m.fresh(), cfg.clone());
    let fps: Vec<u64> = (0..3).map(|_| stateright::verif::fingerprint(&(r.below(m.g.n + 2) as u16))).collect();
    let res = guarded(20, move || {
        let b = builder(&m2, &cfg2);
        fn snap<C: Checker<NG>>(c: &C) -> (usize, usize, usize, bool, BTreeMap<&'static str, Vec<(u16, Option<u16>)>>) {
            (c.state_count(), c.unique_state_count(), c.max_depth(), c.is_done(), c.discoveries().into_iter().map(|(k, p)| (k, p.into_vec())).collect())
        }
        with_checker!(b, strat, &[1, 2, 3], c => {
            let c = c.join();
            let before = snap(&c);
            for fp in &fps { c.check_fingerprint(NonZeroU64::new(*fp).unwrap()); }
            c.run_to_completion();
            std::thread::sleep(Duration::from_millis(1));
            let after = snap(&c);
            before == after
        })
    });
    match res {
        Ok(true) => out.stat(&format!("checker-default-noop-{}", strat)),
        Ok(false) => out.v("check_fingerprint-or-run_to_completion-changed-a-finished-checker", &desc),
        Err(e) => out.v("checker-default-noop-failed", &format!("{} {}", e, desc)),
    }
}

// ------------------------------------------------------------------------------------------------------------
// 4. from_fingerprints failure branches
// ------------------------------------------------------------------------------------------------------------

fn flaky_case(out: &mut Out, m: &NG, strat: &'static str, cfg: &Cfg, script: &[usize], r: &mut Rng) {
    let desc = format!("strat={} graph={} props={} names={} cfg={} script={}", strat, m.g.graph_sx(), m.g.props_sx(), m.names_sx(), cfg.sx(), nums(script));
    let (m2, cfg2, script2) = (m.fresh(), cfg.clone(), script.to_vec());
    let (pick_a, pick_b, mode) = (r.next() as usize, r.next() as usize, 1 + r.below(3) as u32);
    type Disc = BTreeMap<&'static str, Vec<(u16, Option<u16>)>>;
    let res = guarded(20, move || {
        let b = builder(&m2, &cfg2);
        with_checker!(b, strat, &script2, c => {
            let c = c.join();
            let get = |c: &dyn Fn() -> std::collections::HashMap<&'static str, Path<u16, u16>>| -> Result<Disc, String> {
                catch_unwind(AssertUnwindSafe(|| c().into_iter().map(|(k, p)| (k, p.into_vec())).collect::<Disc>())).map_err(|e| panic_text(&e))
            };
            let honest = get(&|| c.discoveries()).expect("honest discoveries");
            // the state whose behaviour changes: a non-last state of some discovery path if there is one
            let inner: Vec<u16> = honest.values().flat_map(|p| p[..p.len() - 1].iter().map(|x| x.0)).collect();
            let broken: u16 = if !inner.is_empty() && pick_a % 4 != 0 { inner[pick_b % inner.len()] } else { (pick_b % m2.g.n) as u16 };
            m2.broken.store(broken as u32, Ordering::SeqCst);
            m2.mode.store(mode, Ordering::SeqCst);
            let flipped = get(&|| c.discoveries());
            let single: Vec<(&'static str, Result<Option<Vec<(u16, Option<u16>)>>, String>)> = m2.names.iter().map(|n| {
                (*n, catch_unwind(AssertUnwindSafe(|| c.discovery(n).map(|p| p.into_vec()))).map_err(|e| panic_text(&e)))
            }).collect();
            m2.mode.store(0, Ordering::SeqCst);
            let back = get(&|| c.discoveries());
            (honest, broken, flipped, single, back)
        })
    });
    let (honest, broken, flipped, single, back) = match res {
        Ok(x) => x,
        Err(e) => { out.v(if e == "hang" { "flaky-hang" } else { "flaky-panic" }, &format!("{} {}", e, desc)); return; }
    };
    let desc = format!("mode={} broken-state={} {}", mode, broken, desc);
    let fp = |s: u16| stateright::verif::fingerprint(&s);
    // what must happen, per discovery: Ok(()) the path is rebuilt unchanged; Err(fragments) it panics with a message containing all fragments
    let expect = |p: &Vec<(u16, Option<u16>)>| -> Result<(), Vec<String>> {
        match mode {
            1 => Err(vec![
                "Unable to reconstruct a `Path` based on digests (\"fingerprints\") from states visited earlier. No\ninit state has the expected fingerprint".into(),
                format!("init state has the expected fingerprint ({})", fp(p[0].0)),
                format!("Available init fingerprints (none of which match): {:?}", m.g.init.iter().map(|s| fp(s + SHIFT)).collect::<Vec<_>>()),
            ]),
            _ => match p[..p.len() - 1].iter().position(|x| x.0 == broken) {
                None => Ok(()),
                Some(j) => {
                    let avail: Vec<u64> = if mode == 3 { vec![] } else { m.g.adj[broken as usize].iter().flatten().map(|t| fp(t + SHIFT)).collect() };
                    Err(vec![
                        format!("from states visited earlier. {}\nprevious state(s) of the path were able to be reconstructed, but no subsequent state has the next\nfingerprint ({})", j + 1, fp(p[j + 1].0)),
                        format!("Available next fingerprints (none of which match): {:?}", avail),
                    ])
                }
            },
        }
    };
    let expected: Vec<(&&'static str, Result<(), Vec<String>>)> = honest.iter().map(|(n, p)| (n, expect(p))).collect();
    let must_panic = expected.iter().any(|(_, e)| e.is_err());
    let matches_some = |msg: &str| expected.iter().any(|(_, e)| match e { Err(frags) => frags.iter().all(|f| msg.contains(f.as_str())), Ok(()) => false });
    match &flipped {
        Ok(d) => {
            if must_panic { out.v("discoveries-returned-although-a-path-cannot-be-rebuilt", &format!("{} returned={:?} honest={:?}", desc, d, honest)); }
            else if *d != honest { out.v("discoveries-changed-although-every-path-can-be-rebuilt", &format!("{} returned={:?} honest={:?}", desc, d, honest)); }
        }
        Err(msg) => {
            if !must_panic { out.v("discoveries-panicked-although-every-path-can-be-rebuilt", &format!("{} {}", desc, msg)); }
            else if !matches_some(msg) { out.v("discoveries-panic-message", &format!("{} message={:?}", desc, msg)); }
        }
    }
    // `discovery(name)` rebuilds every path: it panics exactly when `discoveries()` does
    for (n, res) in &single {
        match res {
            Ok(p) => {
                if must_panic { out.v("discovery-returned-although-a-path-cannot-be-rebuilt", &format!("{} name={}", desc, n)); }
                else if p.as_ref() != honest.get(n) { out.v("discovery-changed", &format!("{} name={}", desc, n)); }
            }
            Err(msg) => {
                if !must_panic { out.v("discovery-panicked-although-every-path-can-be-rebuilt", &format!("{} name={} {}", desc, n, msg)); }
                else if !matches_some(msg) { out.v("discovery-panic-message", &format!("{} name={} message={:?}", desc, n, msg)); }
            }
        }
    }
    if back.as_ref().ok() != Some(&honest) { out.v("discoveries-differ-after-the-model-is-honest-again", &desc); }
    out.stat("flaky-cases");
    out.stat(&format!("flaky-mode-{}-{}", mode, if must_panic { "must-panic" } else { "must-return" }));
    if must_panic && mode != 1 { out.stat("flaky-no-subsequent-state"); }
    if must_panic && mode == 1 { out.stat("flaky-no-init-state"); }
    if honest.is_empty() { out.stat("flaky-no-discovery"); }
    out.distinct(&(m.g.graph_sx(), m.g.props_sx(), strat, mode, broken));
}

// ------------------------------------------------------------------------------------------------------------
// 5. simulation with initial states outside the boundary (model command `sim` of Drv/Chk.lean)
// ------------------------------------------------------------------------------------------------------------

fn sim_outside(out: &mut Out, r: &mut Rng, th: bool) {
    let cases = if th { 12000 } else { 1200 };
    for c in 0..cases {
        let np = r.range(1, 5);
        let mut g = gen_graph(r, 10, Shape::Any, np);
        // 2..4 initial states (repeats allowed), the first inside the boundary, at least one outside
        let k = r.range(2, 4);
        g.init = (0..k).map(|_| r.below(g.n) as u16).collect();
        let inside = g.init[0];
        g.bnd[inside as usize] = true;
        let others: Vec<u16> = g.init.iter().copied().filter(|s| *s != inside).collect();
        if others.is_empty() { out.stat("sim-outside-skipped-single-initial-state"); continue; }
        let o = *r.pick(&others);
        g.bnd[o as usize] = false;
        let mut names: Vec<&'static str> = POOL.to_vec();
        r.shuffle(&mut names);
        names.truncate(np);
        let m = NG::new(g, names);
        let script: Vec<usize> = (0..r.below(40)).map(|_| r.below(12)).collect();
        let cfg = Cfg {
            max_depth: if r.chance(1, 3) { Some(r.range(1, 6)) } else { None },
            target: Some(r.range(1, 12)),
            finish: match r.below(5) { 0 => "any".into(), 1 => "anyf".into(), 2 => "allf".into(), _ => "all".into() },
        };
        let desc = format!("graph={} props={} cfg={} script={}", m.g.graph_sx(), m.g.props_sx(), cfg.sx(), nums(&script));
        let (m2, cfg2, script2) = (m.fresh(), cfg.clone(), script.clone());
        let res = guarded(20, move || {
            let visits: Arc<Mutex<Vec<Vec<u16>>>> = Arc::new(Mutex::new(vec![]));
            let v2 = visits.clone();
            let b = builder(&m2, &cfg2).visitor(move |p: Path<u16, u16>| v2.lock().unwrap().push(p.into_states()));
            let chooser = ScriptChooser::new(&script2);
            let pos = chooser.pos.clone();
            let c = b.spawn_simulation(0, chooser).join();
            let disc: BTreeMap<usize, Vec<u16>> = c.discoveries().into_iter().map(|(n, p)| (m2.idx(n), p.into_states())).collect();
            let vs = visits.lock().unwrap().clone();
            (vs, c.unique_state_count(), c.state_count(), c.max_depth(), disc, pos.load(Ordering::SeqCst))
        });
        match res {
            Err(e) => out.v(if e == "hang" { "sim-outside-hang" } else { "sim-outside-panic" }, &format!("{} {}", e, desc)),
            Ok((vs, uniq, count, depth, disc, asked)) => {
                let obs = format!(
                    "(visits ({})) (uniq {}) (count {}) (depth {}) (disc ({}))",
                    vs.iter().map(|p| nums(p)).collect::<Vec<_>>().join(" "),
                    uniq, count, depth,
                    disc.iter().map(|(i, p)| format!("({} {})", i, nums(p))).collect::<Vec<_>>().join(" ")
                );
                out.m(&format!("sim {} {} {} {}", m.g.graph_sx(), m.g.props_sx(), cfg.sx(), nums(&script)), &obs);
                // direct laws: nothing outside the boundary is ever shown or reported
                if vs.iter().chain(disc.values()).any(|p| p.iter().any(|s| !m.g.bnd[*s as usize])) { out.v("sim-outside-state-outside-the-boundary-evaluated-or-reported", &desc); }
                // how many traces started outside: replay of the scripted answers is the model's business; here a lower bound
                let first = script.first().map(|a| a % m.g.init.len()).unwrap_or(0);
                if !m.g.bnd[m.g.init[first] as usize] { out.stat("sim-outside-first-trace-starts-outside"); }
                out.stat("sim-outside-cases");
                out.stat_n("sim-outside-chooser-questions", asked as u64);
                if disc.is_empty() { out.stat("sim-outside-no-discovery"); } else { out.stat("sim-outside-with-discovery"); }
                out.distinct(&(m.g.graph_sx(), m.g.props_sx(), cfg.sx(), script.clone()));
                if c < 2 { out.sample(&format!("sim-outside {}", desc)); }
            }
        }
    }
}

fn main() {
    quiet_panics();
    let mut out = Out::new();
    let mut r = Rng::new(seed());
    let th = thorough();

    // the default `delay()` of a `Reporter` is one second
    {
        let mut buf: Vec<u8> = vec![];
        let wr = WriteReporter::new(&mut buf);
        let d = Reporter::<NG>::delay(&wr);
        if d != Duration::from_millis(1000) { out.v("reporter-default-delay", &format!("{:?}", d)); }
        out.stat("reporter-default-delay-checked");
    }

    let strategies: [&'static str; 4] = ["bfs", "dfs", "ondemand", "sim"];
    let n_graphs = if th { 5000 } else { 500 };
    for c in 0..n_graphs {
        let shape = match r.below(10) { 0..=5 => Shape::Any, 6..=7 => Shape::Forest, _ => Shape::Dag };
        let np = r.range(1, 6);
        let g = gen_graph(&mut r, 10, shape, np);
        let mut names: Vec<&'static str> = POOL.to_vec();
        r.shuffle(&mut names);
        names.truncate(np);
        let m = NG::new(g, names);
        for f in m.g.features() { out.stat(&format!("graph-{}", f)); }
        out.stat(&format!("props-{}", np));
        let cfg = if r.chance(1, 2) { Cfg::plain() } else {
            Cfg {
                max_depth: if r.chance(1, 3) { Some(r.range(1, 5)) } else { None },
                target: if r.chance(1, 3) { Some(r.range(1, 10)) } else { None },
                finish: match r.below(7) {
                    0 => "all".into(), 1 => "any".into(), 2 => "anyf".into(), 3 => "allf".into(),
                    4 => format!("(allof {} {})", r.below(np), r.below(np + 1)),
                    5 => format!("(anyof {} {})", r.below(np), r.below(np + 1)),
                    _ => "all".into(),
                },
            }
        };
        // simulation: every initial state inside the boundary and a target state count, so that the run ends
        let mut ms = m.fresh();
        for s in ms.g.init.clone() { ms.g.bnd[s as usize] = true; }
        let script: Vec<usize> = (0..r.below(40)).map(|_| r.below(12)).collect();
        let scfg = Cfg { max_depth: cfg.max_depth, target: Some(r.range(1, 12)), finish: if cfg.finish.starts_with('(') { "all".into() } else { cfg.finish.clone() } };
        // the exhaustive strategies: one or two per graph for the report, all for the cheap checks
        let pick = c % 3;
        for (k, strat) in strategies.iter().enumerate() {
            let (mm, cc) = if *strat == "sim" { (&ms, &scfg) } else { (&m, &cfg) };
            if mm.g.init.is_empty() { continue; }
            if *strat == "sim" || k == pick || r.chance(1, 3) {
                report_case(&mut out, mm, strat, cc, &script);
            }
            if k == (pick + 1) % 3 || (*strat == "sim" && c % 2 == 0) {
                recorder_case(&mut out, mm, strat, cc, &script);
            }
            if k == (pick + 2) % 3 || (*strat == "sim" && c % 2 == 1) {
                flaky_case(&mut out, mm, strat, cc, &script, &mut r);
            }
            if *strat != "sim" && c % 4 == 0 {
                defaults_ng(&mut out, mm, strat, cc, &mut r);
            }
        }
        if c < 3 { out.sample(&format!("graph {} props {} names {} cfg {}", m.g.graph_sx(), m.g.props_sx(), m.names_sx(), cfg.sx())); }
    }
    defaults_min(&mut out, &mut r, th);
    sim_outside(&mut out, &mut r, th);
    live_reports(&mut out, &mut r, th);
    out.finish();
}
