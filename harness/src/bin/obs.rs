//! obs — coverage-gap closing harness (see the worker task); implementation side.
use srh::out::*;
fn main() {
    quiet_panics();
    let mut out = Out::new();
    out.finish();
}
