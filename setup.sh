#!/bin/bash
# Build the framework from files on disk only (offline): Lean library, property theorems, drivers, Rust harness.
# Each target is built separately and failures are tolerated here: every `./check Cxx` rebuilds exactly what it
# needs and reports a failed build itself.
cd "$(dirname "$0")"
export CARGO_NET_OFFLINE=true
mkdir -p .work evidence replays
ids=$(ls cfg | sed 's/\.json$//')
( cd lean
  for id in $ids; do
    lo=$(echo $id | tr 'A-Z' 'a-z')
    drv=$(python3 -c "import json;print(json.load(open('../cfg/$id.json')).get('driver','drv_$lo'))")
    lake build SR.Props.$id $drv 2>&1 | grep -E "error|Build completed" | tail -3
  done )
cp /repo/Cargo.lock harness/Cargo.lock 2>/dev/null || true
( cd harness
  for id in $ids; do
    bins=$(python3 -c "import json;print(' '.join('--bin '+h['bin'] for h in json.load(open('../cfg/$id.json')).get('harness',[{'bin':'$id'.lower()}])))")
    cargo build --release --offline $bins 2>&1 | grep -E "^error|Finished" | tail -2
  done )
echo "setup done"
