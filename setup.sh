#!/bin/bash
# Build the framework from files on disk only (offline): Lean library, property theorems, drivers, Rust harness.
# Each target is built separately and failures are tolerated here: every `./check Cxx` rebuilds exactly what it
# needs and reports a failed build itself.
cd "$(dirname "$0")"
export CARGO_NET_OFFLINE=true
mkdir -p .work evidence replays
ids=$(ls cfg | sed 's/\.json$//')
( cd lean
  for id in $ids; do
    lo=$(echo $id | tr 'A-Z' 'a-z')
    drv=$(python3 -c "import json;c=json.load(open('../cfg/$id.json'));print(' '.join(sorted({c.get('driver','drv_$lo')}|{h['driver'] for h in c.get('harness',[]) if h.get('driver')})))")
    pfs=$(python3 -c "import json;c=json.load(open('../cfg/$id.json'));print(' '.join('SR.Props.'+p for p in c.get('props_files',['$id'])))")
    lake build $pfs $drv 2>&1 | grep -E "error|Build completed" | tail -3
  done )
cp /repo/Cargo.lock harness/Cargo.lock 2>/dev/null || true
( cd harness
  for id in $ids; do
    bins=$(python3 -c "import json;print(' '.join('--bin '+h['bin'] for h in json.load(open('../cfg/$id.json')).get('harness',[{'bin':'$id'.lower()}])))")
    cargo build --release --offline $bins 2>&1 | grep -E "^error|Finished" | tail -2
  done )
echo "setup done"
