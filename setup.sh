#!/bin/bash
# Build the framework from files on disk only (offline): Lean library, property theorems, drivers, Rust harness.
set -e
cd "$(dirname "$0")"
export CARGO_NET_OFFLINE=true
mkdir -p .work evidence replays
( cd lean && lake build SR $(grep -o 'name = "drv_[a-z0-9_]*"' lakefile.toml | sed 's/name = "\(.*\)"/\1/') 2>&1 | grep -v "^warning\|^Note\|linter\|^$\|Hint\|\[apply\]" | tail -15 )
cp /repo/Cargo.lock harness/Cargo.lock 2>/dev/null || true
( cd harness && cargo build --release --offline --bins 2>&1 | tail -3 )
echo "setup done"
