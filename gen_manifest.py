#!/usr/bin/env python3
"""Regenerates MANIFEST.json's checks/not_applicable from manifest_src.json (claims) — keeps it valid."""
import json, os
R = os.path.dirname(os.path.abspath(__file__))
src = json.load(open(os.path.join(R, "manifest_src.json")))
m = json.load(open(os.path.join(R, "MANIFEST.json")))
props = [json.loads(l)["id"] for l in open(os.path.join(R, "properties.jsonl"))]
checks = []
claims = {}
for pid in props:
    cp = os.path.join(R, "claims", pid + ".json")
    if os.path.exists(cp): claims[pid] = json.load(open(cp))
for pid in props:
    c = claims.get(pid)
    if not c: continue
    checks.append({
        "property_id": pid,
        "quick_cmd": f"./check {pid} --tier quick",
        "thorough_cmd": f"./check {pid} --tier thorough",
        "evidence_file": f"/verif/evidence/{pid}.json",
        "replay_cmd_template": f"./check {pid} --replay {{path}}",
        "engine": "lean-proof+correspondence",
        "level_claimed": {"category": c.get("category", "proof"), "text": c["text"], "design_ref": c.get("design_ref", f"DESIGN.md §5 {pid}")},
        "level_note": c["note"],
        "technique": c.get("technique", "Lean 4 machine-checked proof over a hand-written model + differential correspondence check against the Rust implementation"),
    })
m["checks"] = checks
m["engines"][0]["serves_properties"] = [c["property_id"] for c in checks]
m["not_applicable"] = [{"property_id": p, "reason": src["not_applicable"].get(p, "not yet claimed: machinery for this property is still being built (see DESIGN.md §7)")} for p in props if p not in claims]
m["hooks"]["source_commits"] = src.get("hook_commits", [])
json.dump(m, open(os.path.join(R, "MANIFEST.json"), "w"), indent=1)
print("claimed:", [c["property_id"] for c in checks])
