#!/usr/bin/env python3
"""prints the prompt for a sub-agent that writes HARMLESS changes (refactorings that keep every listed property true):
refactor_prompt.py <tag> <area text> <pid,pid,...> — the checks must stay quiet on them (DESIGN §13e)."""
import sys,json
tag,area,pids=sys.argv[1],sys.argv[2],sys.argv[3].split(",")
props=[json.loads(l) for l in open('/verif/properties.jsonl')]
txt="\n".join(json.dumps(p) for p in props if p["id"] in pids)
wt=f'/tmp/rf-{tag}'
print(f"""You are working on the Rust crate getong/stateright (an explicit-state model checker for actor systems). A scratch git worktree of it, for you alone, is at {wt} (detached HEAD). Work ONLY inside {wt} and {wt}-out; never touch or read /repo or /verif.

GOAL. Write SIX separate, realistic, HARMLESS changes to {area}: the kind of commit a maintainer makes and a reviewer rightly accepts (refactoring, clean-up, micro-optimisation, restructuring a loop, replacing a data structure by an equivalent one, extracting a helper, changing an internal batching constant or an internal iteration strategy), after which EVERY semantic property listed below still holds, the crate compiles, and the existing tests give the same result. They are used to test that a verification tool does not raise false alarms, so they must be genuinely correct: do NOT introduce bugs.
Make them of two kinds (three each):
 (a) PURE: the public behaviour is identical for every input (same results, same order, same text);
 (b) INCIDENTAL: something observable but unspecified changes (e.g. which of several equally valid discoveries/paths is reported first in a multi-threaded run, the order in which independent work items are processed internally, sizes of internal work batches, the wording of a log::debug/trace message, internal capacity hints), while every property below still holds exactly as stated. Do not change anything the documentation or the properties pin down (e.g. BFS must still find shortest paths; action order returned by `Model::actions` implementations that tests or docs pin down must stay).

THE PROPERTIES THAT MUST KEEP HOLDING (JSON, verbatim):
{txt}

REQUIREMENTS
1. `cargo test --lib --offline` in the worktree must give exactly the same result with and without each change: 84 passed, 3 failed (these three fail on the pristine tree too, ignore them: checker::explorer::test::can_next, checker::explorer::test::smoke_test_states, checker::test_report::report_includes_property_names_and_paths). Do not edit tests.
2. The crate must also still build with the instrumentation flag on: `RUSTFLAGS="--cfg getong_stateright_verif" cargo check --offline --lib`. Do NOT edit, move or delete anything inside `#[cfg(getong_stateright_verif)]` items/blocks or src/verif.rs (they are observation hooks; keep them where they are, firing at the same logical points — if you restructure code around a hook, carry the hook along so that it still reports the same event at the same logical moment).
3. Each change is independent (applies alone to the pristine tree), touches only files under src/, and is between 5 and 80 changed lines.
4. Never use `git stash`. Environment: no network. Always `export CARGO_NET_OFFLINE=true CARGO_TARGET_DIR={wt}-target`. The machine is shared: use `-j 4` for cargo.
5. Deliver into {wt}-out/<n>/ for n = 1..6:
   - patch.diff : `git diff` of the change against HEAD (must apply cleanly with `git apply` on the pristine tree)
   - meta.json  : {{"kind": "pure"|"incidental", "summary": "<what the change does>", "why_harmless": "<why each property above still holds>", "files_touched": [...], "how_verified": "<commands run and results>"}}
6. When done, restore the worktree: `git checkout -- .` (leave {wt}-out and nothing else), and delete {wt}-target.

Read the relevant source carefully first and verify everything you claim by actually running it. In your final answer give one line per change.""")
