#!/bin/bash
# usage: seed_verify.sh <seed out dir> <name> <property ids...>
# SEED_BASE = the /repo commit the seeded change was written against (the demonstration is confirmed there; the checks
# run against the CURRENT HEAD with the patch applied, 3-way if the context moved)
# 1. confirms the seeded change in a scratch worktree (demo passes clean / fails patched; lib suite 84 pass + same 3 fail)
# 2. applies it to /repo, runs ./check for the given properties, reverts /repo
# 3. stores it under /verif/seeded/<name>/
exec 9>/tmp/seed.lock; flock 9   # one seeded-change run at a time (they share .work/harness-alt)
src=$1; name=$2; shift 2; props="$@"
wt=/tmp/sv-$name
base=${SEED_BASE:-a2078de}
export CARGO_NET_OFFLINE=true CARGO_TARGET_DIR=/tmp/sv-target
git -C /repo worktree remove --force $wt 2>/dev/null
git -C /repo worktree add -q --detach $wt $base || exit 2
demo=$(ls $src | grep -E '^demo' | head -1)
case $demo in
  demo_test.rs|demo*.rs) mkdir -p $wt/tests; cp $src/$demo $wt/tests/seed_demo.rs; run="cargo test --offline --test seed_demo";;
esac
if grep -q "^fn main" $src/$demo; then rm -f $wt/tests/seed_demo.rs; cp $src/$demo $wt/examples/seed_demo.rs; run="cargo run --offline --example seed_demo"; fi
cd $wt
echo "== clean demo"; $run > /tmp/sv-$name.clean.log 2>&1; clean_rc=$?
git apply $src/patch.diff || { echo "PATCH DOES NOT APPLY"; exit 2; }
echo "== patched demo"; $run > /tmp/sv-$name.patched.log 2>&1; patched_rc=$?
echo "== patched lib suite"; cargo test --lib --offline 2>&1 | grep -E "^test result|FAILED" > /tmp/sv-$name.suite.log
suite=$(grep "^test result" /tmp/sv-$name.suite.log | head -1)
failed=$(grep -c "FAILED" /tmp/sv-$name.suite.log)
cd /verif
git -C /repo worktree remove --force $wt
echo "clean_rc=$clean_rc patched_rc=$patched_rc suite='$suite'"
confirmed=no
if [ $clean_rc -eq 0 ] && [ $patched_rc -ne 0 ] && echo "$suite" | grep -q "84 passed; 3 failed"; then confirmed=yes; fi
echo "confirmed=$confirmed"
[ $confirmed = yes ] || exit 1
# run the checks against it — on a scratch copy of the repository (VERIF_REPO), so that /repo itself stays untouched
unset CARGO_TARGET_DIR
mut=/tmp/sv-repo
git -C /repo worktree remove --force $mut 2>/dev/null
git -C /repo worktree add -q --detach $mut HEAD || exit 2
pfh=$src/patch.diff; [ -f $src/patch-head.diff ] && pfh=$src/patch-head.diff
git -C $mut apply $pfh 2>/dev/null || git -C $mut apply -3 $pfh || { echo "PATCH DOES NOT APPLY TO HEAD"; git -C /repo worktree remove --force $mut; exit 2; }
results=""
for p in $props; do
  out=$(VERIF_REPO=$mut ./check $p --tier quick 2>&1 | grep -E "^(VIOLATION|OK|KNOWN)" | tail -1)
  echo "$p: $out"
  results="$results$p: $out\n"
done
git -C /repo worktree remove --force $mut
mkdir -p seeded/$name
cp $src/patch.diff seeded/$name/patch.diff; cp $src/$demo seeded/$name/$demo
[ -f $src/patch-head.diff ] && cp $src/patch-head.diff seeded/$name/patch-head.diff
python3 - "$src/meta.json" "seeded/$name/meta.json" "$results" "$props" "$base" <<'PY'
import json,sys
m=json.load(open(sys.argv[1]))
m["base_commit"]=sys.argv[5]
m["confirmed_by_lead"]="scratch worktree: demo passes on clean HEAD, fails with patch; cargo test --lib --offline: 84 passed; 3 failed (the 3 always-fail tests)"
m["checks_run_against_it"]=[l for l in sys.argv[3].split("\\n") if l]
json.dump(m,open(sys.argv[2],"w"),indent=1)
PY
echo done
