#!/usr/bin/env bash
# tools/coverage.sh — which lines of /repo/src does the correspondence harness execute under the quick tier?
#
#   1. copies /verif/harness (without target/) to /tmp/cov-$$/harness, with a .cargo/config.toml that adds
#      `-C instrument-coverage` to the usual `--cfg getong_stateright_verif` (offline);
#   2. builds every bin named in /verif/cfg/*.json with `cargo +nightly build --release --offline -j 6`
#      (nightly because its toolchain ships llvm-profdata / llvm-cov of the matching LLVM);
#   3. runs every distinct (bin, args) pair of every cfg once: `--seed 1 --tier quick --out ...`, 15 min limit each,
#      4 at a time, LLVM_PROFILE_FILE=<scratch>/prof/<n>/%p-%m%c.profraw (child processes keep their own profile).
#      `%c` = continuous mode (counters live in the mmap'ed profile file; needs -Cllvm-args=-runtime-counter-relocation
#      on Linux): a process that is SIGKILLed still leaves its profile.  This matters: c17 (spawn.rs) and c19
#      (explorer.rs) run the code under test in children they kill on purpose, watchdogs kill hung children, and a bin
#      that hits the time limit is killed too.  COV_CONTINUOUS=0 switches back to plain at-exit profiles;
#   4. merges the profiles, writes /verif/coverage/{summary,uncovered,by_property}.txt (files under /repo/src only);
#   5. removes the scratch dir, prints the summary.
#
# Never writes to /repo or /verif/harness, never runs git / vp / ./check.  Environment knobs:
#   COV_TOOLCHAIN (nightly)  COV_JOBS (6)  COV_PAR (4)  COV_TIMEOUT (900 s)  COV_KEEP=1 (keep the scratch dir)
#   COV_OUT (/verif/coverage)  COV_CONTINUOUS (1)
set -euo pipefail

HERE="$(cd "$(dirname "${BASH_SOURCE[0]}")" && pwd)"
VERIF="$(dirname "$HERE")"
REPO=/repo
S="/tmp/cov-$$"
TC="${COV_TOOLCHAIN:-nightly}"
JOBS="${COV_JOBS:-6}"
PAR="${COV_PAR:-4}"
TMO="${COV_TIMEOUT:-900}"
OUTDIR="${COV_OUT:-$VERIF/coverage}"
PY="$HERE/coverage_report.py"
if [ "${COV_CONTINUOUS:-1}" = "1" ]; then
    EXTRA_FLAGS=', "-Cllvm-args=-runtime-counter-relocation"'; export COV_PROFILE_PATTERN='%p-%m%c.profraw'
else
    EXTRA_FLAGS=''; export COV_PROFILE_PATTERN='%p-%m.profraw'
fi

cleanup() {
    if [ "${COV_KEEP:-0}" = "1" ]; then echo "coverage: scratch kept in $S" >&2; else rm -rf "$S"; fi
}
trap cleanup EXIT

SYSROOT="$(rustc "+$TC" --print sysroot)"
LLVM_BIN="$(ls -d "$SYSROOT"/lib/rustlib/*/bin | head -1)"
PROFDATA="$LLVM_BIN/llvm-profdata"
LLVMCOV="$LLVM_BIN/llvm-cov"
[ -x "$PROFDATA" ] && [ -x "$LLVMCOV" ] || { echo "coverage: no llvm-profdata/llvm-cov under $LLVM_BIN" >&2; exit 2; }

# ---- 1. scratch copy of the harness crate --------------------------------------------------------------------
mkdir -p "$S/harness/.cargo" "$S/out" "$S/prof" "$S/run"
( cd "$VERIF/harness" && tar cf - --exclude=./target --exclude=./.cargo . ) | ( cd "$S/harness" && tar xf - )
[ -f "$S/harness/Cargo.lock" ] || cp "$REPO/Cargo.lock" "$S/harness/Cargo.lock"   # the harness' own lock file wins
cat > "$S/harness/.cargo/config.toml" <<EOF
[net]
offline = true

[build]
rustflags = ["--cfg", "getong_stateright_verif", "-C", "instrument-coverage"$EXTRA_FLAGS]
target-dir = "$S/harness/target"
EOF
grep -q 'path = "/repo"' "$S/harness/Cargo.toml" || { echo "coverage: harness does not depend on /repo by path" >&2; exit 2; }

# ---- 2. build -----------------------------------------------------------------------------------------------
python3 "$PY" plan "$VERIF/cfg" > "$S/plan.tsv"          # n <TAB> bin <TAB> props <TAB> json-args
BINS="$(cut -f2 "$S/plan.tsv" | sort -u)"
BINARGS=(); for b in $BINS; do BINARGS+=(--bin "$b"); done
echo "coverage: building $(echo $BINS | wc -w) bins with cargo +$TC (-j $JOBS) in $S" >&2
( cd "$S/harness" && env -u RUSTFLAGS -u CARGO_TARGET_DIR -u CARGO_ENCODED_RUSTFLAGS CARGO_NET_OFFLINE=true \
    cargo "+$TC" build --release --offline -j "$JOBS" "${BINARGS[@]}" ) > "$S/build.log" 2>&1 \
  || { tail -40 "$S/build.log" >&2; echo "coverage: build failed with toolchain $TC" >&2; exit 3; }

# ---- 3. run (profiles of each run are merged into one .profdata as soon as the run ends: the raw files are big) --
python3 "$PY" run --plan "$S/plan.tsv" --bindir "$S/harness/target/release" --scratch "$S" \
    --par "$PAR" --timeout "$TMO" --profdata "$PROFDATA"

# ---- 4. merge + report -----------------------------------------------------------------------------------------
mkdir -p "$OUTDIR"
python3 "$PY" report --plan "$S/plan.tsv" --bindir "$S/harness/target/release" --scratch "$S" \
    --profdata "$PROFDATA" --llvm-cov "$LLVMCOV" --repo "$REPO" --verif "$VERIF" --outdir "$OUTDIR"

# ---- 5. ----------------------------------------------------------------------------------------------------------
echo
cat "$OUTDIR/summary.txt"
