#!/bin/bash
# usage: seed_run.sh <seeded name> <property ids...>
# re-runs the quick checks against an already kept seeded change: the patch is applied (3-way if needed) to a scratch
# worktree of /repo's HEAD, the checks run against it through VERIF_REPO (so /repo itself stays untouched), and the
# result lines replace `checks_run_against_it` of seeded/<name>/meta.json (only for the properties run now).
TAG=${SEED_TAG:-}; exec 9>/tmp/seed$TAG.lock; flock 9   # one seeded-change run at a time per tag (a tag has its own .work/harness-alt<tag>)
[ -n "$TAG" ] && export VERIF_ALT_TAG=-$TAG
name=$1; shift; props="$@"
cd /verif
mut=/tmp/sr-repo-$$
git -C /repo worktree add -q --detach $mut HEAD || exit 2
# patch-head.diff = the same change ported by hand to the current HEAD (when later hook commits touch the patched lines)
pf=/verif/seeded/$name/patch.diff
[ -f /verif/seeded/$name/patch-head.diff ] && pf=/verif/seeded/$name/patch-head.diff
git -C $mut apply $pf 2>/dev/null || git -C $mut apply -3 $pf 2>/dev/null || { echo "$name: PATCH DOES NOT APPLY TO HEAD" | tee -a /tmp/seed-noapply.log; git -C /repo worktree remove --force $mut; exit 2; }
results=""
for p in $props; do
  out=$(VERIF_REPO=$mut ./check $p --tier quick 2>&1 | grep -E "^(VIOLATION|OK)" | tail -1)
  echo "$name $p: $out"
  results="$results$p: $out\n"
done
git -C /repo worktree remove --force $mut
python3 - "seeded/$name/meta.json" "$results" "$props" <<'PY'
import json,sys
p=sys.argv[1]; m=json.load(open(p))
new=[l for l in sys.argv[2].split("\\n") if l]
ran=set(sys.argv[3].split())
old=[l for l in m.get("checks_run_against_it",[]) if l.split(":")[0] not in ran]
m["checks_run_against_it"]=old+new
json.dump(m,open(p,"w"),indent=1)
PY
