#!/usr/bin/env python3
"""prints the markdown table of seeded changes from seeded/*/meta.json"""
import json,glob,os,re
rows=[]
for d in sorted(glob.glob('/verif/seeded/*')):
    m=json.load(open(os.path.join(d,'meta.json')))
    caught=[];missed=[]
    for l in m.get('checks_run_against_it',[]):
        pid=l.split(':')[0]
        if 'VIOLATION' in l: caught.append(pid+(' (no-failing-input-found)' if 'no-failing-input-found' in l else ''))
        else: missed.append(pid)
    summ=m.get('summary','').replace('|','/').strip()
    need=m.get('what_it_needs_to_manifest','').replace('|','/').replace('\n',' ').strip()
    if len(need)>230: need=need[:227]+'...'
    if len(summ)>200: summ=summ[:197]+'...'
    rows.append(f"| `{os.path.basename(d)}` — {summ} | {need} | **{', '.join(caught) or 'NOT CAUGHT'}**" + (f"; ran clean: {', '.join(missed)}" if missed else "") + " |")
print("\n".join(rows))
