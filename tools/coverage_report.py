#!/usr/bin/env python3
"""
Helper of tools/coverage.sh (see there).  Sub-commands:

  plan  CFGDIR                      -> TSV on stdout: n, bin, properties (comma list), JSON args, weight
                                       (one line per DISTINCT (bin, quick args) pair of cfg/*.json)
  run   --plan --bindir --scratch --par --timeout --profdata
                                    -> runs every line of the plan, merges each run's raw profiles into
                                       <scratch>/prof/<n>.profdata, writes <scratch>/runs.tsv
  report --plan --bindir --scratch --profdata --llvm-cov --repo --verif --outdir
                                    -> summary.txt, uncovered.txt, by_property.txt

Only the standard library; never writes outside --scratch and --outdir.
"""
import sys, os, re, json, glob, time, signal, subprocess, argparse, threading
from concurrent.futures import ThreadPoolExecutor

# ------------------------------------------------------------------------------------------------- plan

def cmd_plan(cfgdir):
    seen = {}      # (bin, args) -> [props, weight]
    order = []
    for f in sorted(glob.glob(os.path.join(cfgdir, "*.json"))):
        pid = os.path.basename(f)[:-5]
        cfg = json.load(open(f))
        for hb in cfg.get("harness") or [{"bin": pid.lower()}]:
            args = hb.get("quick_args", hb.get("args", []))
            key = (hb["bin"], json.dumps(args))
            w = hb.get("timeout_s", {}).get("quick", 0) if isinstance(hb.get("timeout_s"), dict) else 0
            if key not in seen:
                seen[key] = [[], 0]; order.append(key)
            seen[key][0].append(pid); seen[key][1] = max(seen[key][1], w)
    for n, key in enumerate(order):
        print("\t".join(["%02d-%s" % (n, key[0]), key[0], ",".join(seen[key][0]), key[1], str(seen[key][1])]))

def read_plan(path):
    plan = []
    for line in open(path):
        line = line.rstrip("\n")
        if not line: continue
        n, b, props, args, w = line.split("\t")
        plan.append({"n": n, "bin": b, "props": props.split(","), "args": json.loads(args), "weight": int(w)})
    return plan

# ------------------------------------------------------------------------------------------------- run

def merge_raw(profdata, rawdir, out):
    raws = sorted(glob.glob(os.path.join(rawdir, "*.profraw")))
    raws = [r for r in raws if os.path.getsize(r) > 0]
    if not raws: return 0
    lst = out + ".list"
    open(lst, "w").write("\n".join(raws) + "\n")
    p = subprocess.run([profdata, "merge", "-sparse", "--failure-mode=all", "-f", lst, "-o", out],
                       stdout=subprocess.PIPE, stderr=subprocess.STDOUT)
    os.remove(lst)
    if p.returncode != 0 or not os.path.exists(out):
        sys.stderr.write("coverage: llvm-profdata merge failed for %s: %s\n" % (rawdir, p.stdout.decode()[-300:]))
        return -len(raws)
    return len(raws)

def run_one(e, a, lock, results):
    n = e["n"]
    rawdir = os.path.join(a.scratch, "prof", n); os.makedirs(rawdir, exist_ok=True)
    wdir = os.path.join(a.scratch, "run", n); os.makedirs(wdir, exist_ok=True)
    cases = os.path.join(a.scratch, "out", n + ".cases")
    cmd = [os.path.join(a.bindir, e["bin"]), "--seed", "1", "--tier", "quick", "--out", cases] + e["args"]
    env = dict(os.environ, LLVM_PROFILE_FILE=os.path.join(rawdir, os.environ.get("COV_PROFILE_PATTERN", "%p-%m.profraw")))
    t0 = time.time()
    log = open(os.path.join(a.scratch, "out", n + ".log"), "wb")
    p = subprocess.Popen(cmd, cwd=wdir, env=env, stdout=log, stderr=subprocess.STDOUT, start_new_session=True)
    try:
        rc = p.wait(timeout=a.timeout); status = "rc=%d" % rc
    except subprocess.TimeoutExpired:
        status = "TIMEOUT(%ds)" % a.timeout
    try: os.killpg(p.pid, signal.SIGKILL)          # the run's own children, if any are left
    except (ProcessLookupError, PermissionError): pass
    try: p.wait(timeout=30)
    except subprocess.TimeoutExpired: pass
    log.close()
    secs = time.time() - t0
    nv = nlines = 0
    if os.path.exists(cases):
        with open(cases, "rb") as f:
            for line in f:
                nlines += 1
                if line.startswith(b"V\t"): nv += 1
    rawbytes = sum(os.path.getsize(x) for x in glob.glob(os.path.join(rawdir, "*.profraw")))
    nraw = merge_raw(a.profdata, rawdir, os.path.join(a.scratch, "prof", n + ".profdata"))
    for x in glob.glob(os.path.join(rawdir, "*")): os.remove(x)
    if os.path.exists(cases): os.remove(cases)      # cases files are big and not needed for the report
    with lock:
        results[n] = (status, secs, nraw, rawbytes, nlines, nv)
        sys.stderr.write("coverage: %-10s %-22s %-12s %5.0fs  profiles=%d (%.0f MB raw)  case lines=%d  V lines=%d\n" %
                         (n, " ".join(e["args"]), status, secs, nraw, rawbytes / 1e6, nlines, nv))

def cmd_run(a):
    plan = read_plan(a.plan)
    lock = threading.Lock(); results = {}
    todo = sorted(plan, key=lambda e: -e["weight"])          # the long ones first
    with ThreadPoolExecutor(max_workers=a.par) as ex:
        for e in todo: ex.submit(run_one, e, a, lock, results)
    with open(os.path.join(a.scratch, "runs.tsv"), "w") as f:
        for e in plan:
            r = results.get(e["n"], ("not-run", 0, 0, 0, 0, 0))
            f.write("\t".join([e["n"], r[0], "%.0f" % r[1], str(r[2]), str(r[4]), str(r[5])]) + "\n")

# ------------------------------------------------------------------------------------------------- lcov

class FileCov:
    def __init__(self):
        self.lines = {}     # line -> count
        self.fns = {}       # start line -> [count, set(names)]

def export_lcov(a, profdatas, objs, tag):
    """merge the given .profdata files, export lcov restricted to <repo>/src, parse -> {relpath: FileCov}"""
    merged = os.path.join(a.scratch, "prof", "merged-%s.profdata" % tag)
    p = subprocess.run([a.profdata, "merge", "-sparse", "-o", merged] + profdatas, stdout=subprocess.PIPE, stderr=subprocess.STDOUT)
    if p.returncode != 0: raise SystemExit("llvm-profdata merge failed: " + p.stdout.decode()[-500:])
    cmd = [a.llvm_cov, "export", "-format=lcov", "-instr-profile=" + merged, objs[0]]
    for o in objs[1:]: cmd += ["-object", o]
    cmd += [os.path.join(a.repo, "src")]
    p = subprocess.run(cmd, stdout=subprocess.PIPE, stderr=subprocess.PIPE)
    if p.returncode != 0: raise SystemExit("llvm-cov export failed: " + p.stderr.decode()[-800:])
    os.remove(merged)
    src = os.path.join(a.repo, "src") + "/"
    cov, cur, fnline = {}, None, {}
    for line in p.stdout.decode("utf-8", "replace").split("\n"):
        if line.startswith("SF:"):
            path = line[3:]
            cur = None; fnline = {}
            if path.startswith(src):
                cur = cov.setdefault("src/" + path[len(src):], FileCov())
        elif cur is None: continue
        elif line.startswith("FN:"):
            parts = line[3:].split(",")
            start = int(parts[0])
            name = parts[2] if len(parts) >= 3 and parts[1].isdigit() else parts[1]
            fnline[name] = start
            cur.fns.setdefault(start, [0, set()])[1].add(name)
        elif line.startswith("FNDA:"):
            c, name = line[5:].split(",", 1)
            if name in fnline: cur.fns[fnline[name]][0] += int(c)
        elif line.startswith("DA:"):
            parts = line[3:].split(",")
            ln, c = int(parts[0]), int(parts[1])
            cur.lines[ln] = cur.lines.get(ln, 0) + c
        elif line == "end_of_record": cur = None
    return cov

# ------------------------------------------------------------------------------------------------- source analysis

FN_RE = re.compile(r'^\s*(?:pub(?:\([^)]*\))?\s+)?(?:(?:const|async|unsafe|default|extern\s+"[^"]*")\s+)*fn\s+(\w+)')
IMPL_RE = re.compile(r'^\s*(?:unsafe\s+)?(impl\b.*|(?:pub(?:\([^)]*\))?\s+)?trait\s+\w+.*|(?:pub(?:\([^)]*\))?\s+)?mod\s+\w+.*)$')
CLOSE_RE = re.compile(r'^\s*[\]\)\}]+\s*[;,]?\s*(//.*)?$')
LOG_RE = re.compile(r'\blog::|^\s*(?:trace|debug|info|warn|error)!\s*\(')

def indent(s): return len(s) - len(s.lstrip(" "))

class Source:
    def __init__(self, path):
        self.text = open(path, encoding="utf-8", errors="replace").read().split("\n")
        self.n = len(self.text)
        self.test = self._test_lines()
        self.skip = self._skip_lines()

    def line(self, i): return self.text[i - 1] if 1 <= i <= self.n else ""

    def _test_lines(self):
        """line numbers inside the body of an item that follows #[cfg(test)] (brace matching, good enough)"""
        t = set(); i = 1
        while i <= self.n:
            if re.match(r'^\s*#\[cfg\((?:test|all\(test)', self.line(i)):
                j = i + 1
                while j <= self.n and (self.line(j).strip().startswith("#[") or not self.line(j).strip()): j += 1
                depth = 0; k = j; opened = False
                while k <= self.n:
                    code = re.sub(r'//.*', '', self.line(k))
                    code = re.sub(r'"(?:[^"\\]|\\.)*"', '""', code); code = re.sub(r"'(?:[^'\\]|\\.)'", "' '", code)
                    depth += code.count("{") - code.count("}")
                    if "{" in code: opened = True
                    if (opened and depth <= 0) or (not opened and code.rstrip().endswith(";")): break
                    k += 1
                for x in range(i, min(k, self.n) + 1): t.add(x)
                i = k + 1
            else: i += 1
        return t

    def _skip_lines(self):
        """lines that are never reported as uncovered: log macro calls (all their lines), closers, blanks, comments"""
        s = set(); i = 1
        while i <= self.n:
            l = self.line(i); st = l.strip()
            if not st or st.startswith("//") or CLOSE_RE.match(l) or st in ("} else {", "else {"): s.add(i)
            elif LOG_RE.search(l):
                depth = 0; k = i
                while k <= self.n:
                    code = re.sub(r'"(?:[^"\\]|\\.)*"', '""', self.line(k))
                    depth += code.count("(") - code.count(")")
                    s.add(k)
                    if depth <= 0: break
                    k += 1
                i = k
            i += 1
        return s

    def enclosing_fn(self, ln):
        """(fn line, label) of the nearest `fn` at or above ln whose indentation is not deeper than the line's"""
        ind = indent(self.line(ln)) if self.line(ln).strip() else 10 ** 6
        for i in range(ln, 0, -1):
            m = FN_RE.match(self.line(i))
            if m and (i == ln or indent(self.line(i)) < ind):
                return i, self.fn_label(i, m.group(1))
        return 0, "(no enclosing fn)"

    def fn_label(self, i, name):
        ind = indent(self.line(i)); ctx = ""
        for k in range(i - 1, 0, -1):
            l = self.line(k)
            if l.strip() and indent(l) < ind and IMPL_RE.match(l):
                ctx = re.sub(r'\s*(where\b.*)?\{?\s*$', '', l.strip()); break
            if l.strip() and indent(l) < ind and FN_RE.match(l):       # nested fn
                ctx = "fn " + FN_RE.match(l).group(1); break
        return (ctx + " :: " if ctx else "") + "fn " + name

    def describe_fn_at(self, start):
        """label for the function record that lcov places at line `start` (a named fn or a closure)"""
        for i in range(start, min(start + 3, self.n) + 1):
            m = FN_RE.match(self.line(i))
            if m: return self.fn_label(i, m.group(1)), False
        fl, lab = self.enclosing_fn(start)
        return "closure at line %d in %s" % (start, lab), True

def ranges(nums):
    out = []
    for x in sorted(nums):
        if out and x == out[-1][1] + 1: out[-1][1] = x
        else: out.append([x, x])
    return out

def pct(c, t): return "%5.1f%%" % (100.0 * c / t) if t else "   n/a"

def file_kind(rel):
    if rel.endswith("test_util.rs"): return "test-support"
    if rel == "src/verif.rs": return "verif-hooks"
    return ""

# ------------------------------------------------------------------------------------------------- report

def file_stats(fc, src):
    """(lines total, lines covered, fns total, fns covered, significant uncovered lines) without cfg(test) bodies"""
    ls = {l: c for l, c in fc.lines.items() if l not in src.test}
    fns = {l: v for l, v in fc.fns.items() if l not in src.test}
    unc = [l for l, c in ls.items() if c == 0 and l not in src.skip]
    return len(ls), sum(1 for c in ls.values() if c > 0), len(fns), sum(1 for v in fns.values() if v[0] > 0), sorted(unc)

def uncovered_fns(fc, src):
    out = []
    for start in sorted(fc.fns):
        if start in src.test or fc.fns[start][0] > 0: continue
        lab, closure = src.describe_fn_at(start)
        out.append((start, lab, closure))
    return out

def cmd_report(a):
    plan = read_plan(a.plan)
    runs = {}
    rt = os.path.join(a.scratch, "runs.tsv")
    if os.path.exists(rt):
        for l in open(rt):
            p = l.rstrip("\n").split("\t"); runs[p[0]] = p[1:]
    have = [e for e in plan if os.path.exists(os.path.join(a.scratch, "prof", e["n"] + ".profdata"))]
    if not have: raise SystemExit("coverage: no profile was produced")
    objs = sorted({os.path.join(a.bindir, e["bin"]) for e in plan})
    pd = lambda e: os.path.join(a.scratch, "prof", e["n"] + ".profdata")
    total = export_lcov(a, [pd(e) for e in have], objs, "all")

    srcs = {}
    def S(rel):
        if rel not in srcs: srcs[rel] = Source(os.path.join(a.repo, rel))
        return srcs[rel]
    all_rs = sorted("src/" + os.path.relpath(p, os.path.join(a.repo, "src"))
                    for p in glob.glob(os.path.join(a.repo, "src", "**", "*.rs"), recursive=True))
    stamp = time.strftime("%Y-%m-%d %H:%M:%S")
    runinfo = ["# runs (seed 1, tier quick):"]
    for e in plan:
        r = runs.get(e["n"], ["?", "?", "?", "?", "?"])
        runinfo.append("#   %-10s %-20s props=%-16s %-10s %4ss  merged profiles=%s  V lines=%s" %
                       (e["n"], " ".join(e["args"]), ",".join(e["props"]), r[0], r[1], r[2], r[4]))

    # ---- summary.txt
    o = ["# coverage of %s/src by the correspondence harness, tier quick, seed 1  (%s; tools/coverage.sh)" % (a.repo, stamp),
         "# lines/functions inside #[cfg(test)] items are not compiled and not counted; a generic function counts once",
         "# (covered if any instantiation in any harness binary ran); closures are functions of their own.",
         "# 'signif.unc' = uncovered lines left after dropping log:: calls, closing braces, blanks (what uncovered.txt lists)."]
    o += runinfo + [""]
    o.append("%-42s %7s %7s %7s   %5s %5s   %10s  %s" % ("file", "lines", "covered", "%", "fns", "cov", "signif.unc", "note"))
    T = [0, 0, 0, 0, 0]; P = [0, 0, 0, 0, 0]
    for rel in all_rs:
        kind = file_kind(rel)
        if rel not in total:
            o.append("%-42s %7s %7s %7s   %5s %5s   %10s  %s" % (rel, "-", "-", "-", "-", "-", "-", (kind + " " if kind else "") + "no instrumented code in any harness binary (cfg(test)-only module, or declarations without bodies)"))
            continue
        lt, lc, ft, fcv, unc = file_stats(total[rel], S(rel))
        o.append("%-42s %7d %7d %7s   %5d %5d   %10d  %s" % (rel, lt, lc, pct(lc, lt), ft, fcv, len(unc), kind))
        for k, v in enumerate([lt, lc, ft, fcv, len(unc)]):
            T[k] += v
            if not kind: P[k] += v
    o.append("%-42s %7d %7d %7s   %5d %5d   %10d" % ("TOTAL", T[0], T[1], pct(T[1], T[0]), T[2], T[3], T[4]))
    o.append("%-42s %7d %7d %7s   %5d %5d   %10d" % ("TOTAL without test-support / verif-hooks", P[0], P[1], pct(P[1], P[0]), P[2], P[3], P[4]))
    open(os.path.join(a.outdir, "summary.txt"), "w").write("\n".join(o) + "\n")

    # ---- uncovered.txt
    o = ["# uncovered code of %s/src (no harness binary executed these lines under tier quick, seed 1; %s)" % (a.repo, stamp),
         "# skipped: #[cfg(test)] items, log:: calls, closing braces, blank/comment lines.  Grouped by enclosing fn",
         "# (backwards search).  [NEVER CALLED] = no instantiation of the function (or closure) was entered at all.", ""]
    for rel in all_rs:
        if rel not in total: continue
        src = S(rel); fc = total[rel]
        lt, lc, ft, fcv, unc = file_stats(fc, src)
        if not unc: continue
        kind = file_kind(rel)
        o.append("=" * 110)
        o.append("== %s   lines %d, covered %d (%s); functions %d, covered %d; uncovered lines listed: %d%s" %
                 (rel, lt, lc, pct(lc, lt).strip(), ft, fcv, len(unc), "   [" + kind + "]" if kind else ""))
        groups = {}
        for r in ranges(unc):
            # bridge over skipped lines so that one block of code is one range
            fl, lab = src.enclosing_fn(r[0])
            groups.setdefault((fl, lab), []).append(r)
        for (fl, lab), rs in sorted(groups.items()):
            never = ""
            if fl in fc.fns and fc.fns[fl][0] == 0: never = "   [NEVER CALLED]"
            nl = sum(r[1] - r[0] + 1 for r in rs)
            o.append("")
            o.append("  -- %s  (line %d; %d uncovered line%s)%s" % (lab, fl, nl, "" if nl == 1 else "s", never))
            merged = []
            for r in rs:       # join ranges separated only by skipped / non-instrumented lines
                if merged and all((x in src.skip) or (x not in fc.lines) for x in range(merged[-1][1] + 1, r[0])) and r[0] - merged[-1][1] <= 4:
                    merged[-1][1] = r[1]
                else: merged.append(list(r))
            for r in merged:
                o.append("     %s:" % (("%d" % r[0]) if r[0] == r[1] else "%d-%d" % (r[0], r[1])))
                for x in range(r[0], r[1] + 1):
                    mark = " " if (x in fc.lines and fc.lines[x] == 0 and x not in src.skip) else "."
                    o.append("       %5d%s| %s" % (x, mark, src.line(x).rstrip()))
        o.append("")
    open(os.path.join(a.outdir, "uncovered.txt"), "w").write("\n".join(o) + "\n")

    # ---- by_property.txt
    props = [json.loads(l) for l in open(os.path.join(a.verif, "properties.jsonl")) if l.strip()]
    o = ["# per property: anchor files, their line coverage by ALL harness binaries and by the property's OWN binaries",
         "# (cfg/Cxx.json), and the non-test functions of those files that the property's own binaries never enter",
         "# ('*' = entered by no harness binary of any property).  tier quick, seed 1; %s" % stamp, ""]
    cache = {}
    for p in props:
        pid = p["id"]
        mine = [e for e in have if pid in e["props"]]
        key = tuple(e["n"] for e in mine)
        if key not in cache:
            cache[key] = export_lcov(a, [pd(e) for e in mine], objs, pid) if mine else {}
        own = cache[key]
        o.append("=" * 110)
        o.append("%s  %s" % (pid, p.get("title", "")))
        o.append("   own harness runs: %s" % (", ".join("%s %s" % (e["n"], " ".join(e["args"])) for e in mine) or "(none produced a profile)"))
        o.append("   %-40s %9s %9s   %s" % ("anchor file", "all", "own", "functions: total / entered by own"))
        lists = []
        for rel in p["anchors"]["files"]:
            if not rel.endswith(".rs") or not os.path.exists(os.path.join(a.repo, rel)):
                o.append("   %-40s %9s %9s   (not a Rust source of the crate: not measured)" % (rel, "-", "-")); continue
            if rel not in total:
                o.append("   %-40s %9s %9s   (no instrumented code: declarations only / cfg(test))" % (rel, "-", "-")); continue
            src = S(rel)
            lt, lc, ft, fcv, _ = file_stats(total[rel], src)
            if rel in own:
                olt, olc, oft, ofc, _ = file_stats(own[rel], src)
                ufs = uncovered_fns(own[rel], src)
            else:
                olt, olc, oft, ofc = lt, 0, ft, 0
                ufs = [(s,) + src.describe_fn_at(s) for s in sorted(total[rel].fns) if s not in src.test]
            o.append("   %-40s %9s %9s   %d / %d" % (rel, pct(lc, lt), pct(olc, olt), oft, ofc))
            lists.append((rel, ufs))
        for rel, ufs in lists:
            if not ufs: continue
            o.append("   uncovered functions in %s:" % rel)
            for start, lab, closure in ufs:
                star = "*" if total[rel].fns.get(start, [0])[0] == 0 else " "
                o.append("     %s %5d  %s" % (star, start, lab))
        o.append("")
    open(os.path.join(a.outdir, "by_property.txt"), "w").write("\n".join(o) + "\n")

# ------------------------------------------------------------------------------------------------- main

def main():
    if len(sys.argv) >= 3 and sys.argv[1] == "plan":
        return cmd_plan(sys.argv[2])
    ap = argparse.ArgumentParser()
    ap.add_argument("cmd", choices=["run", "report"])
    ap.add_argument("--plan", required=True); ap.add_argument("--bindir", required=True)
    ap.add_argument("--scratch", required=True); ap.add_argument("--profdata", required=True)
    ap.add_argument("--par", type=int, default=4); ap.add_argument("--timeout", type=int, default=900)
    ap.add_argument("--llvm-cov", dest="llvm_cov"); ap.add_argument("--repo", default="/repo")
    ap.add_argument("--verif", default="/verif"); ap.add_argument("--outdir", default="/verif/coverage")
    a = ap.parse_args()
    if a.cmd == "run": cmd_run(a)
    else: cmd_report(a)

if __name__ == "__main__":
    main()
