#!/usr/bin/env python3
"""prints the prompt for a seeding sub-agent: seed_prompt.py <pid> <round-tag> [focus text]"""
import sys,json
pid,tag=sys.argv[1],sys.argv[2]
focus=sys.argv[3] if len(sys.argv)>3 else ""
prop=open(f'/tmp/seedprompts/{pid}.txt').read()
prev=open(f'/tmp/seedprompts/{pid}.prev.txt').read()
wt=f'/tmp/{tag}-{pid}'
print(f"""You are working on the Rust crate getong/stateright (an explicit-state model checker for actor systems). A scratch git worktree of it, for you alone, is at {wt} (detached HEAD). Work ONLY inside {wt} and {wt}-out; never touch or read /repo or /verif.

GOAL. Write a realistic change to the crate (the kind of slip a maintainer could make in a refactoring, optimisation or feature commit, and that a reviewer could plausibly wave through) that BREAKS the semantic property given below, while the crate still compiles and the existing test suite still passes. Then demonstrate it.

THE PROPERTY (JSON, verbatim):
{prop}

REQUIREMENTS
1. The change must need something SPECIFIC to manifest: a particular interleaving, a crash or fault at a particular point, a multi-step sequence of operations, an unusual input or option combination, or two cooperating edit sites that each look fine alone. Changes that ordinary use would expose at once (e.g. every check now returns wrong results) are not wanted.
2. `cargo test --lib --offline` in the worktree must give exactly the same result with and without your change: 84 passed, 3 failed (these three fail on the pristine tree too, ignore them: checker::explorer::test::can_next, checker::explorer::test::smoke_test_states, checker::test_report::report_includes_property_names_and_paths). Do not edit tests.
3. The crate must also still build with the instrumentation flag on: `RUSTFLAGS="--cfg getong_stateright_verif" cargo check --offline --lib`. Do NOT edit, move or delete anything inside `#[cfg(getong_stateright_verif)]` items/blocks or src/verif.rs (they are observation hooks; leave them where they are and keep them firing at the same points as far as your change allows).
4. Demonstration: a single integration-test file `demo_test.rs` (it will be copied to `tests/demo.rs` and run with `cargo test --offline --test demo`) that PASSES on the pristine tree and FAILS with your change applied. It must finish by itself within ~60 s in both cases (guard anything that could hang with a watchdog thread + timeout and fail instead of hanging). It may only use the crate's public API and dev-dependencies already in Cargo.toml. If the change is a race, make the demo robust (repeat rounds so it fails with very high probability when patched and never when clean).
5. Never use `git stash` (the stash is shared by all worktrees of the repository and other people work in sibling worktrees): to compare clean vs patched, save `git diff > file` and use `git apply -R` / `git apply`. Environment: no network. Always `export CARGO_NET_OFFLINE=true CARGO_TARGET_DIR={wt}-target` so that build output stays out of the worktree. The machine is shared: use `-j 4` for cargo.
6. Deliver into {wt}-out/1/ (and, if you find a second, clearly different change for the same property, {wt}-out/2/):
   - patch.diff   : `git diff` of your change against HEAD (only files under src/; must apply cleanly with `git apply` on the pristine tree)
   - demo_test.rs : the demonstration
   - meta.json    : {{"property": "{pid}", "summary": "<what the change does and why it looks innocent>", "what_it_needs_to_manifest": "<...>", "files_touched": [...], "how_verified": "<the commands you ran and what they printed, clean and patched>"}}
7. When done, restore the worktree: `git checkout -- . && rm -f tests/demo.rs` (leave {wt}-out and nothing else), and delete {wt}-target.

{('FOCUS FOR THIS ROUND: ' + focus) if focus else ''}

Changes ALREADY KNOWN for this property - do not repeat these or close variants of them (same site + same slip); look elsewhere: helper functions, trait impls and default methods, rarely used variants/options, builder glue, code outside the property's anchor files that the property nevertheless depends on, or pairs of cooperating edits:
{prev}
Read the relevant source carefully first, think about which inputs/schedules the existing tests do not exercise, and verify everything you claim by actually running it. In your final answer give a 5-line summary: what you changed, what it needs to manifest, and the verified results (clean vs patched) for the demo and the lib suite.""")
