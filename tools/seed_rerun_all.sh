#!/bin/bash
# re-runs the quick checks against EVERY kept seeded change (the properties recorded in its meta.json), sequentially;
# usage: seed_rerun_all.sh [name-prefix]    log: /tmp/seed-rerun.log
cd /verif
# SEED_LIST=<file with seed names> restricts the run; SEED_TAG=<x> lets several runs work side by side
for d in $( if [ -n "$SEED_LIST" ]; then sed 's#^#seeded/#; s#$#/#' $SEED_LIST; else ls -d seeded/${1}*/; fi ); do
  name=$(basename $d)
  props=$(python3 - "$d/meta.json" <<'PY'
import json,sys
m=json.load(open(sys.argv[1]))
ps=[l.split(':')[0] for l in m.get('checks_run_against_it',[])]
if m.get('property') and m['property'] not in ps: ps.insert(0,m['property'])
print(' '.join(dict.fromkeys(ps)))
PY
)
  while pgrep -f "tools/seed_verify.sh" >/dev/null; do sleep 20; done
  tools/seed_run.sh $name $props 2>&1 | tee -a /tmp/seed-rerun.log
done
echo ALL-DONE >> /tmp/seed-rerun.log
