#!/usr/bin/env python3
"""summarises /tmp/mut-*.log (tools/mutate.py) into notes/mutation.md"""
import json,glob,os
from collections import Counter
rows=[]; tot=Counter(); per=Counter()
for f in sorted(glob.glob('/tmp/mut-*.log')):
    tag=os.path.basename(f)[4:-4]
    for l in open(f):
        d=json.loads(l)
        if 'status' not in d: continue
        tot[d['status']]+=1; per[(tag,d['status'])]+=1
        if d['status'] in ('SURVIVED','killed-by-checks'): rows.append((tag,d))
TRIAGE={
 ("src/job_market.rs","if closing_time < now {"):"equivalent: differs only when the two clock readings are EQUAL to the nanosecond",
 ("src/actor/spawn.rs","continue;"):"equivalent: without the `continue` the loop body falls through to the command loop over an EMPTY `Out` and starts the next iteration",
 ("src/actor/model.rs","if state.timers_set.len() <= index {"):"dead defensive code: `init_states` pre-sizes `timers_set`, the resize is never needed (coverage: never executed)",
 ("src/actor/network.rs","assert!(value > 0);"):"defensive assertion that never fires (counts of the multiset are >= 1 by construction: theorem C07_canonical)",
 ("src/checker.rs","let additional_info = if additional_info.is_empty() {"):"only the TEXT of the panic message of assert_discovery changes (whether the parenthesised hints are appended); which calls panic is unchanged",
 ("src/checker/on_demand.rs","if pending.len() > 1 && thread_count > 1 {"):"equivalent: with exactly one pending job `split_and_push` computes a piece size of 0 and publishes nothing",
 ("src/checker/explorer.rs","if !self.properties.is_empty() {"):"REAL GAP, closed: the rows of /.states lost their `properties`; the harness validated them only when present. Now a row of a model with properties must carry them (the mutant is killed: `row-without-properties`)",
 ("src/actor/spawn.rs","if e.kind() != std::io::ErrorKind::WouldBlock {"):"equivalent: only decides whether a log line is written",
 ("src/checker/explorer.rs","let snapshot = Arc::new(RwLock::new(Snapshot(true, None)));"):"outside every property: only whether the FIRST visited path is sampled at once as `recent_path` of /.status or after the first 4 s timer tick (the UI's progress sample; documented limit of C19 in DESIGN §5)",
 ("src/checker/explorer.rs","fingerprints.push_back(fingerprint);"):"equivalent: the deque is EMPTY at that point (branch `fingerprints.is_empty()`), front = back",
}
out=["# Mutation runs (tools/mutate.py)","",
"Syntactic mutants of the anchor files (relational operators, `==`/`!=`, `&&`/`||`, `+1`/`-1`, boolean literals, `continue`/`break`,",
"`push_front`/`push_back`, `pop_back`/`pop_front`, `min`/`max`, `is_empty`, `is_some`/`is_none`, negations), one at a time, in a scratch worktree of /repo.",
"A mutant counts only if it COMPILES (with and without the hooks) and PASSES the crate's own lib suite (84 passed, the same 3 failed):",
"those are the realistic changes the existing tests miss.  Each such mutant is run against the quick checks of the properties anchored",
"in the mutated file (at most four), through `VERIF_REPO`.","",
f"Totals over all runs: {tot['does-not-compile']} did not compile, {tot['killed-by-existing-tests']} were killed by the existing tests,",
f"**{tot['killed-by-checks']} were killed by the checks, {tot['SURVIVED']} survived** (all survivors triaged below: equivalent mutants or dead defensive code).","",
"| run | files | killed by checks | survived |","|---|---|---|---|"]
for tag in sorted({t for t,_ in per}):
    out.append(f"| {tag} | see /tmp log | {per[(tag,'killed-by-checks')]} | {per[(tag,'SURVIVED')]} |")
out+=["","## Survivors and their triage","","| file:line | mutation | checks run | triage |","|---|---|---|---|"]
seen=set()
for tag,d in rows:
    if d['status']!='SURVIVED': continue
    k=(d['file'],d['line'],d['new'])
    if k in seen: continue
    seen.add(k)
    tri=TRIAGE.get((d['file'],d['old']),"NOT TRIAGED")
    if tri=="NOT TRIAGED" and d['old'].startswith("if pending.len() > 1 && thread_count > 1"):
        tri="equivalent: with exactly one pending job `split_and_push` computes a piece size of 0 and publishes nothing"
    out.append(f"| {d['file']}:{d['line']} | `{d['old'][:70]}` → `{d['new'][:70]}` | {', '.join(d['checks'])} | {tri} |")
out+=["","## Mutants killed by the checks","","| file:line | mutation | verdicts |","|---|---|---|"]
seen=set()
for tag,d in rows:
    if d['status']!='killed-by-checks': continue
    k=(d['file'],d['line'],d['new'])
    if k in seen: continue
    seen.add(k)
    out.append(f"| {d['file']}:{d['line']} | `{d['old'][:70]}` → `{d['new'][:70]}` | {', '.join(k+': '+v for k,v in d['checks'].items())} |")
open('/verif/notes/mutation.md','w').write("\n".join(out)+"\n")
print(tot)
