#!/usr/bin/env python3
"""rewrites the seed table of DESIGN.md §13 (between the SEED_TABLE markers) from seeded/*/meta.json"""
import subprocess,re
p='/verif/DESIGN.md'
s=open(p).read()
tbl=subprocess.run(['python3','/verif/tools/seed_table.py'],capture_output=True,text=True).stdout.rstrip('\n')
block="<!-- SEED_TABLE_BEGIN -->\n"+tbl+"\n<!-- SEED_TABLE_END -->"
if 'SEED_TABLE_PLACEHOLDER' in s:
    s=s.replace('SEED_TABLE_PLACEHOLDER',block)
else:
    s=re.sub(r"<!-- SEED_TABLE_BEGIN -->.*?<!-- SEED_TABLE_END -->",lambda m:block,s,flags=re.S)
open(p,'w').write(s)
print(len(tbl.split('\n')),'rows')
