#!/usr/bin/env python3
"""
Mutation run: small syntactic mutants of /repo/src, one at a time, in a scratch worktree.
A mutant that compiles AND passes the crate's own lib suite (84 pass, same 3 fail) is a "realistic change that the existing
tests miss"; the quick checks of the properties anchored in the mutated file are then run against it (VERIF_REPO).
usage: mutate.py --tag A --seed 1 --count 30 [--files src/checker/bfs.rs,...]      log: /tmp/mut-<tag>.log (jsonl)
Survivors are NOT automatically defects of the machinery: many mutants are equivalent (dead code, defensive checks,
logging); they are triaged by hand (DESIGN §13c).
"""
import sys, os, re, json, random, subprocess, time
A = sys.argv
def arg(n, d=None):
    return A[A.index(n) + 1] if n in A else d
tag = arg("--tag", "A"); seed = int(arg("--seed", "1")); count = int(arg("--count", "20"))
props = [json.loads(l) for l in open("/verif/properties.jsonl")]
file_props = {}
for p in props:
    for f in p["anchors"]["files"]:
        if f.startswith("src/") and f.endswith(".rs"): file_props.setdefault(f, []).append(p["id"])
# files that no property anchors but whose code the checks now exercise (DESIGN §13c)
for f, ps in {"src/report.rs": ["C02", "C03"], "src/checker/visitor.rs": ["C03", "C01"], "src/actor/actor_test_util.rs": [],
              "src/checker/representative.rs": ["C10"], "src/checker/rewrite.rs": ["C10"], "src/semantics.rs": ["C18", "C08"],
              "src/semantics/consistency_tester.rs": ["C08", "C14"]}.items():
    file_props.setdefault(f, ps)
files = arg("--files"); files = files.split(",") if files else sorted(file_props)
rng = random.Random(seed)
MUTS = [
    (r" <= ", " < "), (r" >= ", " > "), (r" < (?![A-Z_a-z:]*>)", " <= "), (r"(?<!-) > ", " >= "),
    (r"==", "!="), (r"!=", "=="), (r"&&", "||"), (r"\|\|", "&&"),
    (r"\+ 1\b", "+ 0"), (r"- 1\b", "- 0"), (r"\btrue\b", "false"), (r"\bfalse\b", "true"),
    (r"\bcontinue;", "{}"), (r"\.saturating_sub\(1\)", ".saturating_sub(0)"), (r"\bpush_front\b", "push_back"), (r"\bpush_back\b", "push_front"),
    (r"\bpop_back\b", "pop_front"), (r"\.min\(", ".max("), (r"\.max\(", ".min("), (r"\bis_empty\(\)", "is_empty() == false"),
    (r"\.insert\(", ".get(&"),  # usually does not compile: fine
    (r"\bSome\(([a-z_]+)\)\s*=>", r"Some(\1) if false =>"), (r"\bis_some\(\)", "is_none()"), (r"\bis_none\(\)", "is_some()"),
    (r"\bbreak;", "continue;"), (r"!([a-z_]+)\.", r"\1."),
]
def candidates(path):
    src = open(path).read().split("\n")
    out = []
    in_test = False; skip_next = False
    for i, line in enumerate(src):
        st = line.strip()
        if st.startswith("#[cfg(test)]"): in_test = True
        if in_test: continue
        if skip_next: skip_next = False; continue
        if "getong_stateright_verif" in line: skip_next = True; continue
        if st.startswith("//") or st.startswith("///") or "log::" in line or st.startswith("#[") or "crate::verif::" in line: continue
        code = line.split("//")[0]
        for k, (pat, rep) in enumerate(MUTS):
            for m in re.finditer(pat, code):
                # skip generics / arrows / lifetimes
                ctx = code[max(0, m.start() - 2): m.end() + 2]
                if "->" in ctx or "=>" in ctx and pat in (r"==", ) : continue
                out.append((i, m.start(), m.end(), k))
    return src, out
def sh(cmd, cwd=None, env=None, timeout=3600):
    p = subprocess.run(cmd, shell=True, cwd=cwd, env=env, stdout=subprocess.PIPE, stderr=subprocess.STDOUT, timeout=timeout)
    return p.returncode, p.stdout.decode("utf-8", "replace")
wt = f"/tmp/mut-{tag}"; tgt = f"/tmp/mut-{tag}-target"
sh(f"git -C /repo worktree remove --force {wt}"); 
rc, o = sh(f"git -C /repo worktree add -q --detach {wt} HEAD")
env = dict(os.environ, CARGO_NET_OFFLINE="true", CARGO_TARGET_DIR=tgt)
log = open(f"/tmp/mut-{tag}.log", "a")
done = 0; tries = 0
while done < count and tries < count * 12:
    tries += 1
    f = rng.choice(files)
    src, cands = candidates(os.path.join(wt, f))
    if not cands: continue
    i, a, b, k = rng.choice(cands)
    pat, rep = MUTS[k]
    line = src[i]
    new = line[:a] + re.sub(pat, rep, line[a:b], count=1) + line[b:]
    if new == line: continue
    src2 = list(src); src2[i] = new
    open(os.path.join(wt, f), "w").write("\n".join(src2))
    rec = {"file": f, "line": i + 1, "old": line.strip(), "new": new.strip()}
    rc, o = sh("cargo build --offline --lib -j 6 2>&1 | tail -3", cwd=wt, env=env)
    rcv, ov = sh('RUSTFLAGS="--cfg getong_stateright_verif" cargo check --offline --lib -j 6 2>&1 | tail -3', cwd=wt, env=dict(env, CARGO_TARGET_DIR=tgt + "-v"))
    if "error" in o or "error" in ov:
        rec["status"] = "does-not-compile"
    else:
        try:
            rc, o = sh("timeout 300 cargo test --lib --offline -j 6 2>&1 | grep -E '^test result|FAILED' | head -8", cwd=wt, env=env, timeout=600)
        except subprocess.TimeoutExpired:
            o = "timeout"
        if "84 passed; 3 failed" not in o:
            rec["status"] = "killed-by-existing-tests"
        else:
            done += 1
            res = {}
            for pid in file_props.get(f, [])[:4]:
                rc, o = sh(f"VERIF_REPO={wt} VERIF_ALT_TAG=-{tag} ./check {pid} --tier quick 2>&1 | grep -E '^(OK|VIOLATION)' | tail -1", cwd="/verif", timeout=3000)
                res[pid] = "VIOLATION" + (" no-failing-input-found" if "no-failing-input-found" in o else "") if "VIOLATION" in o else ("OK" if o.startswith("OK") else "??" + o[:80])
            rec["checks"] = res
            rec["status"] = "killed-by-checks" if any(v.startswith("VIOLATION") for v in res.values()) else "SURVIVED"
    log.write(json.dumps(rec) + "\n"); log.flush()
    sh("git checkout -q -- .", cwd=wt)
sh(f"git -C /repo worktree remove --force {wt}"); sh(f"rm -rf {tgt} {tgt}-v /verif/.work/harness-alt-{tag}")
log.write(json.dumps({"done": done, "tries": tries}) + "\n")
