#!/usr/bin/env python3
"""
refactor_run.py <tag> <n> [--props C01,C02]   — confirm a HARMLESS change delivered by a refactoring sub-agent
(/tmp/rf-<tag>-out/<n>/{patch.diff,meta.json}) and run the quick checks against it: they must all stay quiet.
The change is applied to a scratch worktree of /repo's HEAD; the lib suite must be unchanged (84 passed, 3 failed) and the
crate must build with the hooks on; then every property anchored in a touched file (plus --props) is checked with
VERIF_REPO=<worktree>.  The change and the verdicts are kept in /verif/harmless/<tag>-<n>/.   (DESIGN §13e)
"""
import sys, os, json, subprocess, shutil
tag, n = sys.argv[1], sys.argv[2]
extra = sys.argv[sys.argv.index("--props") + 1].split(",") if "--props" in sys.argv else []
src = f"/tmp/rf-{tag}-out/{n}"
def sh(cmd, cwd=None, env=None, timeout=3600):
    p = subprocess.run(cmd, shell=True, cwd=cwd, env=env, stdout=subprocess.PIPE, stderr=subprocess.STDOUT, timeout=timeout)
    return p.returncode, p.stdout.decode("utf-8", "replace")
wt = f"/tmp/rfv-{tag}-{n}"; tgt = wt + "-target"
sh(f"git -C /repo worktree remove --force {wt}")
rc, o = sh(f"git -C /repo worktree add -q --detach {wt} HEAD")
env = dict(os.environ, CARGO_NET_OFFLINE="true", CARGO_TARGET_DIR=tgt)
res = {"applies": False}
try:
    rc, o = sh(f"git apply {src}/patch.diff", cwd=wt)
    if rc != 0: raise SystemExit(f"{tag}-{n}: patch does not apply: {o[:200]}")
    res["applies"] = True
    rc, files = sh("git diff --name-only", cwd=wt); files = files.split()
    rc, o = sh("timeout 900 cargo test --lib --offline -j 6 2>&1 | grep -E '^test result' | head -3", cwd=wt, env=env, timeout=1200)
    res["suite"] = o.strip()
    rcv, ov = sh('RUSTFLAGS="--cfg getong_stateright_verif" cargo check --offline --lib -j 6 2>&1 | tail -3', cwd=wt, env=dict(env, CARGO_TARGET_DIR=tgt + "-v"))
    res["hooks_build"] = "error" not in ov
    if "84 passed; 3 failed" not in o or not res["hooks_build"]:
        print(f"{tag}-{n}: NOT CONFIRMED suite={o.strip()} hooks_build={res['hooks_build']}"); raise SystemExit(1)
    props = [json.loads(l) for l in open("/verif/properties.jsonl")]
    pids = sorted({p["id"] for p in props for f in p["anchors"]["files"] if f in files} | set(extra))
    checks = {}
    for pid in pids:
        rc, o = sh(f"VERIF_REPO={wt} VERIF_ALT_TAG=-rf{tag} ./check {pid} --tier quick 2>&1 | grep -E '^(OK|VIOLATION)' | tail -1", cwd="/verif", timeout=3000)
        checks[pid] = o.strip()
        print(f"{tag}-{n} {pid}: {o.strip()}", flush=True)
    res["checks"] = checks
    res["quiet"] = all(v.startswith("OK") for v in checks.values())
    dst = f"/verif/harmless/{tag}-{n}"; os.makedirs(dst, exist_ok=True)
    shutil.copy(f"{src}/patch.diff", dst)
    meta = json.load(open(f"{src}/meta.json")) if os.path.exists(f"{src}/meta.json") else {}
    meta.update({"files_touched": files, "confirmed": {"suite": res["suite"], "hooks_build": True}, "checks_run_against_it": checks, "quiet": res["quiet"]})
    json.dump(meta, open(f"{dst}/meta.json", "w"), indent=1)
    print(f"{tag}-{n}: {'QUIET' if res['quiet'] else 'ALARM'}")
finally:
    sh(f"git -C /repo worktree remove --force {wt}"); sh(f"rm -rf {tgt} {tgt}-v")
