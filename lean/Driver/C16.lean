import SR.Drv.C16
def main : IO Unit := SR.Drv.runMain [SR.Drv.C16.handle]
