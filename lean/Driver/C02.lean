import SR.Drv.C02
def main : IO Unit := SR.Drv.runMain [SR.Drv.C02.handle]
