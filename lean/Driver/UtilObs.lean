import SR.Drv.UtilObs
def main : IO Unit := SR.Drv.runMain [SR.Drv.UtilObs.handle]
