import SR.Drv.C07
def main : IO Unit := SR.Drv.runMain [SR.Drv.C07.handle]
