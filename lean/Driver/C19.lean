import SR.Drv.C19
def main : IO Unit := SR.Drv.runMain [SR.Drv.C19.handle]
