import SR.Drv.C05
def main : IO Unit := SR.Drv.runMain [SR.Drv.C05.handle]
