import SR.Drv.C05
import SR.Drv.Full
def main : IO Unit := SR.Drv.runMain [SR.Drv.C05.handle, SR.Drv.Full.handle]
