import SR.Drv.C12
import SR.Drv.Chk
def main : IO Unit := SR.Drv.runMain [SR.Drv.C12.handle, SR.Drv.Chk.handle]
