import SR.Drv.C12
def main : IO Unit := SR.Drv.runMain [SR.Drv.C12.handle]
