import SR.Drv.Obs
def main : IO Unit := SR.Drv.runMain [SR.Drv.Obs.handle]
