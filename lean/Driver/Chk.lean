import SR.Drv.Chk
def main : IO Unit := SR.Drv.runMain [SR.Drv.Chk.handle]
