import SR.Drv.SimTrace
def main : IO Unit := SR.Drv.runMain [SR.Drv.SimTrace.handle]
