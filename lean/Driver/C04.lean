import SR.Drv.C04
def main : IO Unit := SR.Drv.runMain [SR.Drv.C04.handle]
