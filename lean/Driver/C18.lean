import SR.Drv.C18
def main : IO Unit := SR.Drv.runMain [SR.Drv.C18.handle]
