import SR.Drv.C13
def main : IO Unit := SR.Drv.runMain [SR.Drv.C13.handle]
