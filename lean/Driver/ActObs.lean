import SR.Drv.ActObs
def main : IO Unit := SR.Drv.runMain [SR.Drv.ActObs.handle]
