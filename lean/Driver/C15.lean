import SR.Drv.C15
def main : IO Unit := SR.Drv.runMain [SR.Drv.C15.handle]
