import SR.Drv.C06
def main : IO Unit := SR.Drv.runMain [SR.Drv.C06.handle]
