import SR.Drv.C01
def main : IO Unit := SR.Drv.runMain [SR.Drv.C01.handle]
