import SR.Drv.C20
def main : IO Unit := SR.Drv.runMain [SR.Drv.C20.handle]
