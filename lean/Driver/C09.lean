import SR.Drv.C09
def main : IO Unit := SR.Drv.runMain [SR.Drv.C09.handle]
