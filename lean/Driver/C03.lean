import SR.Drv.C03
def main : IO Unit := SR.Drv.runMain [SR.Drv.C03.handle]
