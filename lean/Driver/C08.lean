import SR.Drv.C08
def main : IO Unit := SR.Drv.runMain [SR.Drv.C08.handle]
