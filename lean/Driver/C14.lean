import SR.Drv.C14
def main : IO Unit := SR.Drv.runMain [SR.Drv.C14.handle]
