import SR.Drv.C10
def main : IO Unit := SR.Drv.runMain [SR.Drv.C10.handle]
