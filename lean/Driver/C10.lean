import SR.Drv.C10
import SR.Drv.C20
import SR.Drv.Chk
def main : IO Unit := SR.Drv.runMain [SR.Drv.C10.handle, SR.Drv.C20.handle, SR.Drv.Chk.handle]
