import SR.Drv.C10
import SR.Drv.C20
def main : IO Unit := SR.Drv.runMain [SR.Drv.C10.handle, SR.Drv.C20.handle]
