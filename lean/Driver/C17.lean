import SR.Drv.C17
def main : IO Unit := SR.Drv.runMain [SR.Drv.C17.handle]
