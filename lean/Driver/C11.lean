import SR.Drv.C11
def main : IO Unit := SR.Drv.runMain [SR.Drv.C11.handle]
