import SR.Basic
/-
The Path API (src/checker/path.rs), the Explorer's two views (src/checker/explorer.rs `states`,
`status` / `get_properties`) and `reconstruct_path` (src/checker/on_demand.rs, same in bfs.rs),
over an abstract model `Sys σ α` and a fingerprint function `key : σ → Nat`.

A `Path` is the code's `Vec<(State, Option<Action>)>`; `none` results stand for the code's panics
(`from_fingerprints`) or `None`s (`from_actions`, `final_state`), as noted at each definition.
None of these functions looks at the boundary.
-/
namespace SR.PathApi
open SR

variable {σ α : Type}

abbrev Path (σ α : Type) := List (σ × Option α)

/-- `Model::next_steps`: (action, successor) for the actions that are not ignored, in action order -/
def nextSteps (M : Sys σ α) (s : σ) : List (α × σ) :=
  (M.acts s).filterMap fun a => (M.next s a).map fun t => (a, t)

/-- the `while let Some(next_fp) = fingerprints.pop_front()` loop of `from_fingerprints` -/
def fromFpsAux (M : Sys σ α) (key : σ → Nat) (last : σ) : List Nat → Option (Path σ α)
  | [] => some [(last, none)]
  | fp :: rest =>
    match (nextSteps M last).find? (fun p => key p.2 == fp) with
    | none => none                                   -- panic: no subsequent state has the fingerprint
    | some (a, s') => (fromFpsAux M key s' rest).map fun p => (last, some a) :: p

/-- `Path::from_fingerprints`; `none` = panic -/
def fromFingerprints (M : Sys σ α) (key : σ → Nat) : List Nat → Option (Path σ α)
  | [] => none                                       -- panic "empty path is invalid"
  | fp :: rest =>
    match M.init.find? (fun s => key s == fp) with
    | none => none                                   -- panic: no init state has the fingerprint
    | some s => fromFpsAux M key s rest

def fromActionsAux [DecidableEq α] (M : Sys σ α) (prev : σ) : List α → Option (Path σ α)
  | [] => some [(prev, none)]
  | a :: rest =>
    match (nextSteps M prev).find? (fun p => p.1 == a) with
    | none => none
    | some (a', s') => (fromActionsAux M s' rest).map fun p => (prev, some a') :: p

/-- `Path::from_actions`; `none` = `None` -/
def fromActions [DecidableEq σ] [DecidableEq α] (M : Sys σ α) (s0 : σ) (acts : List α) : Option (Path σ α) :=
  if s0 ∈ M.init then fromActionsAux M s0 acts else none

def finalStateAux (M : Sys σ α) (key : σ → Nat) (s : σ) : List Nat → Option σ
  | [] => some s
  | fp :: rest =>
    match (M.succAll s).find? (fun t => key t == fp) with
    | none => none
    | some t => finalStateAux M key t rest

/-- `Path::final_state`; `none` = `None` -/
def finalState (M : Sys σ α) (key : σ → Nat) : List Nat → Option σ
  | [] => none
  | fp :: rest =>
    match M.init.find? (fun s => key s == fp) with
    | none => none
    | some s => finalStateAux M key s rest

/-- `Path::encode`, before joining with `/` -/
def encode (key : σ → Nat) (p : Path σ α) : List Nat := p.map fun e => key e.1

/-- decimal fingerprints joined by `/` (characters of `format!("{}", fp)` ... `.join("/")`) -/
def encodeChars : List Nat → List Char
  | [] => []
  | [a] => Nat.toDigits 10 a
  | a :: b :: r => Nat.toDigits 10 a ++ '/' :: encodeChars (b :: r)

/-- `Path::encode` -/
def encodeStr (key : σ → Nat) (p : Path σ α) : String := String.ofList (encodeChars (encode key p))

def intoStates (p : Path σ α) : List σ := p.map (·.1)
def intoActions (p : Path σ α) : List α := p.filterMap (·.2)
/-- `Path::last_state` (the code unwraps: a `Path` is never empty) -/
def lastState (p : Path σ α) : Option σ := p.getLast?.map (·.1)

/-- an execution starting in `s`: every step is an action of the state it leaves, not ignored, and
leads to the next state; only the last entry has no action -/
inductive ExecFrom (M : Sys σ α) : σ → Path σ α → Prop
  | last (s : σ) : ExecFrom M s [(s, none)]
  | step {s t : σ} {a : α} {rest : Path σ α} :
      a ∈ M.acts s → M.next s a = some t → ExecFrom M t rest → ExecFrom M s ((s, some a) :: rest)

/-- an execution of the model (from any initial state; boundaries play no role in path.rs) -/
def IsExec (M : Sys σ α) (p : Path σ α) : Prop := ∃ s, s ∈ M.init ∧ ExecFrom M s p

/-! ### Explorer: `GET /.states<path>` -/

/-- `str::parse::<NonZeroU64>()`: optional `+`, at least one ASCII digit, value in `1 ..= u64::MAX` -/
def parseFp (cs : List Char) : Option Nat :=
  let ds := match cs with
    | '+' :: r => r
    | _ => cs
  if ds.isEmpty || !ds.all (fun c => '0' ≤ c && c ≤ '9') then none
  else
    let v := ds.foldl (fun acc c => acc * 10 + (c.toNat - 48)) 0
    if v = 0 || v ≥ 18446744073709551616 then none else some v

/-- `str::split('/')` -/
def splitSlash : List Char → List (List Char)
  | [] => [[]]
  | c :: r =>
    match splitSlash r with
    | [] => [[]]
    | seg :: segs => if c = '/' then [] :: seg :: segs else (c :: seg) :: segs

/-- the fingerprint extraction of `states()`: one trailing `/` is dropped, the rest is split at `/`,
the pieces that parse are kept, and the request is refused unless exactly one piece (the empty one
in front of the first `/`) failed to parse -/
def parseFpsChars (cs : List Char) : Option (List Nat) :=
  let p := if cs.getLast? = some '/' then cs.dropLast else cs
  let segs := splitSlash p
  let fps := segs.filterMap parseFp
  if fps.length + 1 != segs.length then none else some fps

def parseFps (path : String) : Option (List Nat) := parseFpsChars path.toList

/-- one element of the JSON answer -/
inductive Row (σ α : Type) where
  | init (s : σ)                         -- no action: an initial state
  | step (a : α) (next : Option σ)       -- an action of the final state; `none` = ignored
deriving DecidableEq, Repr

def rowsAt (M : Sys σ α) (s : σ) : List (Row σ α) := (M.acts s).map fun a => Row.step a (M.next s a)

/-- `states(path, ..)`; `none` = `Err` = HTTP 404 -/
def statesView (M : Sys σ α) (key : σ → Nat) (path : String) : Option (List (Row σ α)) :=
  match parseFps path with
  | none => none                                     -- "Unable to parse fingerprints"
  | some [] => some (M.init.map Row.init)
  | some fps =>
    match finalState M key fps with
    | none => none                                   -- "Unable to find state following fingerprints"
    | some s => some (rowsAt M s)

/-- the fingerprints the `states()` call hands to `check_fingerprint`, in order -/
def statesRequests (M : Sys σ α) (key : σ → Nat) (path : String) : List Nat :=
  match statesView M key path with
  | none => []
  | some rows => rows.filterMap fun r => match r with
    | .init s => some (key s)
    | .step _ (some t) => some (key t)
    | .step _ none => none

/-! ### `reconstruct_path` and `GET /.status` -/

/-- the `generated` map: fingerprint ↦ parent fingerprint (`none` for initial states) -/
abbrev Gen := List (Nat × Option Nat)

def Gen.get (g : Gen) (fp : Nat) : Option (Option Nat) := (g.find? (fun e => e.1 == fp)).map (·.2)

/-- the `while let Some(source) = generated.get(&next_fp)` loop (fuel: the map cannot be cyclic in
the code, the model stops after `fuel` lookups) -/
def walkBack (g : Gen) : Nat → Nat → List Nat → List Nat
  | 0, _, acc => acc
  | fuel + 1, fp, acc =>
    match g.get fp with
    | none => acc
    | some (some prev) => walkBack g fuel prev (fp :: acc)
    | some none => fp :: acc

/-- `reconstruct_path`; `none` = `from_fingerprints` panics -/
def reconstructPath (M : Sys σ α) (key : σ → Nat) (g : Gen) (fp : Nat) : Option (Path σ α) :=
  fromFingerprints M key (walkBack g (g.length + 1) fp [])

/-- a `generated` map together with, for each entry, the state path along its parent pointers, built
the way the checkers build it: an initial state not yet in the map, or a successor (not yet in the
map) of the last state of an entry's path, pointing to that entry. Newest entry first. -/
inductive GenOK (M : Sys σ α) (key : σ → Nat) : List ((Nat × Option Nat) × List σ) → Prop
  | nil : GenOK M key []
  | root {gp : List ((Nat × Option Nat) × List σ)} {s : σ} :
      GenOK M key gp → s ∈ M.init → Gen.get (gp.map (·.1)) (key s) = none →
      GenOK M key (((key s, none), [s]) :: gp)
  | child {gp : List ((Nat × Option Nat) × List σ)} {par : Option Nat} {path : List σ} {s t : σ} :
      GenOK M key gp → ((key s, par), path) ∈ gp → path.getLast? = some s → t ∈ M.succAll s →
      Gen.get (gp.map (·.1)) (key t) = none →
      GenOK M key (((key t, some (key s)), path ++ [t]) :: gp)

/-- what the Explorer reads from the checker -/
structure Snapshot where
  done : Bool
  stateCount : Nat
  unique : Nat
  maxDepth : Nat
  gen : Gen
  /-- `discoveries`: property index ↦ fingerprint -/
  disc : List (Nat × Nat)

structure StatusView where
  done : Bool
  stateCount : Nat
  unique : Nat
  maxDepth : Nat
  /-- (expectation, property index, encoded discovery path) -/
  props : List (Expect × Nat × Option (List Nat))
deriving DecidableEq, Repr

/-- `get_properties`: for every property, in order, the encoded reconstructed path of its discovery.
A discovery whose path cannot be rebuilt panics in the code; here it yields `some []`. -/
def propsView (M : Sys σ α) (key : σ → Nat) (exps : List Expect) (snap : Snapshot) :
    List (Expect × Nat × Option (List Nat)) :=
  exps.zipIdx.map fun (e, i) =>
    (e, i, ((snap.disc.find? (fun d => d.1 == i)).map fun d =>
      match reconstructPath M key snap.gen d.2 with
      | some p => encode key p
      | none => []))

/-- `status()` without the model name and the `recent_path` snapshot -/
def statusView (M : Sys σ α) (key : σ → Nat) (exps : List Expect) (snap : Snapshot) : StatusView :=
  { done := snap.done, stateCount := snap.stateCount, unique := snap.unique, maxDepth := snap.maxDepth,
    props := propsView M key exps snap }

end SR.PathApi
