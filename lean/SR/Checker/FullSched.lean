import SR.Checker.Full
/-!
A deterministic scheduler for the concurrent checker of `Checker/Full.lean`: round-robin over the workers, each doing the
next thing the worker loop of bfs.rs would do (continue with the current job; else take the job at the back of the own
deque; else share work when a colleague waits; else `pop`; leave when the market is closed).  It only PRODUCES step lists
(for the non-vacuity examples and for experiments); no theorem depends on it — the theorems quantify over all step lists.
-/
namespace SR.Full
open SR SR.Checker SR.Market

section
variable {σ κ α : Type} [DecidableEq κ] (P : Params σ κ α)

/-- the parked workers that `notify_one` may wake, in index order -/
def parkedFalse (m : MState) : List Nat :=
  (List.range m.pcs.length).filter fun v => m.pcs[v]? == some (Pc.parked false)

/-- what worker `w` does next -/
def nextOf (x : FState σ κ) (w : Nat) : Option FStep :=
  match x.m.pcs[w]? with
  | some .running =>
    if w ∈ x.aw then
      match x.c.active[x.aw.idxOf w]? with
      | some a =>
        match a.phase with
        | .props i _ => if i < P.props.length then some (.evalProp w false) else some (.finishProps w)
        | .expanding _ => some (.expand w true x.m.created.length false)
        | .recording _ => some (.record w)
      | none => none
    else
      let loc := locOf x.m w
      if loc = [] then
        if x.m.isOpen then some (.pop w) else some (.exit w)
      else if !x.m.isOpen then some (.exit w)
      else
        -- share: `split_and_push` publishes min(idle, len) pieces (none if they would be empty), one `notify_one` each
        let pieces := min (x.m.threadCount - x.m.openCount) loc.length
        let nonEmpty := if loc.length / (1 + pieces) = 0 then 0 else pieces
        if loc.length > 1 ∧ parkedFalse x.m ≠ [] ∧ nonEmpty > 0 then
          some (.split w ((parkedFalse x.m).take nonEmpty))
        else some (.take w (loc.length - 1))
  | some (.parked true) => some (.wake w)
  | _ => none

/-- round-robin: the first worker at or after `start` that can do something -/
def pickFrom (x : FState σ κ) (k start : Nat) : Option (Nat × FStep) :=
  ((List.range k).map fun i => (start + i) % k).findSome? fun w => (nextOf P x w).map fun f => (w, f)

def fsched (k : Nat) : Nat → Nat → FState σ κ → List FStep
  | 0, _, _ => []
  | fuel + 1, start, x =>
    match pickFrom P x k start with
    | none => []
    | some (w, f) =>
      match fstep P x f with
      | none => []
      | some (x', _, _) => f :: fsched k fuel ((w + 1) % k) x'

end
end SR.Full
