import SR.Checker.Assert
/-!
# `Checker::report` / `Checker::join_and_report` with `WriteReporter` (src/checker.rs, src/report.rs)

Once the checker is done both methods do the same thing:

* `reporter.report_checking(ReportData { total_states, unique_states, max_depth, duration, done: true })`
  — `WriteReporter` writes `Done. states=S, unique=U, depth=D, sec=…`;
* `for (name, path) in self.discoveries() { discoveries.insert(name, ReportDiscovery { path, classification:
  self.discovery_classification(name) }) }` into a `BTreeMap<&'static str, _>`, then `report_discoveries`:
  for each entry IN KEY (= NAME) ORDER
  `Discovered "name" <classification> <Display of the path>Fingerprint path: <path.encode()>`.

So the text is a function of (counts, discoveries, property list).  `discoveries()` is a `HashMap`: its iteration order
is arbitrary, the model takes the discoveries as a list in SOME order (`C03_report_order_independent`: the order does
not matter).  Properties are addressed by their index in `Model::properties()` as everywhere in this development;
`names[i]` is the name of property `i` (the names are distinct).  `none` = `discovery_classification` panics (a
discovery for a name that is not a property: impossible for a real checker).

The seconds are canonicalised to `_` by the harness; fingerprints are shown through `key` (the harness maps the
fingerprints back to state numbers, `key = id`).
-/
namespace SR.Checker.Report
open SR SR.PathApi SR.Checker.Assert

variable {σ : Type}

/-- `state_count()`, `unique_state_count()`, `max_depth()` -/
structure Counts where
  states : Nat
  unique : Nat
  depth : Nat
deriving DecidableEq, Repr

/-- one value of the `BTreeMap<&'static str, ReportDiscovery<M>>`, with its key -/
structure Entry (σ : Type) where
  name : String
  cls : Classification
  path : Path σ Nat

/-- `BTreeMap::insert` on the map read as its ascending list of entries (an equal key is replaced) -/
def btInsert (e : Entry σ) : List (Entry σ) → List (Entry σ)
  | [] => [e]
  | x :: xs =>
    if e.name < x.name then e :: x :: xs
    else if e.name = x.name then e :: xs
    else x :: btInsert e xs

/-- the entry of one discovery: `ReportDiscovery { path, classification: self.discovery_classification(name) }` under its
    name; `none` = panic -/
def entryOf (names : List String) (props : List (Prop' σ)) (d : Nat × Path σ Nat) : Option (Entry σ) :=
  match names[d.1]?, classification props d.1 with
  | some n, some c => some { name := n, cls := c, path := d.2 }
  | _, _ => none

/-- one iteration of `for (name, path) in self.discoveries()`; `none` = panic -/
def addDiscovery (names : List String) (props : List (Prop' σ)) (acc : List (Entry σ)) (d : Nat × Path σ Nat) :
    Option (List (Entry σ)) :=
  (entryOf names props d).map fun e => btInsert e acc

/-- the discovery summary handed to `report_discoveries`, in the order it is iterated -/
def entries (names : List String) (props : List (Prop' σ)) (disc : List (Nat × Path σ Nat)) : Option (List (Entry σ)) :=
  disc.foldlM (addDiscovery names props) []

def clsStr : Classification → String
  | .example => "example"
  | .counterexample => "counterexample"

/-- `Done. states={}, unique={}, depth={}, sec={}` -/
def doneLine (c : Counts) : String :=
  s!"Done. states={c.states}, unique={c.unique}, depth={c.depth}, sec=_"

/-- the lines `- {:?}` of `Display for Path` (actions are numbers) -/
def actionLines (p : Path σ Nat) : List String := (intoActions p).map fun a => s!"- {a}"

/-- `Discovered "{}" {} {}` + `Fingerprint path: {}`: the header line ends with the first line of the path's `Display`
    (`Path[{}]:` with `len - 1`), then one line per action, then the encoded path -/
def entryLines (key : σ → Nat) (e : Entry σ) : List String :=
  s!"Discovered \"{e.name}\" {clsStr e.cls} Path[{e.path.length - 1}]:" ::
    (actionLines e.path ++ [s!"Fingerprint path: {encodeStr key e.path}"])

/-- everything written once the checker is done; `none` = panic -/
def reportLines (key : σ → Nat) (names : List String) (props : List (Prop' σ)) (c : Counts)
    (disc : List (Nat × Path σ Nat)) : Option (List String) :=
  (entries names props disc).map fun es => doneLine c :: es.flatMap (entryLines key)

/-- the lines joined the way the harness canonicalises the text -/
def reportText (key : σ → Nat) (names : List String) (props : List (Prop' σ)) (c : Counts)
    (disc : List (Nat × Path σ Nat)) : String :=
  match reportLines key names props c disc with
  | none => "panic"
  | some ls => "|".intercalate ls

/-- `discoveries()`: every stored fingerprint path rebuilt with `Path::from_fingerprints`; `none` = one of them panics -/
def rebuild (M : Sys σ Nat) (key : σ → Nat) (disc : List (Nat × List Nat)) : Option (List (Nat × Path σ Nat)) :=
  disc.mapM fun d => (fromFingerprints M key d.2).map fun p => (d.1, p)

end SR.Checker.Report
