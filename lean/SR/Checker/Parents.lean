import SR.Checker.Machine
import SR.Checker.PathApi
/-!
# The parent map of bfs.rs / on_demand.rs, run alongside the checker machine

The real checkers do not carry a path in each job: they keep
`generated : DashMap<Fingerprint, Option<Fingerprint>>` (state fingerprint ↦ parent fingerprint, `None` for the
initial states) and rebuild a path on demand (`reconstruct_path`, `SR.PathApi.reconstructPath`).  An entry is
written ONLY by an insert-if-vacant: the initial states in `spawn_*`, a successor in `check_block`
(`if let Entry::Vacant(e) = generated.entry(next_fp) { e.insert(Some(state_fp)); … }`).

The machine (`SR/Checker/Machine.lean`) keeps only the key list `gen` and lets every job carry its path.  Here the
parent map is a *ghost component run in lock-step with the machine* (`runP`): the machine itself is untouched
(`C03_parents_project`), and `SR/Props/C03Parents.lean` proves that `reconstructPath` on this map returns exactly
the path the machine carries, for every choice list.  κ := Nat (fingerprints).
-/
namespace SR.Checker
open SR SR.PathApi

section
variable {σ α : Type}

/-- `spawn_*`: insert-if-absent of `(key s, none)` for the (in-boundary) initial states, in the order of
    `genInit` (the code's `generated.insert(fp, None)` can only overwrite `None` by `None`) -/
def parentsInit (key : σ → Nat) : List σ → Gen → Gen
  | [], g => g
  | s :: ss, g => parentsInit key ss (if (Gen.get g (key s)).isSome then g else g ++ [(key s, none)])

/-- The parent-map effect of one machine step taken in state `s`: only an `expand` of a worker whose next
    successor `t` has a vacant key writes `key t ↦ some (key parent)`; everything else leaves the map alone. -/
def stepParents (P : Params σ Nat α) (c : Choice) (s : St σ Nat) (g : Gen) : Gen :=
  match c with
  | .expand w _ =>
    match s.active[w]? with
    | some { job := j, phase := .expanding (t :: _) } =>
      if P.key t ∈ s.gen then g else g ++ [(P.key t, some (P.key j.st))]
    | _ => g
  | _ => g

/-- machine and parent map, in lock-step -/
def runPFrom (P : Params σ Nat α) (sg : St σ Nat × Gen) (cs : List Choice) : St σ Nat × Gen :=
  cs.foldl (fun sg c => (step P c sg.1, stepParents P c sg.1 sg.2)) sg

def runP (P : Params σ Nat α) (cs : List Choice) : St σ Nat × Gen :=
  runPFrom P (init P.M P.props P.key, parentsInit P.key P.M.initB []) cs

/-! ### The WRONG variant, for `C03_parents_overwrite_breaks`: an unconditional `generated.insert(fp, Some(parent))`
(the last parent wins) instead of the insert-if-vacant. -/

/-- `DashMap::insert`: replace the entry of `k` -/
def Gen.put (g : Gen) (k : Nat) (v : Option Nat) : Gen := g.filter (fun e => e.1 != k) ++ [(k, v)]

def stepParentsOverwrite (P : Params σ Nat α) (c : Choice) (s : St σ Nat) (g : Gen) : Gen :=
  match c with
  | .expand w _ =>
    match s.active[w]? with
    | some { job := j, phase := .expanding (t :: _) } => Gen.put g (P.key t) (some (P.key j.st))
    | _ => g
  | _ => g

def runPOverwrite (P : Params σ Nat α) (cs : List Choice) : St σ Nat × Gen :=
  cs.foldl (fun sg c => (step P c sg.1, stepParentsOverwrite P c sg.1 sg.2))
    (init P.M P.props P.key, parentsInit P.key P.M.initB [])

end
end SR.Checker
