import SR.Checker.Sim
/-!
# The MULTI-THREADED simulation checker (simulation.rs) as one machine

`Checker/Sim.lean` models ONE worker exactly (a fold over the chooser's answers) and sees the colleagues through an
oracle.  This file is the event-level machine of the WHOLE run: `k` workers, the shared `discoveries` map (later insert
wins), the shared `state_count`, the shared shutdown flag.  Granularity = one operation on shared state (one read of
`discoveries.contains_key`, one `discoveries.insert`, one `state_count.fetch_add`, one read of the flag); everything a
worker does in between touches only its own trace.  All nondeterminism — how the workers interleave, what the chooser
answers, when the timeout fires, where model code panics — is in the explicit step list, so a theorem proved for every
step list holds for every schedule, chooser and seed.  A step that is not enabled yields `none` (`runFrom` skips it).

Correspondence with the code (the trace hooks `TR_SIM_*` of src/verif.rs log exactly these events):
* `start w s`      `check_trace_from_initial`: the chooser picks the initial state `s`; fresh path, seen-set, ebits.
* `enter w`        top of `'outer`, after the shutdown test: depth-limit test (`return`), boundary test (`return`: only the
                   initial state can fail it), push to the path, seen-test under `key` (the representative's fingerprint
                   under symmetry; seen ⇒ "loop found" ⇒ the recording loop), else `state_count += 1` (+ visitor).
* `evalProp w i`   iteration `i` of the property loop, the READ `discoveries.contains_key` of the SHARED map: present ⇒ the
                   bit `i` is dropped, next property; absent ⇒ the worker goes on to evaluate (`applyProp`).  The code
                   reads and later inserts non-atomically: other workers' steps may come in between.
* `applyProp w i`  the rest of iteration `i`: evaluate the condition; always/sometimes witness ⇒ `discoveries.insert`
                   (no second read), else `is_awaiting_discoveries = true` (eventually: drop the bit if satisfied).
* `finishProps w`  after the loop: nothing awaited ⇒ `return` (nothing recorded) else go on to choose a successor.
* `advance w t`    the inner choice loop as a whole: `some t` = it ended with the in-boundary successor `t` of a non-ignored
                   action (ignored actions and out-of-boundary successors are skipped alike); `none` = no action left,
                   enabled iff there is no in-boundary successor: `break 'outer` ⇒ the recording loop.
* `recordOne w i`  iteration `i` of the trailing loop `if ebits.contains(i) { discoveries.insert }`; `endTrace w` its end.
* `cut w`          the shutdown flag is seen at the top of `'outer`: `return`, nothing recorded.
* `cont w` / `leave w why`  the worker loop after a trace (`finish_when` / `target_state_count` / next trace) and before one
                   (`shutdown` seen ⇒ `break`).
* `timeout`        the timeout thread raises the flag; `panic w`: model code panics in worker `w` (anywhere): the thread is
                   gone, `ShutdownOnPanic` raises the flag.
Not modelled: `max_depth` (a relaxed compare-exchange that can lose updates), the visitor, chooser state and seeds.
-/
namespace SR.Checker.MSim
open SR SR.Checker

/-- where a worker is inside `check_trace_from_initial` -/
inductive Ph where
  /-- top of `'outer`: `cur` is not yet on the path -/
  | top
  /-- property loop, about to read `contains_key` for property `i` -/
  | props (i : Nat)
  /-- property `i` was read as undiscovered; about to evaluate it -/
  | decide (i : Nat)
  /-- something is awaited: the inner choice loop -/
  | choose
  /-- the trailing recording loop at index `i` -/
  | record (i : Nat)
deriving DecidableEq, Repr

/-- the trace a worker has in progress -/
structure Tr (σ κ : Type) where
  /-- `state` -/
  cur : σ
  /-- `fingerprint_path` -/
  path : List σ
  /-- `generated`: keys seen in this trace -/
  seen : List κ
  ebits : List Nat
  /-- `is_awaiting_discoveries` -/
  awaiting : Bool
  ph : Ph

inductive WSt (σ κ : Type) where
  /-- top of the worker loop (about to test the shutdown flag and start a trace) -/
  | idle
  | busy (t : Tr σ κ)
  /-- `check_trace_from_initial` has returned; about to test `finish_when` / the target -/
  | ended
  /-- the thread is gone -/
  | left

structure St (σ κ : Type) where
  /-- the shared `discoveries` map: property index ↦ path, a later insert replaces an earlier one -/
  disc : List (Nat × List σ)
  /-- the shared `state_count` -/
  stateCount : Nat
  /-- the shared shutdown flag -/
  shutdown : Bool
  ws : List (WSt σ κ)

inductive Why where
  | finish | target | shutdown
deriving DecidableEq, Repr

inductive Step (σ : Type) where
  | start (w : Nat) (s : σ)
  | enter (w : Nat)
  | evalProp (w i : Nat)
  | applyProp (w i : Nat)
  | finishProps (w : Nat)
  | advance (w : Nat) (t : Option σ)
  | recordOne (w i : Nat)
  | endTrace (w : Nat)
  | cut (w : Nat)
  | cont (w : Nat)
  | leave (w : Nat) (why : Why)
  | timeout
  | panic (w : Nat)
deriving Repr

def Step.worker {σ : Type} : Step σ → Nat
  | .start w _ | .enter w | .evalProp w _ | .applyProp w _ | .finishProps w | .advance w _ | .recordOne w _
  | .endTrace w | .cut w | .cont w | .leave w _ | .panic w => w
  | .timeout => 0

/-- what a step of a worker inside a trace does to the shared state -/
structure Eff (σ κ : Type) where
  w' : WSt σ κ
  /-- `discoveries.insert` -/
  ins : Option (Nat × List σ) := none
  /-- `state_count.fetch_add(1)` -/
  cnt : Bool := false

section
variable {σ κ α : Type} [DecidableEq σ] [DecidableEq κ] (P : Params σ κ α)

/-- the four ways through the top of `'outer` -/
inductive EnterOut where
  | depth | outside | loop | counted
deriving DecidableEq, Repr

def enterOut (t : Tr σ κ) : EnterOut :=
  if Sim.depthHit P t.path.length then .depth
  else if !P.M.inB t.cur then .outside
  else if P.key t.cur ∈ t.seen then .loop
  else .counted

/-- a step of a worker that is inside a trace; `sd` = the shutdown flag, `d` = the shared map as it is NOW -/
def busyStep (f : Step σ) (sd : Bool) (d : List (Nat × List σ)) (t : Tr σ κ) : Option (Eff σ κ) :=
  match f, t.ph with
  | .enter _, .top =>
    match enterOut P t with
    | .depth => some { w' := .ended }
    | .outside => some { w' := .ended }
    | .loop => some { w' := .busy { t with path := t.path ++ [t.cur], ph := .record 0 } }
    | .counted =>
      some { w' := .busy { t with path := t.path ++ [t.cur], seen := P.key t.cur :: t.seen, awaiting := false,
                                  ph := .props 0 },
             cnt := true }
  | .evalProp _ i, .props j =>
    if i = j ∧ i < P.props.length then
      if hasDisc d i then some { w' := .busy { t with ebits := t.ebits.filter (· != i), ph := .props (i + 1) } }
      else some { w' := .busy { t with ph := .decide i } }
    else none
  | .applyProp _ i, .decide j =>
    if i = j then
      match P.props[i]? with
      | none => none
      | some p =>
        match p.exp with
        | .always =>
          if !p.cond t.cur then some { w' := .busy { t with ph := .props (i + 1) }, ins := some (i, t.path) }
          else some { w' := .busy { t with awaiting := true, ph := .props (i + 1) } }
        | .sometimes =>
          if p.cond t.cur then some { w' := .busy { t with ph := .props (i + 1) }, ins := some (i, t.path) }
          else some { w' := .busy { t with awaiting := true, ph := .props (i + 1) } }
        | .eventually =>
          some { w' := .busy { t with awaiting := true,
                                      ebits := if p.cond t.cur then t.ebits.filter (· != i) else t.ebits,
                                      ph := .props (i + 1) } }
    else none
  | .finishProps _, .props j =>
    if j < P.props.length then none
    else if !t.awaiting then some { w' := .ended }
    else some { w' := .busy { t with ph := .choose } }
  | .advance _ (some n), .choose =>
    if n ∈ P.M.succB t.cur then some { w' := .busy { t with cur := n, ph := .top } } else none
  | .advance _ none, .choose =>
    if (P.M.succB t.cur).isEmpty then some { w' := .busy { t with ph := .record 0 } } else none
  | .recordOne _ i, .record j =>
    if i = j ∧ i < P.props.length then
      some { w' := .busy { t with ph := .record (i + 1) }, ins := if i ∈ t.ebits then some (i, t.path) else none }
    else none
  | .endTrace _, .record j => if j < P.props.length then none else some { w' := .ended }
  | .cut _, .top => if sd then some { w' := .ended } else none
  | _, _ => none

def applyEff (s : St σ κ) (w : Nat) (e : Eff σ κ) : St σ κ :=
  { s with ws := s.ws.set w e.w'
           disc := match e.ins with
             | some (i, p) => discInsert s.disc i p
             | none => s.disc
           stateCount := if e.cnt then s.stateCount + 1 else s.stateCount }

/-- the effect of `f` if it is a step of a worker that is inside a trace -/
def effOf (f : Step σ) (s : St σ κ) : Option (Eff σ κ) :=
  match s.ws[f.worker]? with
  | some (.busy t) => busyStep P f s.shutdown s.disc t
  | _ => none

/-- `finish_when` does not match and the target is not reached -/
def goesOn (s : St σ κ) : Bool := !P.finishMatches (discNames s.disc) && !Sim.targetHit P s.stateCount

def newTrace (x : σ) : Tr σ κ :=
  { cur := x, path := [], seen := [], ebits := initEbits P.props, awaiting := false, ph := .top }

/-- a step of a worker inside a trace (`effOf`), else one of the worker-loop / environment steps -/
def step (f : Step σ) (s : St σ κ) : Option (St σ κ) :=
  match effOf P f s with
  | some e => some (applyEff s f.worker e)
  | none =>
    match f with
    | .start w x =>
      match s.ws[w]? with
      | some .idle => if x ∈ P.M.init then some { s with ws := s.ws.set w (.busy (newTrace P x)) } else none
      | _ => none
    | .cont w =>
      match s.ws[w]? with
      | some .ended => if goesOn P s then some { s with ws := s.ws.set w .idle } else none
      | _ => none
    | .leave w .finish =>
      match s.ws[w]? with
      | some .ended => if P.finishMatches (discNames s.disc) then some { s with ws := s.ws.set w .left } else none
      | _ => none
    | .leave w .target =>
      match s.ws[w]? with
      | some .ended =>
        if !P.finishMatches (discNames s.disc) && Sim.targetHit P s.stateCount then some { s with ws := s.ws.set w .left }
        else none
      | _ => none
    | .leave w .shutdown =>
      match s.ws[w]? with
      | some .idle => if s.shutdown then some { s with ws := s.ws.set w .left } else none
      | _ => none
    | .timeout => if P.cfg.timeout then some { s with shutdown := true } else none
    | .panic w =>
      match s.ws[w]? with
      | some .left => none
      | some _ => some { s with shutdown := true, ws := s.ws.set w .left }
      | none => none
    | _ => none

/-- after `spawn`: `k` workers at the top of their loop -/
def init (k : Nat) : St σ κ := { disc := [], stateCount := 0, shutdown := false, ws := List.replicate k .idle }

/-- a run; steps that are not enabled are skipped -/
def runFrom (s : St σ κ) : List (Step σ) → St σ κ
  | [] => s
  | f :: fs =>
    match step P f s with
    | none => runFrom s fs
    | some s' => runFrom s' fs

def run (k : Nat) (fs : List (Step σ)) : St σ κ := runFrom P (init k) fs

/-- `f` increments `state_count` in state `s`: it is an `enter` step of a worker at the top of `'outer` that passes the
    depth, boundary and seen tests (`counts_iff`) -/
def counts (f : Step σ) (s : St σ κ) : Bool :=
  match effOf P f s with
  | some e => e.cnt
  | none => false

/-- the number of counting `enter` steps of a run -/
def counted (s : St σ κ) : List (Step σ) → Nat
  | [] => 0
  | f :: fs =>
    match step P f s with
    | none => counted s fs
    | some s' => (if counts P f s then 1 else 0) + counted s' fs

/-- `join` has returned -/
def allLeft (s : St σ κ) : Bool := s.ws.all fun | .left => true | _ => false

end
end SR.Checker.MSim
