import SR.Checker.Machine
import SR.Market.Machine
/-!
# The concurrent checker: worker threads × job market × checker machine

`Checker/Machine.lean` keeps all pending jobs in ONE list (`frontier`) and lets a choice list decide who takes which
job.  The code keeps them in `thread_count` local deques and the shared batches of the job market
(`src/job_market.rs`, `Market/Machine.lean`), a worker can only take a job from its OWN deque, and jobs travel between
deques through `pop` / `split_and_push`.  This file is the product of the two models, synchronised where the code
synchronises them, at the granularity of both: one `FStep` = one critical section of the market or one atomic section
of `check_block` (`src/checker/{bfs,dfs,on_demand}.rs` worker loops):

* `pop w`            worker `w`, its deque empty, calls `job_broker.pop()` (up to its return or its first wait)
* `wake w`           return from the condition variable
* `split w picks`    `job_broker.split_and_push(&mut pending)`; in a closed market this CLEARS the deque
* `take w p`         `pending.pop_back()` / `pop()` / `drain(..)`: the job at position `p` of the own deque (any `p`:
                     every queue discipline) becomes the worker's current job: machine `take`
* `discard w p`      a job of the own deque is dropped unevaluated — only once the machine has stopped or every property
                     has a discovery (on_demand.rs drops the jobs a block had drained then)
* `evalProp`, `finishProps`, `record`   machine steps on the worker's current job
* `expand w front tok back`  one successor: machine `expand`; if the state is new the job (token `tok`) is pushed on
                     the OWN deque (`back`: at which end)
* `stop w why`       the worker leaves its loop for a stop reason (`finish_when`, `target_state_count`, a panic in model
                     code): machine `stop why`; `Drop for JobBroker` closes the market, clears the shared batches; the
                     worker's deque dies with its thread
* `exit w`           the worker leaves because `pop()` returned nothing or `is_shut_down()`: the market is closed already
* `timeout`          the timeout thread closes the market: machine `stop .timeout`
* `xdrop`            any other clone of the broker is dropped (checker object, the timeout thread's clone)

Ghost components: `ft` lists, position by position, the market token of every job in the machine's `frontier`; `aw`
lists the worker of every entry of the machine's `active` list.

`fstep` returns, besides the new state, the market steps and the machine choices it performed, so that a run of the
product PROJECTS onto a run of the market (`mrun`) and onto a run of the machine (`run`) — `SR/Proofs/Checker/Full.lean`
proves the projections, the coupling invariant (tokens physically present = pending jobs of the machine; the market
discards jobs only after the machine has stopped) and: all workers gone ⇒ the machine is quiescent.

Over-approximations (the product allows MORE than the code, the theorems quantify over all of it): stop conditions may be
noticed at any moment (the code looks once per 1500-job block), a worker may share work at any moment at which it has no
current job, `take` may pick any position.  Not represented: `spawn_*` on a model without initial states (an empty
batch is pushed and the first worker to pop it returns while the market is open; there is nothing to check then).
-/
namespace SR.Full
open SR SR.Checker SR.Market

structure FState (σ κ : Type) where
  m : MState
  c : St σ κ
  /-- ghost: the token of each entry of `c.frontier` -/
  ft : List Tok
  /-- ghost: the worker of each entry of `c.active` -/
  aw : List Nat

inductive FStep where
  | pop (w : Nat)
  | wake (w : Nat)
  | split (w : Nat) (picks : List Nat)
  | take (w p : Nat)
  | discard (w p : Nat)
  | evalProp (w : Nat) (stale : Bool)
  | finishProps (w : Nat)
  | expand (w : Nat) (front : Bool) (tok : Tok) (back : Bool)
  | record (w : Nat)
  | stop (w : Nat) (why : Why)
  | exit (w : Nat)
  | timeout
  | xdrop
deriving Repr

def locOf (m : MState) (w : Nat) : List Tok := m.locs.getD w []

/-- the market discards the jobs `ts`: the machine drops them, one `dropJob` each -/
def dropToks : List Tok → List Tok → List Choice × List Tok
  | [], ft => ([], ft)
  | t :: ts, ft =>
    let r := dropToks ts (ft.erase t)
    (Choice.dropJob (ft.idxOf t) :: r.1, r.2)

/-- market steps in sequence; all must be enabled -/
def mseq (m : MState) : List Step → Option MState
  | [] => some m
  | s :: ss => (Market.step m s).bind (mseq · ss)

section
variable {σ κ α : Type} [DecidableEq κ] (P : Params σ κ α)

/-- a machine step on the current job of worker `w` -/
def onJob (x : FState σ κ) (w : Nat) (mk : Nat → Choice) : Option (FState σ κ × List Step × List Choice) :=
  if w ∈ x.aw then
    let i := x.aw.idxOf w
    let c' := Checker.step P (mk i) x.c
    some ({ x with c := c', aw := if c'.active.length < x.c.active.length then x.aw.eraseIdx i else x.aw },
          [], [mk i])
  else none

/-- one step of the concurrent checker: new state, market steps performed, machine choices performed;
    `none` = not enabled -/
def fstep (x : FState σ κ) : FStep → Option (FState σ κ × List Step × List Choice)
  | .pop w =>
    if locOf x.m w = [] ∧ w ∉ x.aw then
      (Market.step x.m (.popBegin w)).map fun m' => ({ x with m := m' }, [.popBegin w], [])
    else none
  | .wake w => (Market.step x.m (.wake w)).map fun m' => ({ x with m := m' }, [.wake w], [])
  | .split w picks =>
    if w ∉ x.aw then
      (Market.step x.m (.split w picks)).map fun m' =>
        let gone := if x.m.isOpen then [] else locOf x.m w
        let r := dropToks gone x.ft
        ({ m := m', c := runFrom P x.c r.1, ft := r.2, aw := x.aw }, [.split w picks], r.1)
    else none
  | .take w p =>
    match (locOf x.m w)[p]? with
    | none => none
    | some t =>
      if w ∈ x.aw then none
      else
        let ms := [Step.rearrange w ((locOf x.m w).eraseIdx p ++ [t]), Step.work w 1 []]
        (mseq x.m ms).map fun m' =>
          let c' := Checker.step P (.take (x.ft.idxOf t)) x.c
          ({ m := m', c := c', ft := x.ft.erase t,
             aw := if c'.active.length = x.c.active.length + 1 then x.aw ++ [w] else x.aw },
           ms, [.take (x.ft.idxOf t)])
  | .discard w p =>
    match (locOf x.m w)[p]? with
    | none => none
    | some t =>
      if x.c.stopped || allDiscovered P x.c then
        let ms := [Step.rearrange w ((locOf x.m w).eraseIdx p ++ [t]), Step.work w 1 []]
        (mseq x.m ms).map fun m' =>
          ({ m := m', c := Checker.step P (.dropJob (x.ft.idxOf t)) x.c, ft := x.ft.erase t, aw := x.aw },
           ms, [.dropJob (x.ft.idxOf t)])
      else none
  | .evalProp w b => onJob P x w (fun i => .evalProp i b)
  | .finishProps w => onJob P x w (fun i => .finishProps i)
  | .record w => onJob P x w (fun i => .record i)
  | .expand w front tok back =>
    if w ∈ x.aw then
      let i := x.aw.idxOf w
      let c' := Checker.step P (.expand i front) x.c
      let aw' := if c'.active.length < x.c.active.length then x.aw.eraseIdx i else x.aw
      if c'.frontier.length = x.c.frontier.length + 1 then
        let ms := Step.work w 0 [tok] :: (if back then [Step.rearrange w (locOf x.m w ++ [tok])] else [])
        (mseq x.m ms).map fun m' =>
          ({ m := m', c := c', ft := if front then tok :: x.ft else x.ft ++ [tok], aw := aw' },
           ms, [.expand i front])
      else some ({ x with c := c', aw := aw' }, [], [.expand i front])
    else none
  | .stop w why =>
    if stopEnabled P why x.c then
      (Market.step x.m (.drop w)).map fun m' =>
        let pre : List Choice := Choice.stop why :: (if w ∈ x.aw then [Choice.abandon (x.aw.idxOf w)] else [])
        let r := dropToks (x.m.batches.flatten ++ locOf x.m w) x.ft
        ({ m := m', c := runFrom P x.c (pre ++ r.1), ft := r.2, aw := x.aw.erase w }, [.drop w], pre ++ r.1)
    else none
  | .exit w =>
    if x.m.isOpen = false ∧ w ∉ x.aw then
      (Market.step x.m (.drop w)).map fun m' =>
        let r := dropToks (x.m.batches.flatten ++ locOf x.m w) x.ft
        ({ m := m', c := runFrom P x.c r.1, ft := r.2, aw := x.aw }, [.drop w], r.1)
    else none
  | .timeout =>
    if P.cfg.timeout then
      (Market.step x.m .timeoutFire).map fun m' =>
        ({ x with m := m', c := Checker.step P (.stop .timeout) x.c }, [.timeoutFire], [.stop .timeout])
    else none
  | .xdrop =>
    (Market.step x.m .xdrop).map fun m' =>
      let pre : List Choice := if x.m.isOpen then [Choice.stop .panic] else []
      let r := dropToks x.m.batches.flatten x.ft
      ({ m := m', c := runFrom P x.c (pre ++ r.1), ft := r.2, aw := x.aw }, [.xdrop], pre ++ r.1)

/-- after `spawn_*`: `k` workers, a market for `k` threads holding ONE batch with the jobs of the in-boundary
    initial states; the machine in its initial state -/
def finit (k : Nat) : FState σ κ :=
  let n := (init P.M P.props P.key).frontier.length
  { m := ((Market.step (Market.init k k) (.xpush (List.range n) [])).getD (Market.init k k))
    c := init P.M P.props P.key
    -- the machine's frontier lists the initial jobs LAST FIRST (the deque is read from its pop end): the job at the
    -- back of the batch is entry 0 of the frontier
    ft := (List.range n).reverse
    aw := [] }

/-- a run; steps that are not enabled are skipped.  Result: state, market trace, machine trace -/
def frunFrom (x : FState σ κ) : List FStep → FState σ κ × List Step × List Choice
  | [] => (x, [], [])
  | f :: fs =>
    match fstep P x f with
    | none => frunFrom x fs
    | some (x', ms, cs) =>
      let r := frunFrom x' fs
      (r.1, ms ++ r.2.1, cs ++ r.2.2)

def frun (k : Nat) (fs : List FStep) : FState σ κ × List Step × List Choice := frunFrom P (finit P k) fs

/-- `join()` has returned: every worker thread is gone -/
def allExited (x : FState σ κ) : Prop := ∀ p ∈ x.m.pcs, p = Pc.exited

end
end SR.Full
