import SR.Checker.Graph
/-!
Executable specification side for explicit graphs: reachability closure, path validity, witnesses,
maximal paths avoiding a condition (lassos), BFS distance.  These are what the oracles run on the
IMPLEMENTATION's outputs; `SR/Proofs/Spec*.lean` relates them to the declarative definitions of `SR.Basic`.
-/
namespace SR.Checker
open SR

namespace Graph
variable (g : Graph)

def succB (s : Nat) : List Nat := g.toSys.succB s
def initB : List Nat := g.toSys.initB

/-- one round of the closure: add all in-boundary successors of known states -/
def closeStep (known : List Nat) : List Nat :=
  known.foldl (fun acc s => (g.succB s).foldl (fun acc t => if t ∈ acc then acc else acc ++ [t]) acc) known

def closeN : Nat → List Nat → List Nat
  | 0, k => k
  | n + 1, k => closeN n (g.closeStep k)

/-- reachable in-boundary states (n rounds suffice for n states) -/
def reachList : List Nat := g.closeN g.n (g.initB.eraseDups)

def chainB : List Nat → Bool
  | [] => true
  | [_] => true
  | s :: t :: rest => (g.succB s).contains t && chainB (t :: rest)

/-- decidable `IsPath` -/
def isPathB (p : List Nat) : Bool :=
  match p with
  | [] => false
  | s :: _ => g.initB.contains s && g.chainB p

/-- BFS layers: `layers k` = states at distance exactly k (first n+1 layers) -/
def distOf (s : Nat) : Option Nat :=
  let rec go (fuel : Nat) (d : Nat) (seen layer : List Nat) : Option Nat :=
    match fuel with
    | 0 => none
    | fuel + 1 =>
      if layer.contains s then some d
      else if layer.isEmpty then none
      else
        let next := (layer.flatMap g.succB).eraseDups.filter (fun t => !seen.contains t)
        go fuel (d + 1) (seen ++ next) next
  go (g.n + 2) 0 g.initB.eraseDups g.initB.eraseDups

/-- does some maximal in-boundary path from an initial state avoid `c` forever?  (`c` = truth table)
    A maximal path either ends in a state without in-boundary successor or loops forever; in a finite graph
    it exists iff, inside the subgraph of reachable-through-avoiding states, some state is terminal or lies on
    /reaches a cycle — i.e. iff the set of avoiding states reachable through avoiding states is non-empty
    (every such state either is terminal in the FULL graph, or has an in-boundary successor; if all its
    successors satisfy `c` the path cannot be extended avoiding `c`).  Computed exactly by a greatest fixpoint:
    `good` = avoiding states from which an avoiding maximal path exists. -/
def avoidReach (c : Nat → Bool) : List Nat :=
  let sub : Graph := { g with bnd := (List.range g.n).map fun s => g.bnd.getD s false && !c s }
  sub.reachList

def canAvoidForever (c : Nat → Bool) : Bool :=
  -- states reachable through avoiding states only
  let av := g.avoidReach c
  -- greatest fixpoint: keep s if terminal in g, or some successor (in-boundary, avoiding) is kept
  let rec gfp (fuel : Nat) (keep : List Nat) : List Nat :=
    match fuel with
    | 0 => keep
    | fuel + 1 =>
      let keep' := keep.filter fun s => (g.succB s).isEmpty || (g.succB s).any (fun t => !c t && keep.contains t)
      if keep'.length == keep.length then keep else gfp fuel keep'
  let good := gfp (g.n + 1) av
  (g.initB.filter (fun s => !c s)).any good.contains

/-- every reachable state has exactly one in-boundary path (as a state sequence) from an initial state:
    distinct initial states without predecessors, every other reachable state with exactly one predecessor state -/
def isForest : Bool :=
  let r := g.reachList
  g.initB.eraseDups.length == g.initB.length &&
  r.all fun t =>
    let preds := (r.filter fun s => (g.succB s).contains t).length
    if g.initB.contains t then preds == 0 else preds == 1

end Graph
end SR.Checker
