import SR.Checker.Machine
/-!
# The simulation checker (simulation.rs), single worker

A trace is a deterministic function of the model, the configuration and the chooser's answers; the chooser is
modelled by the list of its answers (`answers`, each reduced modulo the number of options, as a scripted
`Chooser` does), so theorems quantified over all answer lists hold for every chooser and seed.
Transcribes `check_trace_from_initial` of the repaired code: out-of-boundary successors are skipped like ignored
actions, an out-of-boundary initial state and "everything discovered" `return` without recording.
-/
namespace SR.Checker.Sim
open SR SR.Checker

/-- state shared by all traces of a run -/
structure G (σ : Type) where
  disc : List (Nat × List σ) := []
  stateCount : Nat := 0
  maxDepth : Nat := 0
  visits : List (List σ) := []

/-- `Vec::swap_remove(i)`; `none` = index out of range (the real call panics) -/
def swapRemove {β : Type} (l : List β) (i : Nat) : Option (β × List β) :=
  match l[i]? with
  | none => none
  | some x => some (x, (l.set i (l.getLast?.getD x)).dropLast)

/-- next answer of the chooser for `n` options -/
def nextAnswer (ans : List Nat) (n : Nat) : Nat × List Nat :=
  match ans with
  | [] => (0, [])
  | a :: r => (a % n, r)

section
variable {σ κ α : Type} [DecidableEq κ]

/-- one iteration of the property loop.  `o i` = "a colleague has inserted a discovery for property `i` in the meantime"
    (multi-threaded runs share the discoveries map; single-threaded: always `false`): the worker's read of
    `discoveries.contains_key` is its own inserts OR the others'. -/
def propStep (props : List (Prop' σ)) (st : σ) (path : List σ) (o : Nat → Bool)
    (acc : List Nat × Bool × List (Nat × List σ)) (i : Nat) : List Nat × Bool × List (Nat × List σ) :=
  match props[i]? with
  | none => acc
  | some p =>
    if hasDisc acc.2.2 i || o i then (acc.1.erase i, acc.2.1, acc.2.2)
    else
      match p.exp with
      | .always => if !p.cond st then (acc.1, acc.2.1, discInsert acc.2.2 i path) else (acc.1, true, acc.2.2)
      | .sometimes => if p.cond st then (acc.1, acc.2.1, discInsert acc.2.2 i path) else (acc.1, true, acc.2.2)
      | .eventually => (if p.cond st then acc.1.erase i else acc.1, true, acc.2.2)

def propLoop (props : List (Prop' σ)) (st : σ) (path : List σ) (eb : List Nat) (d : List (Nat × List σ))
    (o : Nat → Bool := fun _ => false) : List Nat × Bool × List (Nat × List σ) :=
  (List.range props.length).foldl (propStep props st path o) (eb, false, d)

/-- the inner loop: repeatedly choose among the remaining actions until one yields an in-boundary successor;
    `none` = no action left (the state is terminal) -/
def pickNext (M : Sys σ α) (st : σ) : Nat → List α → List Nat → Option σ × List Nat
  | 0, _, ans => (none, ans)
  | _ + 1, [], ans => (none, ans)
  | f + 1, acts, ans =>
    let (k, ans') := nextAnswer ans acts.length
    match swapRemove acts k with
    | none => (none, ans')
    | some (a, acts') =>
      match M.next st a with
      | none => pickNext M st f acts' ans'
      | some n => if M.inB n then (some n, ans') else pickNext M st f acts' ans'

/-- the trailing loop that records the unsatisfied eventually properties after a `break` -/
def recordAll (props : List (Prop' σ)) (eb : List Nat) (path : List σ) (d : List (Nat × List σ)) :
    List (Nat × List σ) :=
  (List.range props.length).foldl (fun d i => if i ∈ eb then discInsert d i path else d) d

variable (P : Params σ κ α)

/-- `fingerprint_path.len() >= target_max_depth` -/
def depthHit (n : Nat) : Bool :=
  match P.cfg.maxDepth with
  | some d => decide (n ≥ d)
  | none => false

/-- `target_state_count <= state_count` -/
def targetHit (count : Nat) : Bool :=
  match P.cfg.target with
  | some t => decide (t ≤ count)
  | none => false

/-- `'outer: loop` of `check_trace_from_initial`.  `orc depth i`: what the colleagues have discovered when the worker
    evaluates the state at that depth of this trace (see `propStep`). -/
def traceLoop (orc : Nat → Nat → Bool) : Nat → σ → List σ → List κ → List Nat → List Nat → G σ → G σ × List Nat
  | 0, _, _, _, _, ans, g => (g, ans)
  | f + 1, st, path, gen, eb, ans, g =>
    let g := { g with maxDepth := max g.maxDepth path.length }
    if depthHit P path.length then (g, ans)
    else if !P.M.inB st then (g, ans)
    else
      let path' := path ++ [st]
      if P.key st ∈ gen then ({ g with disc := recordAll P.props eb path' g.disc }, ans)
      else
        let g := { g with stateCount := g.stateCount + 1, visits := path' :: g.visits }
        let r := propLoop P.props st path' eb g.disc (orc path.length)
        let g := { g with disc := r.2.2 }
        if !r.2.1 then (g, ans)
        else
          match pickNext P.M st ((P.M.acts st).length + 1) (P.M.acts st) ans with
          | (none, ans') => ({ g with disc := recordAll P.props r.1 path' g.disc }, ans')
          | (some n, ans') => traceLoop orc f n path' (P.key st :: gen) r.1 ans' g

/-- one trace: choose an initial state, then run the loop -/
def trace (fuel : Nat) (ans : List Nat) (g : G σ) (orc : Nat → Nat → Bool := fun _ _ => false) : G σ × List Nat :=
  match P.M.init with
  | [] => (g, ans)
  | is =>
    let (k, ans') := nextAnswer ans is.length
    match is[k]? with
    | none => (g, ans')
    | some s => traceLoop P orc fuel s [] [] (initEbits P.props) ans' g

/-- the worker loop: traces until `finish_when` matches or the target state count is reached (or `n` traces) -/
def runTraces (fuel : Nat) : Nat → List Nat → G σ → G σ
  | 0, _, g => g
  | n + 1, ans, g =>
    let (g', ans') := trace P fuel ans g
    if P.finishMatches (discNames g'.disc) then g'
    else if targetHit P g'.stateCount then g'
    else runTraces fuel n ans' g'

/-- ONE WORKER OF A MULTI-THREADED RUN: trace after trace, trace `j` cut off after `fuels[j]` iterations (a shutdown is
    noticed at every step, so a trace can end anywhere), under the oracle `orc j` for what the colleagues discover.  No
    stop condition of its own: the real worker performs a prefix of this. `g.disc` = the worker's OWN inserts. -/
def tracesO (orc : Nat → Nat → Nat → Bool) : Nat → List Nat → List Nat → G σ → G σ
  | _, [], _, g => g
  | j, f :: fuels, ans, g =>
    let r := trace P f ans g (orc j)
    tracesO orc (j + 1) fuels r.2 r.1

end
end SR.Checker.Sim
