import SR.Checker.PathApi
/-!
The provided observation helpers of the `Checker` trait (src/checker.rs, default methods):
`discovery`, `discovery_classification`, `assert_any_discovery`, `assert_no_discovery`, `assert_properties`,
`assert_discovery` — as functions of what a checker exposes (`is_done()` and `discoveries()`).

A `View` is that exposure; properties are addressed by their index in `Model::properties()` (the code uses the
names, which are distinct).  `false` stands for "panics", `true` for "returns".
-/
namespace SR.Checker.Assert
open SR SR.PathApi

variable {σ α : Type}

/-- what the helpers read from a checker -/
structure View (σ α : Type) where
  /-- `is_done()` -/
  done : Bool
  /-- `discoveries()`: property index ↦ path -/
  disc : List (Nat × Path σ α)

/-- `discovery(name)` -/
def View.discovery (v : View σ α) (i : Nat) : Option (Path σ α) := (v.disc.find? (fun d => d.1 == i)).map (·.2)

inductive Classification | example | counterexample
deriving DecidableEq, Repr

/-- `discovery_classification(name)`; `none` = the `unwrap` on an unknown name panics -/
def classification (props : List (Prop' σ)) (i : Nat) : Option Classification :=
  match props[i]? with
  | none => none
  | some pr => match pr.exp with
    | .always => some .counterexample
    | .eventually => some .counterexample
    | .sometimes => some .example

/-- `assert_any_discovery(name)` returns (rather than panics) -/
def assertAnyOk (v : View σ α) (i : Nat) : Bool := (v.discovery i).isSome

/-- `assert_no_discovery(name)` returns: no discovery AND the check is done -/
def assertNoOk (v : View σ α) (i : Nat) : Bool := (v.discovery i).isNone && v.done

/-- `assert_properties()` returns: the loop over the properties as written -/
def assertPropertiesOk (props : List (Prop' σ)) (v : View σ α) : Bool :=
  (List.range props.length).all fun i =>
    match props[i]? with
    | some pr => (match pr.exp with
      | .always => assertNoOk v i
      | .eventually => assertNoOk v i
      | .sometimes => assertAnyOk v i)
    | none => true

/-- the test `assert_discovery` applies to the path obtained from one initial state -/
def acceptsPath (M : Sys σ α) (pr : Prop' σ) (p : Path σ α) : Bool :=
  match pr.exp with
  | .always => (match lastState p with | some s => !pr.cond s | none => false)
  | .sometimes => (match lastState p with | some s => pr.cond s | none => false)
  | .eventually =>
    !((intoStates p).any pr.cond) &&
    (match lastState p with | some s => (M.acts s).isEmpty | none => false)

/-- `assert_discovery(name, actions)` returns: a discovery exists, and from SOME initial state (all of
`init_states()`, in or out of the boundary) the actions denote a path that passes `acceptsPath`.
(An unknown name panics in `Model::property`; here `false`.) -/
def assertDiscoveryOk [DecidableEq α] (M : Sys σ α) (props : List (Prop' σ)) (v : View σ α) (i : Nat)
    (acts : List α) : Bool :=
  assertAnyOk v i &&
  match props[i]? with
  | none => false
  | some pr => M.init.any fun s0 =>
      match fromActionsAux M s0 acts with
      | none => false
      | some p => acceptsPath M pr p

end SR.Checker.Assert
