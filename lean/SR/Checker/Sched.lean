import SR.Checker.Machine
/-!
Single-threaded executables as *schedulers* over the machine: they only produce a `List Choice`; the
resulting state is `run cs`, so every theorem about `run` applies to them with no separate proof.
The scheduler transcribes the worker loop of bfs.rs / dfs.rs with `thread_count = 1`: blocks of at most
1500 jobs (`check_block`), a block ends early when everything is discovered, stop conditions are tested
between blocks.  on_demand.rs (after `run_to_completion`, one thread) visits in the same order as bfs.rs
as long as no more than 1500 jobs are pending at once (it drains ≤1500 jobs per block into a stack).
-/
namespace SR.Checker
open SR

inductive Discipline where
  | bfs | dfs
  /-- on_demand.rs after `run_to_completion`: FIFO like bfs, but a block is a snapshot of the jobs pending
      when it starts (≤ 1500 of them), and the very first block is empty (the stop conditions are tested
      once before any work is done) -/
  | ondemand
deriving DecidableEq, Repr

section
variable {σ κ α : Type} [DecidableEq κ]
variable (P : Params σ κ α)

def blockSize : Nat := 1500

/-- The next choices of the single worker and the remaining block budget; `none` = the worker returned. -/
def schedNext (d : Discipline) (s : St σ κ) (bl : Nat) : Option (List Choice × Nat) :=
  match s.active[0]? with
  | some a =>
    match a.phase with
    | .props i aw =>
      if i < P.props.length then some ([.evalProp 0 false], bl)
      else if !aw then                                  -- `return` from check_block
        some (.finishProps 0 :: (if d == .ondemand then List.replicate bl (.dropJob 0) else []), 0)
      else some ([.finishProps 0], bl)
    | .expanding _ => some ([.expand 0 (d == .dfs)], bl)
    | .recording _ => some ([.record 0], bl)
  | none =>
    if s.stopped then none
    else if bl = 0 then
      -- between blocks: finish_when, then target_state_count
      if stopEnabled P .finish s then
        some (.stop .finish :: List.replicate s.frontier.length (.dropJob 0), 0)
      else if stopEnabled P .target s then
        some (.stop .target :: List.replicate s.frontier.length (.dropJob 0), 0)
      else if s.frontier.isEmpty then none
      else some ([], if d == .ondemand then min blockSize s.frontier.length else blockSize)
    else if s.frontier.isEmpty then some ([], 0)
    else some ([.take 0], bl - 1)

def schedule (d : Discipline) : Nat → St σ κ → Nat → List Choice
  | 0, _, _ => []
  | fuel + 1, s, bl =>
    match schedNext P d s bl with
    | none => []
    | some (cs, bl') => cs ++ schedule d fuel (runFrom P s cs) bl'

/-- the complete single-threaded run -/
def runSingle (d : Discipline) (fuel : Nat) : St σ κ :=
  run P (schedule P d fuel (init P.M P.props P.key) (if d == .ondemand then 0 else blockSize))

end
end SR.Checker
