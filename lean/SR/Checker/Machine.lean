import SR.Basic
/-!
# The checker machine

One total, deterministic step function for `bfs.rs`, `dfs.rs` (with or without symmetry) and `on_demand.rs`
with any number of worker threads.  All nondeterminism — which job a worker pops, how workers interleave,
where a new job is queued, which racing read of the discoveries map is stale, when a stop reason is
noticed — is in the explicit `Choice` list, so a theorem proved for every choice list holds for every
schedule and queue discipline.  Granularity = the code's atomic sections: one operation on the shared
`generated` map, one operation on the shared `discoveries` map.

Correspondence with the code (`check_block` and the worker loop):
* `take i`        pop a job; `max_depth` bookkeeping; depth-limit test (`continue` = job dropped);
                  `visitor.visit`; the worker enters the property loop at property 0.
* `evalProp w b`  ONE iteration of `for (i, property) in properties.iter().enumerate()`.  The code reads
                  `discoveries.contains_key` and later inserts, non-atomically; the step is placed at the
                  insert and `b = true` says the earlier read returned a stale "absent".
* `finishProps w` after the loop: `if !is_awaiting_discoveries { return }` (the popped job is dropped,
                  unexpanded) else compute the in-boundary successors (`is_terminal` iff there are none).
* `expand w f`    one in-boundary successor: `state_count += 1`; insert-if-vacant into `generated` under
                  `key`; if vacant enqueue the job (front or back).  No successor left: the worker retires.
* `record w`      one iteration of the terminal-state loop `if ebits.contains(i) { discoveries.insert }`.
* `dropJob i`     (also, without a stop, when every property has a discovery: on_demand.rs drops the jobs a
                  block had drained when the block returns for that reason)
* `stop why`      a worker leaves its loop (finish_when / target_state_count / timeout / panic in model code):
                  the market closes.  `dropJob`, `abandon` (only once stopped): pending work is discarded.
-/
namespace SR.Checker
open SR

structure Cfg where
  /-- `target_max_depth` -/
  maxDepth : Option Nat := none
  /-- `target_state_count` -/
  target : Option Nat := none
  /-- a timeout is configured (it may then fire at any moment) -/
  timeout : Bool := false

structure Job (σ : Type) where
  st : σ
  /-- the path from an initial state to `st` (BFS/on-demand: what `reconstruct_path` yields; DFS: the
      fingerprint vector carried by the job) -/
  path : List σ
  ebits : List Nat
  depth : Nat

inductive Phase (σ : Type) where
  | props (i : Nat) (awaiting : Bool)
  | expanding (rest : List σ)
  | recording (i : Nat)

structure Active (σ : Type) where
  job : Job σ
  phase : Phase σ

structure St (σ κ : Type) where
  /-- keys in `generated` (insertion order) -/
  gen : List κ
  /-- all pending jobs, wherever they physically are (worker deques, market batches) -/
  frontier : List (Job σ)
  /-- workers between popping a job and finishing with it -/
  active : List (Active σ)
  /-- ghost: states whose evaluation and expansion completed -/
  done : List σ
  /-- `discoveries`: property index ↦ path; a later insert replaces an earlier one -/
  disc : List (Nat × List σ)
  stateCount : Nat
  maxDepth : Nat
  /-- ghost: the paths shown to the visitor, newest first -/
  visits : List (List σ)
  /-- ghost: some job was dropped unexpanded (depth limit, everything discovered, stop) -/
  early : Bool
  /-- some worker has left its loop (the market is closed) -/
  stopped : Bool

inductive Why where
  | finish | target | timeout | panic
deriving DecidableEq, Repr

inductive Choice where
  | take (i : Nat)
  | evalProp (w : Nat) (stale : Bool)
  | finishProps (w : Nat)
  | expand (w : Nat) (front : Bool)
  | record (w : Nat)
  | stop (why : Why)
  | dropJob (i : Nat)
  | abandon (w : Nat)
deriving Repr

section
variable {σ κ α : Type} [DecidableEq κ]

/-- `discoveries.insert(name, path)` -/
def discInsert (d : List (Nat × List σ)) (i : Nat) (p : List σ) : List (Nat × List σ) :=
  (i, p) :: d.filter (fun e => e.1 != i)

def hasDisc (d : List (Nat × List σ)) (i : Nat) : Bool := d.any (fun e => e.1 == i)

/-- the discovered property indices -/
def discNames (d : List (Nat × List σ)) : List Nat := d.map (·.1)

/-- indices of the eventually properties: the initial `ebits` -/
def initEbits (props : List (Prop' σ)) : List Nat :=
  (List.range props.length).filter fun i =>
    match props[i]? with
    | some p => p.exp == .eventually
    | none => false

/-- insert-if-absent of the initial states' keys -/
def genInit (key : σ → κ) : List σ → List κ → List κ
  | [], g => g
  | s :: ss, g => genInit key ss (if key s ∈ g then g else g ++ [key s])

/-- The state after `spawn_*` has set everything up: in-boundary initial states are generated and pending
    (the deque is read from its pop end: `pop_back` takes the LAST initial state first). -/
def init (M : Sys σ α) (props : List (Prop' σ)) (key : σ → κ) : St σ κ :=
  let is := M.initB
  { gen := genInit key is []
    frontier := is.reverse.map fun s => { st := s, path := [s], ebits := initEbits props, depth := 1 }
    active := []
    done := []
    disc := []
    stateCount := is.length
    maxDepth := 0
    visits := []
    early := false
    stopped := false }

structure Params (σ κ α : Type) where
  M : Sys σ α
  props : List (Prop' σ)
  key : σ → κ
  cfg : Cfg
  /-- `finish_when.matches(discovered names, properties)` -/
  finishMatches : List Nat → Bool

variable (P : Params σ κ α)

def stepTake (i : Nat) (s : St σ κ) : St σ κ :=
  match s.frontier[i]? with
  | none => s
  | some j =>
    let s := { s with frontier := s.frontier.eraseIdx i, maxDepth := max s.maxDepth j.depth }
    match P.cfg.maxDepth with
    | some d =>
      if j.depth ≥ d then { s with early := true }
      else { s with visits := j.path :: s.visits, active := s.active ++ [{ job := j, phase := .props 0 false }] }
    | none => { s with visits := j.path :: s.visits, active := s.active ++ [{ job := j, phase := .props 0 false }] }

def stepEvalProp (w : Nat) (stale : Bool) (s : St σ κ) : St σ κ :=
  match s.active[w]? with
  | some { job := j, phase := .props i awaiting } =>
    match P.props[i]? with
    | none => s
    | some p =>
      if hasDisc s.disc i && !stale then
        { s with active := s.active.set w { job := { j with ebits := j.ebits.erase i }, phase := .props (i+1) awaiting } }
      else
        match p.exp with
        | .always =>
          if !p.cond j.st then
            { s with disc := discInsert s.disc i j.path, active := s.active.set w { job := j, phase := .props (i+1) awaiting } }
          else { s with active := s.active.set w { job := j, phase := .props (i+1) true } }
        | .sometimes =>
          if p.cond j.st then
            { s with disc := discInsert s.disc i j.path, active := s.active.set w { job := j, phase := .props (i+1) awaiting } }
          else { s with active := s.active.set w { job := j, phase := .props (i+1) true } }
        | .eventually =>
          let j' := if p.cond j.st then { j with ebits := j.ebits.erase i } else j
          { s with active := s.active.set w { job := j', phase := .props (i+1) true } }
  | _ => s

def stepFinishProps (w : Nat) (s : St σ κ) : St σ κ :=
  match s.active[w]? with
  | some { job := j, phase := .props i awaiting } =>
    if i < P.props.length then s
    else if !awaiting then { s with active := s.active.eraseIdx w, early := true }
    else
      match P.M.succB j.st with
      | [] => { s with active := s.active.set w { job := j, phase := .recording 0 } }
      | ss => { s with active := s.active.set w { job := j, phase := .expanding ss } }
  | _ => s

def stepExpand (w : Nat) (front : Bool) (s : St σ κ) : St σ κ :=
  match s.active[w]? with
  | some { job := j, phase := .expanding rest } =>
    match rest with
    | [] => { s with active := s.active.eraseIdx w, done := j.st :: s.done }
    | t :: rest' =>
      let a' : Active σ := { job := j, phase := .expanding rest' }
      if P.key t ∈ s.gen then
        { s with stateCount := s.stateCount + 1, active := s.active.set w a' }
      else
        let child : Job σ := { st := t, path := j.path ++ [t], ebits := j.ebits, depth := j.depth + 1 }
        { s with stateCount := s.stateCount + 1, gen := s.gen ++ [P.key t],
                 frontier := if front then child :: s.frontier else s.frontier ++ [child],
                 active := s.active.set w a' }
  | _ => s

def stepRecord (w : Nat) (s : St σ κ) : St σ κ :=
  match s.active[w]? with
  | some { job := j, phase := .recording i } =>
    if i < P.props.length then
      let a' : Active σ := { job := j, phase := .recording (i+1) }
      if i ∈ j.ebits then { s with disc := discInsert s.disc i j.path, active := s.active.set w a' }
      else { s with active := s.active.set w a' }
    else { s with active := s.active.eraseIdx w, done := j.st :: s.done }
  | _ => s

/-- when a worker may leave its loop -/
def stopEnabled (why : Why) (s : St σ κ) : Bool :=
  match why with
  | .finish => P.finishMatches (discNames s.disc)
  | .target => match P.cfg.target with
    | some n => decide (n ≤ s.stateCount)
    | none => false
  | .timeout => P.cfg.timeout
  | .panic => true

def stepStop (why : Why) (s : St σ κ) : St σ κ :=
  if stopEnabled P why s then { s with stopped := true } else s

/-- every property has a discovery (`is_done`'s second disjunct) -/
def allDiscovered (s : St σ κ) : Bool := (List.range P.props.length).all (hasDisc s.disc)

/-- Pending work is discarded when the market has closed — or, in on_demand.rs only, when a block returns
    because everything is discovered: the jobs it had drained into its local stack are dropped with it. -/
def stepDropJob (i : Nat) (s : St σ κ) : St σ κ :=
  if s.stopped || allDiscovered P s then
    match s.frontier[i]? with
    | none => s
    | some _ => { s with frontier := s.frontier.eraseIdx i, early := true }
  else s

def stepAbandon (w : Nat) (s : St σ κ) : St σ κ :=
  if s.stopped then
    match s.active[w]? with
    | none => s
    | some _ => { s with active := s.active.eraseIdx w, early := true }
  else s

def step (c : Choice) (s : St σ κ) : St σ κ :=
  match c with
  | .take i => stepTake P i s
  | .evalProp w b => stepEvalProp P w b s
  | .finishProps w => stepFinishProps P w s
  | .expand w f => stepExpand P w f s
  | .record w => stepRecord P w s
  | .stop why => stepStop P why s
  | .dropJob i => stepDropJob P i s
  | .abandon w => stepAbandon w s

def runFrom (s : St σ κ) (cs : List Choice) : St σ κ := cs.foldl (fun s c => step P c s) s

def run (cs : List Choice) : St σ κ := runFrom P (init P.M P.props P.key) cs

/-- nothing pending, nobody working: `join` has returned -/
def Quiescent (s : St σ κ) : Prop := s.frontier = [] ∧ s.active = []

/-- the states shown to the visitor / evaluated, oldest first -/
def evaluated (s : St σ κ) : List σ := s.visits.reverse.filterMap List.getLast?

end
end SR.Checker
