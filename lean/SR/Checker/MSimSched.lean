import SR.Checker.MSim
/-!
# The schedule of the event machine that a chooser's answers induce (one worker, no `timeout` / `panic` / `cut`)

`Checker/Sim.lean` runs ONE worker of the simulation checker as a fold over the chooser's answers; `Checker/MSim.lean` is
the event machine of the whole run, driven by an explicit step list.  `stepsOfTrace` / `stepsOfRun` compute — executably,
from the same arguments as `Sim.trace` / `Sim.runTraces` — the step list of worker `w` that the answers induce: the
`start` / `advance` steps carry what the chooser chose, the `evalProp` / `applyProp` steps follow the reads of the
discoveries map, the `cont` / `leave` steps the worker loop.  `runStrict` runs a step list and fails (`none`) as soon as
a step is not enabled (whereas `runFrom` skips such steps).
`SR/Proofs/Checker/SimFuel.lean` proves that the machine accepts every step of these lists and ends with the `disc` and
`stateCount` of the single-worker model.
-/
namespace SR.Checker.MSim
open SR SR.Checker

deriving instance DecidableEq for Step

section
variable {σ κ α : Type} [DecidableEq σ] [DecidableEq κ] (P : Params σ κ α)

/-- run a step list; `none` as soon as a step is not enabled -/
def runStrict (s : St σ κ) : List (Step σ) → Option (St σ κ)
  | [] => some s
  | f :: fs =>
    match step P f s with
    | none => none
    | some s' => runStrict s' fs

/-- the trailing recording loop -/
def recSteps (w : Nat) : List (Step σ) :=
  (List.range P.props.length).map (Step.recordOne w) ++ [.endTrace w]

/-- the property loop over the indices `is`: one read of the shared map per property and, if the property was read
    as undiscovered, its evaluation.  `acc` = (ebits, awaiting, discoveries) as `Sim.propStep` threads them. -/
def propSteps (w : Nat) (st : σ) (path : List σ) :
    List Nat → List Nat × Bool × List (Nat × List σ) → List (Step σ)
  | [], _ => []
  | i :: is, acc =>
    (if hasDisc acc.2.2 i then [.evalProp w i] else [.evalProp w i, .applyProp w i]) ++
      propSteps w st path is (Sim.propStep P.props st path (fun _ => false) acc i)

/-- the steps of `'outer: loop`, same arguments and control flow as `Sim.traceLoop` (`d` = the discoveries) -/
def loopSteps (w : Nat) : Nat → σ → List σ → List κ → List Nat → List Nat → List (Nat × List σ) → List (Step σ)
  | 0, _, _, _, _, _, _ => []
  | f + 1, st, path, gen, eb, ans, d =>
    if Sim.depthHit P path.length then [.enter w]
    else if !P.M.inB st then [.enter w]
    else
      let path' := path ++ [st]
      if P.key st ∈ gen then .enter w :: recSteps P w
      else
        let r := Sim.propLoop P.props st path' eb d
        .enter w :: (propSteps P w st path' (List.range P.props.length) (eb, false, d) ++ .finishProps w ::
          (if !r.2.1 then []
           else
            match Sim.pickNext P.M st ((P.M.acts st).length + 1) (P.M.acts st) ans with
            | (none, _) => .advance w none :: recSteps P w
            | (some n, ans') => .advance w (some n) :: loopSteps w f n path' (P.key st :: gen) r.1 ans' r.2.2))

/-- the steps of one trace (`Sim.trace`): the chooser picks the initial state, then the loop -/
def stepsOfTrace (w : Nat) (fuel : Nat) (ans : List Nat) (d : List (Nat × List σ)) : List (Step σ) :=
  match P.M.init with
  | [] => []
  | is =>
    let (k, ans') := Sim.nextAnswer ans is.length
    match is[k]? with
    | none => []
    | some s => .start w s :: loopSteps P w fuel s [] [] (initEbits P.props) ans' d

/-- the steps of the worker loop (`Sim.runTraces`): trace, then `leave` (finish_when / target) or `cont` -/
def stepsOfRun (w : Nat) (fuel : Nat) : Nat → List Nat → Sim.G σ → List (Step σ)
  | 0, _, _ => []
  | n + 1, ans, g =>
    let r := Sim.trace P fuel ans g
    stepsOfTrace P w fuel ans g.disc ++
      (if P.finishMatches (discNames r.1.disc) then [.leave w .finish]
       else if Sim.targetHit P r.1.stateCount then [.leave w .target]
       else .cont w :: stepsOfRun w fuel n r.2 r.1)

end
end SR.Checker.MSim
