import SR.Basic
import SR.SExp
/-! Explicit finite models (the table-driven `GraphModel` of the harness) as `Sys Nat Nat`. -/
namespace SR.Checker
open SR

structure Graph where
  n : Nat
  init : List Nat
  /-- per state, per action: the successor or `none` (ignored action) -/
  adj : List (List (Option Nat))
  /-- boundary predicate per state -/
  bnd : List Bool
deriving Repr, Inhabited

def Graph.toSys (g : Graph) : Sys Nat Nat where
  init := g.init
  acts s := List.range ((g.adj.getD s []).length)
  next s a := ((g.adj.getD s []).getD a none)
  inB s := g.bnd.getD s false

/-- a property of an explicit graph: expectation + truth table of the condition -/
structure GProp where
  exp : Expect
  tbl : List Bool
deriving Repr, Inhabited

def GProp.toProp (p : GProp) : Prop' Nat := { exp := p.exp, cond := fun s => p.tbl.getD s false }

def Graph.ofSExp? : SExp → Option Graph
  | .list [n, init, adj, bnd] => do
    let n ← n.nat?
    let init ← init.nats?
    let adj ← adj.listOf? (SExp.listOf? (fun e => match e with
      | .atom "x" => some none
      | e => e.nat?.map some))
    let bnd ← bnd.listOf? SExp.bool?
    pure { n, init, adj, bnd }
  | _ => none

def GProp.ofSExp? : SExp → Option GProp
  | .list [.atom k, tbl] => do
    let exp ← match k with
      | "a" => some Expect.always
      | "s" => some Expect.sometimes
      | "e" => some Expect.eventually
      | _ => none
    let tbl ← tbl.listOf? SExp.bool?
    pure { exp, tbl }
  | _ => none

end SR.Checker
