import SR.Checker.Machine
/-! `is_done()` and `assert_properties()` of the `Checker` trait as functions of the machine state. -/
namespace SR.Checker
open SR

section
variable {σ κ α : Type} [DecidableEq κ] (P : Params σ κ α)

/-- `is_done()`: the market is closed (nothing pending, nobody working) or everything is discovered -/
def isDone (s : St σ κ) : Bool := (s.frontier.isEmpty && s.active.isEmpty) || allDiscovered P s

/-- `assert_properties()` does not panic: no discovery for any always/eventually property (and the check is
    done), a discovery for every sometimes property -/
def assertPropertiesOk (s : St σ κ) : Bool :=
  (List.range P.props.length).all fun i =>
    match P.props[i]? with
    | some pr => if pr.exp == .sometimes then hasDisc s.disc i else (!hasDisc s.disc i && isDone P s)
    | none => true

end
end SR.Checker
