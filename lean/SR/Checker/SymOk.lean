import SR.Checker.Spec
/-!
Executable precondition of the symmetry-reduction oracle `o-chk-sym` (Drv/Chk.lean): `rep` induces a simulation with
invariant conditions.  `symOk` decides the hypotheses `hsim`, `hinv` of `C10_verdicts` / `C10_one_per_class` for the relation
"same representative" (`C10_oracle_symOk_iff`, Props/OracleRest.lean).
-/
namespace SR.Checker
open SR

/-- the representative function of `chk-sym` / `o-chk-sym`: `rep` lists the representative of every state; a state beyond the
    list is its own representative -/
def symRep (rep : List Nat) : Nat → Nat := fun s => rep.getD s s

/-- every state whose class can contain another state is below this bound -/
def symBound (rep : List Nat) : Nat := max rep.length (rep.foldl max 0 + 1)

/-- successor classes are preserved and the condition tables are constant on classes.  Pairs of states `≥ symBound rep` need
    no test: such a state is alone in its class. -/
def symOk (g : Graph) (rep : List Nat) (conds : List (List Bool)) : Bool :=
  (List.range (symBound rep)).all fun a => (List.range (symBound rep)).all fun b =>
    symRep rep a != symRep rep b ||
    ((g.succB a).all (fun a' => (g.succB b).any (fun b' => symRep rep a' == symRep rep b')) &&
     conds.all (fun tbl => tbl.getD a false == tbl.getD b false))

end SR.Checker
