import SR.Drv.Loop
import SR.Sem.Objects
import SR.Sem.SeqCons
import SR.Sem.Brute
/-! Shared driver code of C08 / C14 / C18: object codecs (wire format ↔ model values, Rust `Debug`
rendering), the `lin-run` / `sc-run` model commands and the brute-force oracle commands. -/
namespace SR.Drv.Sem
open SR SR.Sem

/-- everything the driver needs to know about one reference object -/
structure Codec (S Op Ret : Type) where
  spec : SeqSpec S Op Ret
  s0 : S
  opOf? : SExp → Option Op
  retOf? : SExp → Option Ret
  showOp : Op → String
  showRet : Ret → String
  showObj : S → String
  opSx : Op → SExp
  retSx : Ret → SExp
  objSx : S → SExp

def showOptV (sv : Nat → String) : Option Nat → String
  | none => "None"
  | some v => s!"Some({sv v})"

def showListWith {α} (f : α → String) (l : List α) : String := "[" ++ ", ".intercalate (l.map f) ++ "]"

def charShow (n : Nat) : String := "'" ++ String.singleton (Char.ofNat n) ++ "'"

def regCodec (sv : Nat → String) (v0 : Nat) : Codec Nat (RegOp Nat) (RegRet Nat) where
  spec := register Nat
  s0 := v0
  opOf?
    | .list [.atom "w", v] => v.nat?.map RegOp.write
    | .atom "r" => some .read
    | _ => none
  retOf?
    | .atom "wok" => some .writeOk
    | .list [.atom "rok", v] => v.nat?.map RegRet.readOk
    | _ => none
  showOp | .write v => s!"Write({sv v})" | .read => "Read"
  showRet | .writeOk => "WriteOk" | .readOk v => s!"ReadOk({sv v})"
  showObj s := s!"Register({sv s})"
  opSx | .write v => .list [.atom "w", .ofNat v] | .read => .atom "r"
  retSx | .writeOk => .atom "wok" | .readOk v => .list [.atom "rok", .ofNat v]
  objSx s := .ofNat s

def woCodec (sv : Nat → String) (v0 : Option Nat) : Codec (Option Nat) (WOOp Nat) (WORet Nat) where
  spec := woRegister Nat
  s0 := v0
  opOf?
    | .list [.atom "w", v] => v.nat?.map WOOp.write
    | .atom "r" => some .read
    | _ => none
  retOf?
    | .atom "wok" => some .writeOk
    | .atom "wfail" => some .writeFail
    | .list [.atom "rok", v] => (SExp.optOf? SExp.nat? v).map WORet.readOk
    | _ => none
  showOp | .write v => s!"Write({sv v})" | .read => "Read"
  showRet | .writeOk => "WriteOk" | .writeFail => "WriteFail" | .readOk v => s!"ReadOk({showOptV sv v})"
  showObj s := s!"WORegister({showOptV sv s})"
  opSx | .write v => .list [.atom "w", .ofNat v] | .read => .atom "r"
  retSx | .writeOk => .atom "wok" | .writeFail => .atom "wfail" | .readOk v => .list [.atom "rok", SExp.ofOpt SExp.ofNat v]
  objSx s := SExp.ofOpt SExp.ofNat s

def vecCodec (l0 : List Nat) : Codec (List Nat) (VecOp Nat) (VecRet Nat) where
  spec := vec Nat
  s0 := l0
  opOf?
    | .list [.atom "push", v] => v.nat?.map VecOp.push
    | .atom "pop" => some .pop
    | .atom "len" => some .len
    | _ => none
  retOf?
    | .atom "pushok" => some .pushOk
    | .list [.atom "popok", v] => (SExp.optOf? SExp.nat? v).map VecRet.popOk
    | .list [.atom "lenok", n] => n.nat?.map VecRet.lenOk
    | _ => none
  showOp | .push v => s!"Push({v})" | .pop => "Pop" | .len => "Len"
  showRet | .pushOk => "PushOk" | .popOk v => s!"PopOk({showOptV toString v})" | .lenOk n => s!"LenOk({n})"
  showObj s := showListWith toString s
  opSx | .push v => .list [.atom "push", .ofNat v] | .pop => .atom "pop" | .len => .atom "len"
  retSx | .pushOk => .atom "pushok" | .popOk v => .list [.atom "popok", SExp.ofOpt SExp.ofNat v] | .lenOk n => .list [.atom "lenok", .ofNat n]
  objSx s := SExp.ofNats s

def tblCodec (tbl : Table) (mode s0 : Nat) : Codec Nat Nat Nat where
  spec := tableSpec tbl mode
  s0 := s0
  opOf? := SExp.nat?
  retOf? := SExp.nat?
  showOp := toString
  showRet := toString
  showObj s := s!"T{s}"
  opSx := SExp.ofNat
  retSx := SExp.ofNat
  objSx := SExp.ofNat

/-- decode an object description and continue with its codec -/
def withObj (obj : SExp)
    (k : {S Op Ret : Type} → [DecidableEq Op] → [DecidableEq Ret] → Codec S Op Ret → Option String) :
    Option String :=
  match obj with
  | .list [.atom "reg", v] => do let v ← v.nat?; k (regCodec toString v)
  | .list [.atom "regc", v] => do let v ← v.nat?; k (regCodec charShow v)
  | .list [.atom "wo", v] => do let v ← SExp.optOf? SExp.nat? v; k (woCodec toString v)
  | .list [.atom "woc", v] => do let v ← SExp.optOf? SExp.nat? v; k (woCodec charShow v)
  | .list [.atom "vec", l] => do let l ← l.nats?; k (vecCodec l)
  | .list [.atom "tbl", mode, s0, tbl] => do
    let mode ← mode.nat?; let s0 ← s0.nat?
    let tbl ← tbl.listOf? (SExp.listOf? (SExp.pairOf? SExp.nat? SExp.nat?))
    k (tblCodec tbl mode s0)
  | _ => none

/-- calls as the harness makes them: `(i t op)`, `(r t ret)`, `(ir t op ret)` = `on_invret` -/
inductive Call (Op Ret : Type) where
  | inv (t : Nat) (op : Op)
  | ret (t : Nat) (r : Ret)
  | invret (t : Nat) (op : Op) (r : Ret)

def callOf? {S Op Ret} (c : Codec S Op Ret) : SExp → Option (Call Op Ret)
  | .list [.atom "i", t, op] => do pure (.inv (← t.nat?) (← c.opOf? op))
  | .list [.atom "r", t, r] => do pure (.ret (← t.nat?) (← c.retOf? r))
  | .list [.atom "ir", t, op, r] => do pure (.invret (← t.nat?) (← c.opOf? op) (← c.retOf? r))
  | _ => none

/-- the plain event list of a call list (`on_invret` = invocation then return) -/
def eventsOf {Op Ret} : List (Call Op Ret) → List (Event Op Ret)
  | [] => []
  | .inv t op :: l => .inv t op :: eventsOf l
  | .ret t r :: l => .ret t r :: eventsOf l
  | .invret t op r :: l => .inv t op :: .ret t r :: eventsOf l

/-! ### Rust `Debug` rendering -/
def showMap {α} (tshow : Nat → String) (f : α → String) (m : List (Nat × α)) : String :=
  "{" ++ ", ".intercalate (m.map fun e => s!"{tshow e.1}: {f e.2}") ++ "}"

def showLC (tshow : Nat → String) (lc : LC) : String := showMap tshow toString lc

section
variable {S Op Ret : Type} (c : Codec S Op Ret) (tshow : Nat → String)

def showComplete (x : LC × Op × Ret) : String :=
  s!"({showLC tshow x.1}, {c.showOp x.2.1}, {c.showRet x.2.2})"
def showLinHist (h : List (Nat × List (LC × Op × Ret))) : String :=
  showMap tshow (showListWith (showComplete c tshow)) h
def showLin (T : Tester S Op Ret) : String :=
  "LinearizabilityTester { init_ref_obj: " ++ c.showObj T.init ++ ", history_by_thread: " ++ showLinHist c tshow T.hist ++
  ", in_flight_by_thread: " ++ showMap tshow (fun x => s!"({showLC tshow x.1}, {c.showOp x.2})") T.inflight ++
  ", is_valid_history: " ++ toString T.valid ++ " }"

def showPair (x : Op × Ret) : String := s!"({c.showOp x.1}, {c.showRet x.2})"
def showSCHist (h : List (Nat × List (Op × Ret))) : String := showMap tshow (showListWith (showPair c)) h
def showSC (T : SCTester S Op Ret) : String :=
  "SequentialConsistencyTester { init_ref_obj: " ++ c.showObj T.init ++ ", history_by_thread: " ++ showSCHist c tshow T.hist ++
  ", in_flight_by_thread: " ++ showMap tshow c.showOp T.inflight ++
  ", is_valid_history: " ++ toString T.valid ++ " }"

def showSer : Option (List (Op × Ret)) → String
  | none => "None"
  | some l => s!"Some({showListWith (showPair c) l})"

/-- the text of the `Result` a call returns, given the tester *before* the call -/
def linResText (T : Tester S Op Ret) (t : Nat) (unexpected : String) : Res → String
  | .ok => "ok"
  | .errEarlier => "err:Earlier history was invalid."
  | .errInFlight =>
    let op := match AMap.find? t T.inflight with | some x => c.showOp x.2 | none => "?"
    s!"err:Thread already has an operation in flight. thread_id={tshow t}, op={op}, history_by_thread={showLinHist c tshow T.hist}"
  | .errNoInFlight =>
    s!"err:There is no in-flight invocation for this thread ID. thread_id={tshow t}, unexpected_return={unexpected}, history={showListWith (showComplete c tshow) ((AMap.find? t T.hist).getD [])}"

def scResText (T : SCTester S Op Ret) (t : Nat) (unexpected : String) : Res → String
  | .ok => "ok"
  | .errEarlier => "err:Earlier history was invalid."
  | .errInFlight =>
    let op := match AMap.find? t T.inflight with | some x => c.showOp x | none => "?"
    s!"err:Thread already has an operation in flight. thread_id={tshow t}, op={op}, history_by_thread={showSCHist c tshow T.hist}"
  | .errNoInFlight =>
    s!"err:There is no in-flight invocation for this thread ID. thread_id={tshow t}, unexpected_return={unexpected}, history={showListWith (showPair c) ((AMap.find? t T.hist).getD [])}"

/-- run a call list on the linearizability tester, collecting the result texts -/
def linCalls : Tester S Op Ret → List (Call Op Ret) → Tester S Op Ret × List String
  | T, [] => (T, [])
  | T, .inv t op :: l =>
    let p := Tester.onInvoke true T t op
    let q := linCalls p.1 l
    (q.1, linResText c tshow T t "" p.2 :: q.2)
  | T, .ret t r :: l =>
    let p := Tester.onReturn T t r
    let q := linCalls p.1 l
    (q.1, linResText c tshow T t (c.showRet r) p.2 :: q.2)
  | T, .invret t op r :: l =>
    let p := Tester.onInvoke true T t op
    match p.2 with
    | .ok =>
      let p2 := Tester.onReturn p.1 t r
      let q := linCalls p2.1 l
      (q.1, linResText c tshow p.1 t (c.showRet r) p2.2 :: q.2)
    | e =>
      let q := linCalls p.1 l
      (q.1, linResText c tshow T t "" e :: q.2)

def scCalls : SCTester S Op Ret → List (Call Op Ret) → SCTester S Op Ret × List String
  | T, [] => (T, [])
  | T, .inv t op :: l =>
    let p := SCTester.onInvoke T t op
    let q := scCalls p.1 l
    (q.1, scResText c tshow T t "" p.2 :: q.2)
  | T, .ret t r :: l =>
    let p := SCTester.onReturn T t r
    let q := scCalls p.1 l
    (q.1, scResText c tshow T t (c.showRet r) p.2 :: q.2)
  | T, .invret t op r :: l =>
    let p := SCTester.onInvoke T t op
    match p.2 with
    | .ok =>
      let p2 := SCTester.onReturn p.1 t r
      let q := scCalls p2.1 l
      (q.1, scResText c tshow p.1 t (c.showRet r) p2.2 :: q.2)
    | e =>
      let q := scCalls p.1 l
      (q.1, scResText c tshow T t "" e :: q.2)

def linSummary (T : Tester S Op Ret) : String :=
  let ser := Tester.serializedHistory c.spec T
  s!"cons={bstr ser.isSome} ;; ser={showSer c ser} ;; len={T.len} ;; dbg={showLin c tshow T}"

def scSummary (T : SCTester S Op Ret) : String :=
  let ser := SCTester.serializedHistory c.spec T
  s!"cons={bstr ser.isSome} ;; ser={showSer c ser} ;; len={T.len} ;; dbg={showSC c tshow T}"
end

def tshowOf (mode : String) : Nat → String := if mode == "id" then (fun n => s!"Id({n})") else toString

def pairOfSx? {S Op Ret} (c : Codec S Op Ret) : SExp → Option (Op × Ret)
  | .list [op, r] => do pure (← c.opOf? op, ← c.retOf? r)
  | _ => none

/-- oracle for one history: the implementation's verdict and serialization against the
    declarative definition, by brute force -/
def oracleSer {S Op Ret} [DecidableEq Op] [DecidableEq Ret] (c : Codec S Op Ret) (rt : Bool)
    (es : List (Event Op Ret)) (cons : Bool) (ser : Option (List (Op × Ret))) : String :=
  let nOps := (completedIds es).length + (inflightIds es).length
  let wf := wfB es
  let dfs := (bruteDfs rt c.spec c.s0 es none).isSome
  let errs : List String :=
    (if cons != dfs then [if cons then "accepted-but-no-serialization-exists" else "rejected-but-serialization-exists"] else []) ++
    (if nOps ≤ 6 && brutePlain rt c.spec c.s0 es != dfs then ["oracle-self-check-plain-vs-pruned"] else []) ++
    (if !wf && cons then ["ill-formed-history-accepted"] else []) ++
    (if cons != ser.isSome then ["is_consistent-differs-from-serialized_history"] else []) ++
    (match ser with
     | none => []
     | some l =>
       match bruteDfs rt c.spec c.s0 es (some l) with
       | none => ["returned-serialization-is-not-one"]
       | some ids => if checkSer rt c.spec c.s0 es ids l then [] else ["returned-serialization-fails-definition"])
  if errs.isEmpty then "ok" else " ".intercalate errs

def resOf? : SExp → Option Res
  | .atom "ok" => some .ok
  | .atom "err-earlier" => some .errEarlier
  | .atom "err-inflight" => some .errInFlight
  | .atom "err-noinflight" => some .errNoInFlight
  | _ => none

/-- oracle for the error behaviour: the result classes must be `ok` up to the first inadmissible
    event, the matching error there, "earlier history invalid" ever after -/
def oracleResults {Op Ret} (es : List (Event Op Ret)) (rs : List Res) : String :=
  let expect : List Res :=
    match firstIllFormed es with
    | none => es.map fun _ => Res.ok
    | some (k, isInv) =>
      (List.range es.length).map fun i =>
        if i < k then Res.ok else if i = k then (if isInv then Res.errInFlight else Res.errNoInFlight) else Res.errEarlier
  if rs == expect then "ok" else "result-classes-differ-from-first-ill-formed-event"

def handle : Drv.Handler
  -- model: run the calls, answer every result text and the final summary
  | "lin-run", [mode, obj, calls] => do
    let mode ← mode.str?
    withObj obj fun c => do
      let calls ← calls.listOf? (callOf? c)
      let p := linCalls c (tshowOf mode) (Tester.new c.s0) calls
      pure (" | ".intercalate p.2 ++ " ;; " ++ linSummary c (tshowOf mode) p.1)
  | "sc-run", [mode, obj, calls] => do
    let mode ← mode.str?
    withObj obj fun c => do
      let calls ← calls.listOf? (callOf? c)
      let p := scCalls c (tshowOf mode) (SCTester.new c.s0) calls
      pure (" | ".intercalate p.2 ++ " ;; " ++ scSummary c (tshowOf mode) p.1)
  -- oracle: implementation verdicts of both testers on one history
  | "o-ser", [kind, obj, calls, cons, ser] => do
    let kind ← kind.str?
    let cons ← cons.bool?
    withObj obj fun c => do
      let calls ← calls.listOf? (callOf? c)
      let ser ← SExp.optOf? (SExp.listOf? (pairOfSx? c)) ser
      pure (oracleSer c (kind == "lin") (eventsOf calls) cons ser)
  | "o-incl", [lin, sc] => do
    let lin ← lin.bool?; let sc ← sc.bool?
    pure (if lin && !sc then "linearizable-but-not-sequentially-consistent" else "ok")
  | "o-res", [obj, calls, rs] => do
    withObj obj fun c => do
      let calls ← calls.listOf? (callOf? c)
      let rs ← rs.listOf? resOf?
      pure (oracleResults (eventsOf calls) rs)
  | _, _ => none

end SR.Drv.Sem
