import SR.Drv.Loop
/-! Driver commands for C02 (stub). -/
namespace SR.Drv.C02
def handle : Drv.Handler
  | _, _ => none
end SR.Drv.C02
