import SR.Drv.Loop
import SR.Util.HasDisc
/-! Driver commands for C12.
Model side: `hd-matches cond D props`. Oracle side: `o-hd cond D props result` evaluates the right-hand
side of the `C12_matches_*` theorems (the declarative meaning of the variant) on the IMPLEMENTATION's
answer. Encoding: cond = `all | any | anyf | allf | (allof (n ...)) | (anyof (n ...))`,
D = `(n ...)`, props = `((name exp) ...)` with exp = `a | e | s`. -/
namespace SR.Drv.C12
open SR SR.HasDisc

def expOf? : SExp → Option Expect
  | .atom "a" => some .always
  | .atom "e" => some .eventually
  | .atom "s" => some .sometimes
  | _ => none

def propOf? (x : SExp) : Option P := do
  let (n, e) ← SExp.pairOf? SExp.nat? expOf? x
  pure ⟨n, e⟩

def condOf? : SExp → Option Cond
  | .atom "all" => some .all
  | .atom "any" => some .any
  | .atom "anyf" => some .anyFailures
  | .atom "allf" => some .allFailures
  | .list [.atom "allof", s] => (s.nats?).map .allOf
  | .list [.atom "anyof", s] => (s.nats?).map .anyOf
  | _ => none

def nodupB (l : List Nat) : Bool :=
  match l with
  | [] => true
  | x :: xs => !xs.contains x && nodupB xs

/-- the declarative meaning of a variant (right-hand sides of `C12_matches_*`); `none` = the theorem
    has a hypothesis that this input violates (only `All`: foreign discoveries / duplicate names) -/
def spec (c : Cond) (D : List Nat) (props : List P) : Option Bool :=
  match c with
  | .all =>
    if nodupB D && nodupB (names props) && D.all (fun n => (names props).contains n) then
      some (props.all fun p => D.elem p.name)
    else none
  | .any => some (decide (D ≠ []))
  | .anyFailures => some (props.any fun p => p.exp != .sometimes && D.elem p.name)
  | .allFailures => some (props.all fun p => p.exp == .sometimes || D.elem p.name)
  | .allOf s => some (s.all fun n => D.elem n)
  | .anyOf s => some (s.any fun n => D.elem n)

def handle : Drv.Handler
  | "hd-matches", [c, d, ps] => do
    let c ← condOf? c; let d ← d.nats?; let ps ← ps.listOf? propOf?
    pure (bstr («matches» c d ps))
  | "o-hd", [c, d, ps, r] => do
    let c ← condOf? c; let d ← d.nats?; let ps ← ps.listOf? propOf?; let r ← r.bool?
    pure (match spec c d ps with
      | none => "ok"
      | some b => if b == r then "ok" else s!"variant-does-not-mean-its-name:spec={bstr b}")
  -- a finished run of a real checker: `early` = some reachable state was not evaluated (simulation: always),
  -- `D` = the discoveries after join. Stopping early needs a reason; no visited path reaches the depth limit.
  -- `sim`: the simulation checker tests the limit before it appends the state to the path, so it evaluates
  -- states whose path has exactly `limit` states; BFS/DFS/on-demand stop one level earlier. Neither goes deeper
  -- than the limit.
  | "o-c12-stop", [c, d, ps, early, stateCount, target, depthLimit, maxPathLen, timedOut, sim] => do
    let sim ← sim.bool?
    let c ← condOf? c; let d ← d.nats?; let ps ← ps.listOf? propOf?
    let early ← early.bool?; let stateCount ← stateCount.nat?
    let target ← SExp.optOf? SExp.nat? target; let depthLimit ← SExp.optOf? SExp.nat? depthLimit
    let maxPathLen ← maxPathLen.nat?; let timedOut ← timedOut.bool?
    let finishHolds := (spec c d ps).getD («matches» c d ps)
    let allDiscovered := ps.all fun p => d.elem p.name
    let targetReached := match target with | some t => decide (t ≤ stateCount) | none => false
    let errs : List String :=
      (if early && !(finishHolds || allDiscovered || targetReached || depthLimit.isSome || timedOut)
        then ["stopped-early-although-no-configured-condition-holds"] else []) ++
      (match depthLimit with
        | some l =>
          if (if sim then maxPathLen > l else maxPathLen ≥ l) then ["evaluated-a-state-deeper-than-the-depth-limit"] else []
        | none => [])
    pure (if errs.isEmpty then "ok" else " ".intercalate errs)
  | _, _ => none

end SR.Drv.C12
