import SR.Drv.Loop
/-! Driver commands for C12 (stub). -/
namespace SR.Drv.C12
def handle : Drv.Handler
  | _, _ => none
end SR.Drv.C12
