import SR.Drv.C06
/-! Driver commands for C09 (all commands of C06 are available too).
Model side: `reach` — the reachable set under STRUCTURAL identity (closed walk) with its crashed vectors and two
crash-dependent verdicts. Oracle side: `o-crash` — the crash clauses of the property evaluated on the
implementation's walk and handler-invocation log. -/
namespace SR.Drv.C09
open SR SR.Actor SR.Actor.Codec

def bits (l : List Bool) : SExp := SExp.list (l.map fun b => SExp.atom (if b then "1" else "0"))

def crashSt (i : Nat) (st : USt) : USt := crashOf i st

structure Tr where
  a : Action
  res : SExp
  log : List SExp

def tr? : SExp → Option Tr
  | .list [a, res, .list log] => do pure { a := ← action? a, res := res, log := log }
  | _ => none

def logActor : SExp → Option Nat
  | .list (_ :: i :: _) => i.nat?
  | _ => none

def checkState (sys : USys) (states : Array USt) (recs : Array (List Tr)) (i : Nat) (st : USt) (rec : List Tr) : Option String := do
  let k := sys.maxCrashes
  -- C09_inv
  if countCrashed st.crashed > k then some s!"state {i}: more than {k} actors crashed"
  else if (List.range sys.n).any (fun j => st.crashed[j]? == some true && (st.timers[j]? != some [] || st.random[j]? != some [])) then
    some s!"state {i}: a crashed actor still holds timers or pending choices"
  else
  -- C09_offered
  let offered := rec.filterMap (fun t => match t.a with | .crash j => some j | _ => none)
  let expected := (List.range sys.n).filter (fun j => st.crashed[j]? == some false && countCrashed st.crashed < k)
  if offered != expected then some s!"state {i}: crash actions offered for {offered} but allowed for {expected}"
  else
  rec.findSome? fun t =>
    -- C09_silent: nothing is ever handed to a crashed actor
    if t.log.any (fun l => match logActor l with | some j => st.crashed[j]? == some true | none => false) then
      some s!"state {i}: action {ofAction t.a} invoked a handler of a crashed actor"
    else match t.a with
    | .crash j =>
      -- C09_effect, C09_distinct
      match t.res.nat?.bind (states[·]?) with
      | none => some s!"state {i}: crash {j} is not a step"
      | some st' =>
        if st' != crashSt j st then some s!"state {i}: crash {j} has the wrong effect"
        else if st' == st then some s!"state {i}: crash {j} yields the same state"
        else
          -- C09_others: every step of another actor commutes with the crash
          match t.res.nat?.bind (recs[·]?) with
          | none => none      -- successor not expanded within the bound
          | some rec' =>
            rec.findSome? fun u =>
              match u.a with
              | .crash _ => none
              | a =>
                if actorOfAction a == some j then none else
                match rec'.find? (fun u' => u'.a == a) with
                | none => some s!"state {i}: after crash {j} the action {ofAction a} of another actor is no longer offered"
                | some u' =>
                  let exp : Option USt := (u.res.nat?.bind (states[·]?)).map (crashSt j)
                  let got : Option USt := u'.res.nat?.bind (states[·]?)
                  if exp != got then some s!"state {i}: after crash {j} the action {ofAction a} of another actor behaves differently"
                  else none
    | .deliver e =>
      -- C09_silent / C09_undelivered
      if st.crashed[e.dst]? == some true && t.res != .atom "-" then some s!"state {i}: delivery to crashed actor {e.dst} is a step"
      else none
    | .timeout j _ | .selectRandom j _ _ =>
      if st.crashed[j]? == some true then some s!"state {i}: crashed actor {j} is offered {ofAction t.a}" else none
    | .drop _ => none

def oCrash (sys : USys) (states : Array USt) (recs : Array (List Tr)) : String := Id.run do
  let mut i := 0
  for rec in recs do
    match states[i]? with
    | none => return s!"bad record {i}"
    | some st =>
      match checkState sys states recs i st rec with
      | some err => return err
      | none => pure ()
    i := i + 1
  return "ok"

def handle : Drv.Handler
  | "reach", [sys, bound] => do
    let sys ← sys? sys; let bound ← bound.nat?
    match SR.ReachRef.walkT sys bound with
    | none => pure "panic"
    | some w =>
      if w.records.size != w.states.size then pure "open"
      else
        let sts := w.states.toList
        let vecs := (sts.map (·.crashed)).eraseDups
        let keyOf := fun (l : List Bool) => l.map (fun b => if b then 1 else 0)
        let vecs := vecs.mergeSort (fun a b => natsLe (keyOf a) (keyOf b))
        let full := sts.any (fun s => countCrashed s.crashed == sys.maxCrashes)
        let zero := sts.any (fun s => s.crashed[0]? == some true)
        pure s!"closed {sts.length} {SExp.list (vecs.map bits)} {Drv.bstr full} {Drv.bstr zero}"
  -- the checker's visited set (implementation output) against the structural reachable set of the specification
  | "o-reach", [sys, bound, visited] => do
    let sys ← sys? sys; let bound ← bound.nat?
    let visited ← visited.list?
    match SR.ReachRef.walkT sys bound with
    | none => pure "reference semantics panics"
    | some w =>
      if w.records.size != w.states.size then pure "reference reachable set not closed under the bound"
      else
        let ref := (w.states.toList.map (fun s => toString (ofSt s))).mergeSort (· ≤ ·)
        let got := (visited.map toString).mergeSort (· ≤ ·)
        pure (if got == ref then "ok"
          else if got.eraseDups.length != got.length then "the checker visited a state twice"
          else match ref.find? (fun s => !got.contains s) with
            | some s => s!"reachable state never visited by the checker: {s}"
            | none => match got.find? (fun s => !ref.contains s) with
              | some s => s!"checker visited an unreachable state: {s}"
              | none => "visited multiset differs from the reachable set")
  | "o-crash", [sys, states, recs] => do
    let sys ← sys? sys
    let states ← states.listOf? st?
    let recs ← recs.listOf? (SExp.listOf? tr?)
    pure (oCrash sys states.toArray recs.toArray)
  | c, args => C06.handle c args

end SR.Drv.C09
