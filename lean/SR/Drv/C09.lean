import SR.Drv.Loop
/-! Driver commands for C09 (stub). -/
namespace SR.Drv.C09
def handle : Drv.Handler
  | _, _ => none
end SR.Drv.C09
