import SR.Drv.Loop
/-! Driver commands for C16 (stub). -/
namespace SR.Drv.C16
def handle : Drv.Handler
  | _, _ => none
end SR.Drv.C16
