import SR.Drv.Loop
import SR.Actor.Orl
/-! Driver commands for C16.

Model side: `orl-init`, `orl-succ` (every enabled action of a state with its successor, through `implNext`,
i.e. through machine steps only), `orl-h` (one handler call).  Oracle side: `o-orl` (the specification side
of `C16_prefix`, `C16_no_redelivery`, `C16_complete_when_acked`, `C16_no_early_ack` evaluated on the
implementation's state and the logs tapped from the wrapped actors).

Wire format (all collections that come out of hash maps / the network are printed as sorted lists of their
printed items, on both sides):
  SCN   = (dup|nondup|ord LOSSY N (ACTOR ...))   ACTOR = ((CMD ...) (RULE ...))   CMD = (s dst m) | u
          RULE = (on from log (CMD ...))   from = any | id
  NODE  = (((d next) ...) ((d q m) ...) ((s last) ...) ((src m) ...) ((src q m) ...) ((dst m) ...))
  STATE = ((NODE ...) (PACKET ...))   PACKET = (src dst D q m) | (src dst A q)
-/
namespace SR.Drv.C16
open SR SR.Orl

abbrev WSt := List (Id × Nat)

structure Rule where
  on : Nat
  from? : Option Nat
  log : Bool
  cmds : List (WCmd Nat)

structure Scr where
  start : List (WCmd Nat)
  rules : List Rule

structure Scn where
  kind : Kind
  lossy : Bool
  n : Nat
  actors : List Scr

/-- the scripted wrapped actor of the harness (`Scr` in harness/src/bin/c16.rs) -/
def mkWrapped (actors : List Scr) : Wrapped Nat WSt where
  onStart := fun i => ([], match actors[i]? with | some a => a.start | none => [])
  onMsg := fun i st src m =>
    match actors[i]? with
    | none => (some (st ++ [(src, m)]), [])
    | some a =>
      match a.rules.find? (fun r => r.on == m && (r.from?.isNone || r.from? == some src)) with
      | some r => (if r.log then some (st ++ [(src, m)]) else none, r.cmds)
      | none => (some (st ++ [(src, m)]), [])

/-! ### decoding -/

def cmd? : SExp → Option (WCmd Nat)
  | .atom "u" => some WCmd.unsupported
  | .list [.atom "s", d, m] => do pure (WCmd.send (← d.nat?) (← m.nat?))
  | _ => none

def rule? : SExp → Option Rule
  | .list [on, fr, log, cmds] => do
    let fr ← (match fr with | .atom "any" => some none | x => x.nat?.map some)
    pure { on := ← on.nat?, from? := fr, log := ← log.bool?, cmds := ← cmds.listOf? cmd? }
  | _ => none

def scr? : SExp → Option Scr
  | .list [start, rules] => do pure { start := ← start.listOf? cmd?, rules := ← rules.listOf? rule? }
  | _ => none

def scn? : SExp → Option Scn
  | .list [.atom k, lossy, n, actors] => do
    let kind ← (match k with | "dup" => some Kind.dup | "nondup" => some Kind.nondup | "ord" => some Kind.ordered | _ => none)
    pure { kind, lossy := ← lossy.bool?, n := ← n.nat?, actors := ← actors.listOf? scr? }
  | _ => none

def pair? : SExp → Option (Nat × Nat) := SExp.pairOf? SExp.nat? SExp.nat?
def triple? : SExp → Option (Nat × Nat × Nat)
  | .list [a, b, c] => do pure (← a.nat?, ← b.nat?, ← c.nat?)
  | _ => none

def node? : SExp → Option (Node Nat WSt)
  | .list [ns, pa, ld, ws, ha, se] => do
    let pa ← pa.listOf? triple?
    pure { nextSeq := ← ns.listOf? pair?, pending := pa.map (fun (d, q, m) => ((d, q), m)),
           lastDel := ← ld.listOf? pair?, wrapped := ← ws.listOf? pair?,
           handed := ← ha.listOf? triple?, sent := ← se.listOf? pair? }
  | _ => none

def env? : List SExp → Option (Env Nat)
  | [.atom "D", q, m] => do pure (Env.deliver (← q.nat?) (← m.nat?))
  | [.atom "A", q] => do pure (Env.ack (← q.nat?))
  | _ => none

def packet? : SExp → Option (Packet Nat)
  | .list (s :: d :: rest) => do pure ⟨← s.nat?, ← d.nat?, ← env? rest⟩
  | _ => none

def state? : SExp → Option (List (Node Nat WSt) × List (Packet Nat))
  | .list [nodes, net] => do pure (← nodes.listOf? node?, ← net.listOf? packet?)
  | _ => none

def emptyNode : Node Nat WSt := { nextSeq := [], pending := [], lastDel := [], wrapped := [], handed := [], sent := [] }

def world (nodes : List (Node Nat WSt)) (net : List (Packet Nat)) : World Nat WSt :=
  { nodes := fun i => nodes[i]?.getD emptyNode, net }

/-! ### printing -/

def sortStrs (l : List String) : List String := l.mergeSort (fun a b => !(decide (b < a)))
def par (items : List String) : String := "(" ++ " ".intercalate items ++ ")"
def parSorted (items : List String) : String := par (sortStrs items)

def envStr : Env Nat → String
  | .deliver q m => s!"D {q} {m}"
  | .ack q => s!"A {q}"
def packetStr (p : Packet Nat) : String := s!"({p.src} {p.dst} {envStr p.env})"

def nodeStr (nd : Node Nat WSt) : String :=
  par [ parSorted (nd.nextSeq.map fun (d, v) => s!"({d} {v})"),
        parSorted (nd.pending.map fun ((d, q), m) => s!"({d} {q} {m})"),
        parSorted (nd.lastDel.map fun (s, v) => s!"({s} {v})"),
        par (nd.wrapped.map fun (s, m) => s!"({s} {m})"),
        par (nd.handed.map fun (s, q, m) => s!"({s} {q} {m})"),
        par (nd.sent.map fun (d, m) => s!"({d} {m})") ]

def worldStr (n : Nat) (st : World Nat WSt) : String :=
  par [par ((List.range n).map fun i => nodeStr (st.nodes i)), parSorted (st.net.map packetStr)]

def actionStr : Action Nat → String
  | .deliver p => s!"(dl {packetStr p})"
  | .drop p => s!"(dr {packetStr p})"
  | .timeout i => s!"(to {i})"

def outcomeStr (n : Nat) : Outcome Nat WSt → String
  | .ignored => "ignored"
  | .panic => "panic"
  | .invalid => "invalid"
  | .next st => worldStr n st

def ocmdStr : OCmd Nat → String
  | .setTimer => "T"
  | .send d e => s!"({d} {envStr e})"

/-- commands in emission order; for the timer handler the resends come out of a hash map: sorted -/
def ocmdsStr (sortSends : Bool) (out : List (OCmd Nat)) : String :=
  let timers := (out.filter (· == OCmd.setTimer)).map ocmdStr
  let sends := (out.filter (· != OCmd.setTimer)).map ocmdStr
  let firstOk := match out.findIdx? (· == OCmd.setTimer) with | some i => i == 0 | none => true
  par (timers ++ (if firstOk then [] else ["timer-not-first"]) ++ (if sortSends then sortStrs sends else sends))

/-! ### the ordered network: the flow heads are an input; check they are consistent with the multiset -/

def sameFlow (p q : Packet Nat) : Bool := p.src == q.src && p.dst == q.dst

def headsOk (net heads : List (Packet Nat)) : Bool :=
  heads.all (· ∈ net) && (heads.map fun p => (p.src, p.dst)).Nodup && net.all (fun p => heads.any (sameFlow p))

/-! ### oracle: the property, stated over what the implementation shows -/

def maxId (nodes : List (Node Nat WSt)) : Nat :=
  (nodes.flatMap fun nd => nd.sent.map (·.1) ++ nd.pending.map (·.1.1)).foldl max nodes.length

def oracle (nodes : List (Node Nat WSt)) (net : List (Packet Nat)) : List String :=
  let n := nodes.length
  (List.range n).flatMap fun s => (List.range (maxId nodes + 1)).flatMap fun d =>
    let S := nodes[s]?.getD emptyNode
    let sent := sentTo S d
    let handed := match nodes[d]? with | some R => handedFrom R s | none => []
    let msgs := handed.map (·.2)
    let seqs := handed.map (·.1)
    let pendingTo := S.pending.filter (fun e => e.1.1 == d)
    let tag := s!"[{s}->{d}]"
    (if msgs.isPrefixOf sent then [] else [s!"handed-not-a-prefix-of-sent{tag}"]) ++
    (if seqs == List.range' 1 seqs.length then [] else [s!"not-exactly-once-in-order{tag}"]) ++
    (if pendingTo.isEmpty && msgs != sent then [s!"all-acknowledged-but-handed≠sent{tag}"] else []) ++
    (if net.all (fun p => match p.env with
        | .ack q => !(p.src == d && p.dst == s) || (1 ≤ q && q ≤ handed.length)
        | .deliver q m => !(p.src == s && p.dst == d) || (1 ≤ q && sent[q - 1]? == some m))
      then [] else [s!"ack-before-handover-or-fabricated-deliver{tag}"]) ++
    (if (List.range' 1 sent.length).all (fun q => pendingTo.any (fun e => e.1.2 == q) || q ≤ handed.length)
      then [] else [s!"acknowledged-and-discarded-before-handover{tag}"])

/-! ### commands -/

def handle : Drv.Handler
  | "orl-init", [scn] => do
    let scn ← scn? scn
    let W := mkWrapped scn.actors
    pure (match init W scn.n with | none => "panic" | some st => worldStr scn.n st)
  | "orl-succ", [scn, st, heads] => do
    let scn ← scn? scn
    let (nodes, net) ← state? st
    let W := mkWrapped scn.actors
    let w := world nodes net
    let deliverable ← (if scn.kind == Kind.ordered then heads.listOf? packet? else some net)
    if scn.kind == Kind.ordered && !headsOk net deliverable then pure "bad-heads" else
    let acts := implActions scn.n scn.lossy deliverable
    let items := acts.map fun a => s!"({actionStr a} {outcomeStr scn.n (implNext W scn.n scn.kind w a)})"
    pure (parSorted items)
  | "orl-h", [scn, id, nd, ev] => do
    let scn ← scn? scn
    let id ← id.nat?
    let nd ← node? nd
    let W := mkWrapped scn.actors
    match ev with
    | .atom "t" => pure s!"(b {ocmdsStr true (onTimeout nd)})"
    | .list [.atom "m", src, .list env] => do
      let src ← src.nat?
      let env ← env? env
      pure (match onMsg W id nd src env with
        | none => "panic"
        | some (none, out) => s!"(b {ocmdsStr false out})"
        | some (some nd', out) => s!"(o {nodeStr nd'} {ocmdsStr false out})")
    | _ => none
  | "o-orl", [st] => do
    let (nodes, net) ← state? st
    let errs := oracle nodes net
    pure (if errs.isEmpty then "ok" else " ".intercalate errs)
  | _, _ => none

end SR.Drv.C16
