import SR.Drv.Loop
/-! Driver commands for C01 (stub). -/
namespace SR.Drv.C01
def handle : Drv.Handler
  | _, _ => none
end SR.Drv.C01
